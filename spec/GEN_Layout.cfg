SPECIFICATION Spec
CONSTANTS
  NLayers = 2
  Separate = FALSE
CHECK_DEADLOCK FALSE
