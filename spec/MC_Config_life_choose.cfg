SPECIFICATION Spec
CONSTANTS
  MaxDiff = 1
  BaseNames = {"default", "edge", "top"}
  PolSet = {TRUE, FALSE}
  Acts = {"choose", "validate", "save", "load", "open", "put", "close", "truncate", "garbage", "tamper"}
INVARIANT Inv
PROPERTIES RejectedSaveWritesNothing BadManifestFailsOpen FailedOpenChangesNothing
CHECK_DEADLOCK FALSE
