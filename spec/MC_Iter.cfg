SPECIFICATION Spec
CONSTANTS
  N = 3
  NSrc = 2
  MaxSteps = 2
  LoSet <- LoSetDef
  HiSet <- HiSetDef
  FltSet <- FltSetDef
INVARIANT PositionIsEntry
INVARIANT CursorsConsistent
PROPERTY SeekToFirstOK
PROPERTY SeekOK
PROPERTY NextOK
PROPERTY SeekToLastOK
CHECK_DEADLOCK FALSE
