------------------------------- MODULE KevoTxn -------------------------------
(***************************************************************************)
(* kevo's transactions (pkg/transaction: Manager, TransactionImpl, Buffer, *)
(* RegistryImpl) at the grain of the implementation.                       *)
(*                                                                         *)
(* Isolation is ONE reader-writer lock (Manager.txLock) taken at begin and *)
(* released at commit/rollback; a read-write transaction buffers its       *)
(* writes privately and applies them at commit in one Manager.ApplyBatch   *)
(* call, which holds the storage lock `mu` while every entry enters the    *)
(* memtable - so no reader, inside or outside a transaction, can see part  *)
(* of a write set.  The registry gives remote clients handles, times a     *)
(* begin out after 10 s (the request stays in flight and is rolled back    *)
(* when it is finally granted) and rolls abandoned transactions back.      *)
(*                                                                         *)
(* Properties: C03 (CommitIsOneStep, RollbackLeavesNoTrace, reads while a  *)
(* commit is applying wait), C04 (ReadsAreSnapshotPlusOwn, SnapshotStable, *)
(* serial order = lock order), C17 (UnlockExactlyOnce, closed after        *)
(* finish, every transaction ends, quiescent => lock free).                *)
(***************************************************************************)
EXTENDS Integers, Sequences, FiniteSets, TLC

CONSTANTS Clients,     \* client ids (strings "c1", "c2", ...)
          Keys, Vals,  \* key / value tokens
          MaxTx,       \* bound on transactions begun in total
          MaxWrites,   \* bound on buffered writes per transaction
          Registry     \* TRUE: begins go through the registry (time-out, abandon, cleanup) - C17

Tomb == "TOMB"
NoBuf == "NOBUF"        \* key not written by the transaction
NoOne == "none"

VARIABLES
  db,        \* what the storage engine shows: key -> value or Tomb
  readers,   \* clients holding txLock for reading
  writer,    \* client holding txLock for writing, or NoOne
  pendW,     \* clients inside txLock.Lock() (a pending writer blocks NEW readers: Go's RWMutex)
  st,        \* per client: "idle" | "waitR" | "waitW" | "ro" | "rw" | "applying" | "applied" | "rb"
  buf,       \* per client: key -> value | Tomb | NoBuf   (private write buffer)
  nw,        \* per client: number of buffered operations so far (bound)
  snap,      \* ghost: db when the client's lock was granted
  cok,       \* ghost: did the client's ApplyBatch succeed
  gaveup,    \* registry: clients whose Begin call has timed out while the lock request is still in flight
  abandoned, \* registry: clients that will never call again (their transaction has to be reaped)
  ntx

vars == <<db, readers, writer, pendW, st, buf, nw, snap, cok, gaveup, abandoned, ntx>>

EmptyBuf == [k \in Keys |-> NoBuf]
Overlay(d, b) == [k \in Keys |-> IF b[k] = NoBuf THEN d[k] ELSE b[k]]
View(c) == Overlay(db, buf[c])          \* what transaction c must read: storage plus its own writes
Active(c) == st[c] \in {"ro", "rw", "applying", "applied", "rb"}
Holding(c) == c \in readers \/ writer = c

Init == /\ db = [k \in Keys |-> Tomb]
        /\ readers = {} /\ writer = NoOne /\ pendW = {}
        /\ st = [c \in Clients |-> "idle"]
        /\ buf = [c \in Clients |-> EmptyBuf] /\ nw = [c \in Clients |-> 0]
        /\ snap = [c \in Clients |-> [k \in Keys |-> Tomb]]
        /\ cok = [c \in Clients |-> TRUE]
        /\ gaveup = {} /\ abandoned = {} /\ ntx = 0

-----------------------------------------------------------------------------
(* Begin: Manager.BeginTransaction = create the object, then RLock / Lock *)

BeginReq(c, mode) ==
  /\ st[c] = "idle" /\ c \notin abandoned /\ ntx < MaxTx
  /\ st' = [st EXCEPT ![c] = IF mode = "ro" THEN "waitR" ELSE "waitW"]
  /\ pendW' = IF mode = "rw" THEN pendW \cup {c} ELSE pendW
  /\ buf' = [buf EXCEPT ![c] = EmptyBuf] /\ nw' = [nw EXCEPT ![c] = 0]
  /\ ntx' = ntx + 1
  /\ UNCHANGED <<db, readers, writer, snap, cok, gaveup, abandoned>>

\* RLock returns: no writer holds the lock and none is pending (pending writers go first)
GrantR(c) ==
  /\ st[c] = "waitR" /\ writer = NoOne /\ pendW = {}
  /\ readers' = readers \cup {c}
  /\ st' = [st EXCEPT ![c] = "ro"] /\ snap' = [snap EXCEPT ![c] = db]
  /\ UNCHANGED <<db, writer, pendW, buf, nw, cok, gaveup, abandoned, ntx>>

\* Lock returns: nobody holds the lock
GrantW(c) ==
  /\ st[c] = "waitW" /\ writer = NoOne /\ readers = {}
  /\ writer' = c /\ pendW' = pendW \ {c}
  /\ st' = [st EXCEPT ![c] = "rw"] /\ snap' = [snap EXCEPT ![c] = db]
  /\ UNCHANGED <<db, readers, buf, nw, cok, gaveup, abandoned, ntx>>

-----------------------------------------------------------------------------
(* Operations inside a transaction (TransactionImpl.Get/Put/Delete/NewIterator): no state change but the buffer *)

TxWrite(c, k, v) ==
  /\ st[c] = "rw" /\ c \notin abandoned /\ nw[c] < MaxWrites
  /\ buf' = [buf EXCEPT ![c][k] = v] /\ nw' = [nw EXCEPT ![c] = @ + 1]
  /\ UNCHANGED <<db, readers, writer, pendW, st, snap, cok, gaveup, abandoned, ntx>>

-----------------------------------------------------------------------------
(* Commit of a read-write transaction: ApplyBatch (under the storage lock), then Unlock *)

ApplyStart(c) ==        \* Manager.ApplyBatch has taken mu: from here until Applied no reader gets through
  /\ st[c] = "rw" /\ \A d \in Clients : st[d] # "applying"
  /\ st' = [st EXCEPT ![c] = "applying"]
  /\ UNCHANGED <<db, readers, writer, pendW, buf, nw, snap, cok, gaveup, abandoned, ntx>>

Applied(c, ok) ==       \* the whole write set becomes visible in ONE step - or, if ApplyBatch failed, nothing does
  /\ st[c] = "applying"
  /\ db' = IF ok THEN Overlay(db, buf[c]) ELSE db
  /\ cok' = [cok EXCEPT ![c] = ok]
  /\ st' = [st EXCEPT ![c] = "applied"]
  /\ UNCHANGED <<readers, writer, pendW, buf, nw, snap, gaveup, abandoned, ntx>>

\* Commit of a read-only transaction, Rollback of any: nothing becomes visible
Finishing(c) ==
  /\ st[c] \in {"ro", "rw"}
  /\ st' = [st EXCEPT ![c] = "rb"]
  /\ UNCHANGED <<db, readers, writer, pendW, buf, nw, snap, cok, gaveup, abandoned, ntx>>

\* releaseReadLock / releaseWriteLock: exactly once per transaction (CAS-guarded)
Unlock(c) ==
  /\ st[c] \in {"applied", "rb"} /\ Holding(c)
  /\ readers' = readers \ {c}
  /\ writer' = IF writer = c THEN NoOne ELSE writer
  /\ st' = [st EXCEPT ![c] = "idle"]
  /\ buf' = [buf EXCEPT ![c] = EmptyBuf]
  /\ UNCHANGED <<db, pendW, nw, snap, cok, gaveup, abandoned, ntx>>

-----------------------------------------------------------------------------
(* Registry (remote clients): begin time-out, abandoned transactions, cleanup *)

\* the registry caller stops waiting after 10 s; the goroutine that requested the lock is still blocked in it
BeginTimeout(c) ==
  /\ Registry /\ st[c] \in {"waitR", "waitW"} /\ c \notin gaveup
  /\ gaveup' = gaveup \cup {c}
  /\ UNCHANGED <<db, readers, writer, pendW, st, buf, nw, snap, cok, abandoned, ntx>>

\* a client disappears while holding a transaction (connection lost, process gone)
Abandon(c) ==
  /\ Registry /\ st[c] \in {"ro", "rw"} /\ c \notin abandoned
  /\ abandoned' = abandoned \cup {c}
  /\ UNCHANGED <<db, readers, writer, pendW, st, buf, nw, snap, cok, gaveup, ntx>>

\* the late grant of a timed-out begin is rolled back at once; idle/TTL expiry, connection cleanup and shutdown
\* roll an abandoned transaction back.  Both are Finishing + Unlock of a client that will not do it itself.
Reap(c) ==
  /\ Registry /\ (c \in gaveup \/ c \in abandoned) /\ st[c] \in {"ro", "rw"}
  /\ st' = [st EXCEPT ![c] = "rb"]
  /\ gaveup' = gaveup \ {c} /\ abandoned' = abandoned \ {c}
  /\ UNCHANGED <<db, readers, writer, pendW, buf, nw, snap, cok, ntx>>

-----------------------------------------------------------------------------
\* a client that gave up or vanished does not operate on its transaction any more
Mine(c) == c \notin gaveup /\ c \notin abandoned

Next == \/ \E c \in Clients, m \in {"ro", "rw"} : BeginReq(c, m)
        \/ \E c \in Clients : GrantR(c) \/ GrantW(c)
        \/ \E c \in Clients, k \in Keys, v \in Vals \cup {Tomb} : Mine(c) /\ TxWrite(c, k, v)
        \/ \E c \in Clients : Mine(c) /\ (ApplyStart(c) \/ Finishing(c))
        \/ \E c \in Clients, ok \in BOOLEAN : Applied(c, ok)
        \/ \E c \in Clients : Unlock(c)
        \/ \E c \in Clients : BeginTimeout(c) \/ Abandon(c) \/ Reap(c)

Spec == Init /\ [][Next]_vars

\* fairness for the liveness part (C17): the lock is granted when free, a client that is not abandoned finishes what it
\* began, unlocks follow, and the registry's reaper runs
Fair == /\ \A c \in Clients : WF_vars(GrantR(c)) /\ WF_vars(GrantW(c)) /\ WF_vars(Unlock(c))
        /\ \A c \in Clients : WF_vars(Mine(c) /\ (ApplyStart(c) \/ Finishing(c)))
        /\ \A c \in Clients : WF_vars(\E ok \in BOOLEAN : Applied(c, ok))
        /\ \A c \in Clients : WF_vars(Reap(c))
LiveSpec == Spec /\ Fair

-----------------------------------------------------------------------------
(* Properties *)

TypeOK == /\ writer \in Clients \cup {NoOne}
          /\ readers \subseteq Clients

\* the lock protocol: one writer or many readers
Mutex == /\ writer # NoOne => readers = {}
         /\ \A c \in Clients : st[c] \in {"rw", "applying", "applied"} => writer = c
         /\ \A c \in Clients : st[c] = "ro" => c \in readers

\* C04: while a transaction holds its lock the storage state is the one it began with (plus, for the holder of the
\* write lock, its own commit): reads = snapshot + own writes, no dirty or non-repeatable read is possible
SnapshotStable == \A c \in Clients : st[c] \in {"ro", "rw", "applying"} => db = snap[c]
\* C03: the write set appears in one step (Applied) and only there: db changes in no other action
CommitIsOneStep == [][db' # db => \E c \in Clients : st[c] = "applying" /\ st'[c] = "applied"
                                      /\ db' = Overlay(db, buf[c])]_vars
\* C03: rollback, read-only commit, a failed apply, reaping: nothing changes
RollbackLeavesNoTrace == [][\A c \in Clients : st'[c] = "rb" /\ st[c] # "rb" => db' = db]_vars
\* C17: the lock is released exactly once, by its holder
UnlockByHolder == [][\A c \in Clients : (c \in readers /\ c \notin readers') \/ (writer = c /\ writer' # c)
                        => st[c] \in {"applied", "rb"} /\ st'[c] = "idle"]_vars
\* C17: when nothing is in flight the lock is free
Quiescent == \A c \in Clients : st[c] = "idle"
QuiescentLockFree == Quiescent => readers = {} /\ writer = NoOne /\ pendW = {}
\* C17 (liveness): every transaction ends and every begin is eventually answered
EveryTxEnds == \A c \in Clients : (st[c] # "idle") ~> (st[c] = "idle")

Inv == TypeOK /\ Mutex /\ SnapshotStable /\ QuiescentLockFree
=============================================================================
