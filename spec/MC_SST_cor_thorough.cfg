SPECIFICATION Spec
CONSTANTS
  MaxBlocks = 3
  MaxLen = 4
  RIs = {1, 2, 3}
  Seeds = {1, 2}
  Covered = {"data", "restart", "index", "footer"}
  Cors = {"data", "restart", "sum", "indexkey", "indexoff", "footer", "bloomkey", "bloomoff", "bloomdrop", "bloomfail"}
INVARIANT Inv
CHECK_DEADLOCK FALSE
