SPECIFICATION GSpec
CONSTANTS
  MaxDiff = 2
  BaseNames = {"default"}
  PolSet = {TRUE, FALSE}
  Acts = {}
  Mode = "fields"
  GenLen = 0
INVARIANT Inv
CHECK_DEADLOCK FALSE
