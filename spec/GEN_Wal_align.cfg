SPECIFICATION GSpec
CONSTANTS
  ShapeNames = {"small", "put11"}
  Batches = {}
  MaxEntries = 1000
  MaxFiles = 60
  GenLen = 0
  Sweep = TRUE
  SweepRanges <- AlignRanges
CHECK_DEADLOCK FALSE
