SPECIFICATION Spec
CONSTANTS
  Clients = {"c1", "c2", "c3", "c4", "c5", "c6", "c7", "c8"}
  Keys = {"k1", "k2", "k3", "k4"}
INVARIANT NotDone
CONSTRAINT HighWater
POSTCONDITION Accepted
CHECK_DEADLOCK FALSE
