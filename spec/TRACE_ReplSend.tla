--------------------------- MODULE TRACE_ReplSend ---------------------------
(* Validation of what the real session senders of replication.Primary (push, initial send, catch-up poll, resend) put on
   a stream, recorded by the harness behind a fake stream (C13, sender side).  Events, in logging order:
     reset | w(op) | att(start) | det | m(ents, ok) | nack(from) | fin(n) | error
   w is logged before the primary call; all operations of one w share the next sequence number (one WAL batch).
   m is one message, decoded entry by entry: [k, v, seq].  The rules are KevoRepl's:
     * a message is a contiguous range of the primary's log consisting of WHOLE batches (Msgs / WholeBatches);
     * the replica accepts it iff its first entry carries the expected number (Accepts), then every entry of it is applied
       and expected moves behind its last number; otherwise nothing is applied (a gap, answered by a nack);
     * a new stream asks for the log behind what the replica has applied (Reconnect);
     * in the end the replica has been handed the whole log, entry by entry, in order (Converged /\ AppliedIsPrefix). *)
EXTENDS Integers, Sequences, Json, TLC

VARIABLES l, ents, nseq, exp, app
Trace == ndJsonDeserialize("trace.ndjson")
tvars == <<l, ents, nseq, exp, app>>
Ev(e) == l <= Len(Trace) /\ Trace[l].e = e /\ l' = l + 1

BatchStart(i) == IF i = 1 THEN TRUE ELSE ents[i - 1].seq # ents[i].seq
BatchEnd(i) == IF i = Len(ents) THEN TRUE ELSE ents[i + 1].seq # ents[i].seq

TInit == TLCSet(1, 0) /\ l = 1 /\ ents = <<>> /\ nseq = 1 /\ exp = 1 /\ app = 0
TReset == Ev("reset") /\ ents' = <<>> /\ nseq' = 1 /\ exp' = 1 /\ app' = 0
TW == /\ Ev("w")
      /\ ents' = ents \o [i \in 1..Len(Trace[l].op) |-> [k |-> Trace[l].op[i].k, v |-> Trace[l].op[i].v, seq |-> nseq]]
      /\ nseq' = nseq + 1 /\ UNCHANGED <<exp, app>>
TAtt == Ev("att") /\ Trace[l].start = exp - 1 /\ UNCHANGED <<ents, nseq, exp, app>>
TPlain == (Ev("det") \/ Ev("nack")) /\ UNCHANGED <<ents, nseq, exp, app>>
TMsg == /\ Ev("m")
        /\ LET m == Trace[l].ents
               c == {i \in DOMAIN ents : ents[i].seq = m[1].seq}
           IN /\ c # {}
              /\ LET lo == CHOOSE i \in c : \A j \in c : i <= j
                     hi == lo + Len(m) - 1
                 IN /\ hi <= Len(ents)
                    /\ \A i \in 1..Len(m) : m[i].k = ents[lo + i - 1].k /\ m[i].v = ents[lo + i - 1].v /\ m[i].seq = ents[lo + i - 1].seq
                    /\ BatchStart(lo) /\ BatchEnd(hi)                     \* whole batches only
                    /\ IF m[1].seq = exp
                       THEN lo = app + 1 /\ Trace[l].ok /\ app' = hi /\ exp' = ents[hi].seq + 1
                       ELSE ~Trace[l].ok /\ UNCHANGED <<exp, app>>
        /\ UNCHANGED <<ents, nseq>>
TFin == Ev("fin") /\ app = Len(ents) /\ Trace[l].n = Len(ents) /\ UNCHANGED <<ents, nseq, exp, app>>

TNext == TReset \/ TW \/ TAtt \/ TPlain \/ TMsg \/ TFin
TSpec == TInit /\ [][TNext]_tvars
HighWater == IF l > TLCGet(1) THEN TLCSet(1, l) ELSE TRUE
Accepted == /\ PrintT(<<"HIGHWATER", TLCGet(1)>>)
            /\ TLCGet(1) = Len(Trace) + 1
=============================================================================
