SPECIFICATION Spec
CONSTRAINT HighWater
POSTCONDITION Accepted
CHECK_DEADLOCK FALSE
