----------------------------- MODULE MC_Service -----------------------------
(* Exhaustive configurations of KevoService: every request of a bounded request alphabet (all size classes of keys,   *)
(* values and batches, unknown / finished handles, both APIs, the applier's entry points, the mode switch) in every   *)
(* reachable state. *)
EXTENDS KevoService

CONSTANTS Vias,        \* {"grpc"} (C19) or {"grpc", "emb"} (C16)
          WithApply,   \* TRUE: the applier's entry points and SetReadOnly are part of the alphabet (C16)
          ScanAll      \* TRUE: ScanSound is evaluated for the whole option space in every state

MCKeys == {<<1>>, <<1, 2>>, <<Big>>, <<>>, <<Big, 8>>}       \* two ordinary keys, the longest legal key, empty, one byte too long
MCKeysSmall == {<<1>>, <<Big>>, <<>>, <<Big, 8>>}
Bounds == {<<>>, <<1>>, <<1, 2>>, <<2>>}
Affixes == {<<>>, <<1>>, <<2>>}
ScanOpts == [s : Bounds, e : Bounds, p : Affixes, x : Affixes, l : {0, 1, 2}]
FewScanOpts == {NoScan, [NoScan EXCEPT !.p = <<1>>, !.l = 1], [NoScan EXCEPT !.s = <<1, 2>>], [NoScan EXCEPT !.e = <<1, 2>>, !.x = <<1>>]}

BOp(t, k, v) == [t |-> t, k |-> k, v |-> v]
OneVal == CHOOSE v \in StoreVals : TRUE
\* batches: one entry, two entries on different keys (second one possibly invalid: atomicity), delete + put, padded to the
\* limit and one beyond
Batches == {<<>>} \cup {<<BOp("put", k, v)>> : k \in KeyArgs, v \in ValArgs}
           \cup {<<BOp("put", k1, OneVal), BOp(t, k2, OneVal)>> : k1 \in StoreKeys, k2 \in KeyArgs, t \in {"put", "del"}}
MergeBatches == {<<BOp("merge", k, OneVal)>> : k \in StoreKeys}
                \cup {<<BOp("del", k1, OneVal), BOp("merge", k2, OneVal)>> : k1 \in StoreKeys, k2 \in StoreKeys}
ValidBatches == {b \in Batches : \A i \in 1..Len(b) : OpValid(b[i])}

Requests ==
  LET R(op) == [Rq0 EXCEPT !.op = op]
      KeyOf(via) == IF via = "grpc" THEN KeyArgs ELSE StoreKeys
      ValOf(via) == IF via = "grpc" THEN ValArgs ELSE StoreVals
  IN UNION {
       {[R("get") EXCEPT !.via = via, !.k = k] : k \in KeyOf(via)}
       \cup {[R("put") EXCEPT !.via = via, !.k = k, !.v = v] : k \in KeyOf(via), v \in ValOf(via)}
       \cup {[R("del") EXCEPT !.via = via, !.k = k] : k \in KeyOf(via)}
       \cup {[R("batch") EXCEPT !.via = via, !.ops = b] : b \in (IF via = "grpc" THEN Batches ELSE ValidBatches)}
       \cup {[R("begin") EXCEPT !.via = via, !.ro = ro] : ro \in BOOLEAN}
       \cup {[R(op) EXCEPT !.via = via, !.h = h] : op \in {"commit", "rollback"}, h \in 0..MaxTx}
       \cup {[R("commit") EXCEPT !.via = via, !.h = h, !.fail = TRUE] : h \in 1..MaxTx}
       \cup {[R(op) EXCEPT !.via = via, !.h = h, !.k = k] : op \in {"txget", "txdel"}, h \in 0..MaxTx, k \in KeyOf(via)}
       \cup {[R("txput") EXCEPT !.via = via, !.h = h, !.k = k, !.v = v] : h \in 0..MaxTx, k \in KeyOf(via), v \in ValOf(via)}
       \cup {[R("txscan") EXCEPT !.via = via, !.h = h, !.so = so] : h \in 0..MaxTx, so \in FewScanOpts}
       \cup {[R("scan") EXCEPT !.via = via, !.so = so] : so \in FewScanOpts}
     : via \in Vias}
     \cup {[R("batch") EXCEPT !.ops = <<BOp("put", k, OneVal)>>, !.pad = p] : k \in StoreKeys, p \in {MaxBatch - 1, MaxBatch}}
     \cup {R("stats"), R("compact"), R("nodeinfo")}
     \cup (IF WithApply
           THEN {[R("apply_put") EXCEPT !.k = k, !.v = v] : k \in StoreKeys, v \in StoreVals}
                \cup {[R("apply_del") EXCEPT !.k = k] : k \in StoreKeys}
                \cup {[R(op) EXCEPT !.ops = b] : op \in {"apply_batch", "apply_entries"}, b \in (ValidBatches \ {<<>>}) \cup MergeBatches}
                \cup {[R("apply_merge") EXCEPT !.k = k, !.v = v] : k \in StoreKeys, v \in StoreVals}
                \cup {[R("setro") EXCEPT !.ro = b] : b \in BOOLEAN} \cup {R("stoprepl")}
           ELSE {})

Next == \E rq \in Requests : Do(rq)
Spec == Init /\ [][Next]_vars

\* the reply register is an observation: states are identified by the embedded state alone
StateView == <<evars, repl>>

ScanSound == ScanAll => \A so \in ScanOpts : ScanOK(db, so, ScanKeys(db, so))
\* C16: whatever the mode and whoever holds the lock, the applier gets in and reads are served
ApplyAndReadsAlwaysEnabled ==
  /\ WithApply => \A k \in StoreKeys : /\ ENABLED Do([Rq0 EXCEPT !.op = "apply_put", !.k = k, !.v = OneVal])
                                       /\ ENABLED Do([Rq0 EXCEPT !.op = "apply_del", !.k = k])
  /\ \A k \in StoreKeys, via \in Vias : ENABLED Do([Rq0 EXCEPT !.op = "get", !.via = via, !.k = k])
  /\ ENABLED Do([Rq0 EXCEPT !.op = "nodeinfo"])
RefinesEmbedded == [][EmbeddedStep(ValidBatches)]_evars
ReplOK == repl \in {"running", "stopped", "none"} /\ (repl = "none" <=> Role = "standalone")
Inv == ReplOK /\ TypeOK /\ Mutex /\ TableOK /\ ScanSound /\ ApplyAndReadsAlwaysEnabled
=============================================================================
