----------------------------- MODULE GEN_Repl -----------------------------
(* Generation of delivery schedules for the component replay of C13: the actions of KevoRepl (one replica), plus a
   history variable h that records, for every message handed to the applier, the outcome the specification predicts
   (accepted or gap, how many log entries are applied afterwards, the next expected number), every restart of the
   replica and every new stream with the position it must ask for.  Used with `tlc -simulate`; a schedule is printed
   together with the primary log it refers to when h has GenLen records or nothing more can happen.
   GStray adds what the bounded Lose/Dup/Reorder of the model stand for in the large: a whole-batch message from ANY
   position of the log arriving at any time (stale stream, overlapping senders). *)
EXTENDS KevoRepl, Json

CONSTANTS GenLen, MinLen
VARIABLES h, done
gvars == <<vars, h, done>>

TheR == CHOOSE r \in Replicas : TRUE
Go == ~done /\ Len(h) < GenLen /\ done' = done
Quiet == /\ wr = 0 /\ Len(plog) = MaxLog /\ Converged(TheR) /\ net[TheR] = <<>> /\ rstate[TheR] = "stream"
         /\ sess[TheR].conn /\ sess[TheR].lastAck = Last(plog) /\ ~initp[TheR] /\ resend[TheR] = 0

GInit == Init /\ h = <<>> /\ done = FALSE

Keep(A) == Go /\ A /\ h' = h
GApply(r) == /\ Go /\ ApplyBatch(r)
             /\ h' = Append(h, [a |-> "msg", lo |-> inmsg[r][1], hi |-> inmsg[r][2], ok |-> (rstate'[r] = "ack"),
                                n |-> Len(applied'[r]), e |-> expected'[r], len |-> Len(plog)])
\* the callback fails at entry j of an accepted message: entries lo..j-1 are handed over (x of them), nothing counts
GApplyFail(r) == /\ Go /\ ApplyFail(r)
                 /\ \E j \in inmsg[r][1]..inmsg[r][2] :
                      h' = Append(h, [a |-> "fail", lo |-> inmsg[r][1], hi |-> inmsg[r][2], ok |-> FALSE, x |-> j - inmsg[r][1],
                                      n |-> Len(applied[r]), e |-> expected[r], len |-> Len(plog)])
GAck(r) == /\ Go /\ Ack(r)
           /\ h' = Append(h, [a |-> "ack", lo |-> 0, hi |-> 0, ok |-> TRUE, n |-> Len(applied'[r]), e |-> reported'[r], len |-> Len(plog)])
GRestart(r) == /\ Go /\ RRestart(r)
               /\ h' = Append(h, [a |-> "restart", lo |-> 0, hi |-> 0, ok |-> TRUE, n |-> Len(applied[r]), e |-> expected[r], len |-> Len(plog)])
GReconnect(r) == /\ Go /\ Reconnect(r)
                 /\ h' = Append(h, [a |-> "stream", lo |-> 0, hi |-> 0, ok |-> TRUE, n |-> Len(applied[r]), e |-> sess'[r].start, len |-> Len(plog)])
\* a whole-batch message from anywhere in the log
GStray(r) == /\ Go /\ faults < MaxFaults /\ sess[r].conn /\ Room(r) /\ plog # <<>>
             /\ \E s \in 1..Last(plog) : \E m \in Msgs(s) : Send(r, m)
             /\ faults' = faults + 1
             /\ UNCHANGED <<pvars, sess, inmsg, expected, applied, reported, rstate, resend, initp, stall, downs>>
             /\ h' = h

GEmit == /\ ~done /\ (Len(h) = GenLen \/ (Len(h) >= MinLen /\ Quiet))
         /\ PrintT(<<"BEHAVIOUR", ToJson([plog |-> plog, ev |-> h])>>)
         /\ done' = TRUE /\ UNCHANGED <<vars, h>>

GNext == \/ GEmit
         \/ Keep(\E n \in 1..MaxBatch : PInvoke(n)) \/ Keep(PWriteDo)
         \/ \E r \in Replicas :
              \/ Keep(PushSend(r)) \/ Keep(PollSend(r)) \/ Keep(InitialSend(r)) \/ Keep(Resend(r))
              \/ Keep(Lose(r)) \/ Keep(Dup(r)) \/ Keep(Reorder(r)) \/ GStray(r)
              \/ Keep(Deliver(r)) \/ GApply(r) \/ GApplyFail(r) \/ GAck(r) \/ Keep(Nack(r)) \/ Keep(RNotice(r)) \/ GReconnect(r)
              \/ Keep(Disconnect(r)) \/ Keep(Overflow(r)) \/ GRestart(r)
GSpec == GInit /\ [][GNext]_gvars
=============================================================================
