SPECIFICATION TSpec
CONSTANTS
  Clients = {"c1", "c2", "c3", "c4", "c5", "c6", "c7", "c8", "c9"}
  Keys = {"k1", "k2", "k3"}
  Vals = {"v1", "v2", "v3", "v4", "v5", "v6", "v7", "v8", "v9"}
  MaxTx = 100000
  MaxWrites = 100000
  Registry = TRUE
INVARIANT Inv
CONSTRAINT HighWater
POSTCONDITION Accepted
CHECK_DEADLOCK FALSE
