---------------------------- MODULE KevoWalReader ----------------------------
(***************************************************************************)
(* Containment of log damage (C10).  A log directory is a sequence of      *)
(* files, a file a sequence of PHYSICAL records                            *)
(*     crc(4) | len(2) | type(1) | payload           (crc covers payload)  *)
(* of type FULL / FIRST / MIDDLE / LAST.  ONE damage is applied - the file *)
(* is cut inside the header / inside the payload / exactly in front of     *)
(* record r, or one byte of record r is altered in its crc, its length,    *)
(* its type (to any other code) or its payload - and the reader            *)
(* (wal.Reader.ReadEntry, ReplayWALFile, ReplayWALDir) runs over it record *)
(* by record.  Then the log is reopened for writing (re-using the newest   *)
(* file only if it reads cleanly to its end, wal.ReuseWAL), further        *)
(* entries are appended, and the directory is replayed a second time.      *)
(*                                                                         *)
(* The specification states what is REQUIRED:                              *)
(*   - every entry wholly in front of the damage is delivered,             *)
(*   - what is delivered is a subsequence of what was appended (nothing    *)
(*     invented, altered, repeated or re-ordered),                         *)
(*   - entries behind the damage MAY come back (SkipAhead) or not          *)
(*     (StopAtDamage),                                                     *)
(*   - entries appended after the recovery are delivered by the next one.  *)
(* The pure operators (Required, IsSubSeq, IsPrefix, StateAfter) are the   *)
(* oracle of the fault enumeration on the real code (TRACE_WalReader).     *)
(***************************************************************************)
EXTENDS Integers, Sequences, FiniteSets

Types == {"FULL", "FIRST", "MIDDLE", "LAST"}
CutKinds  == {"cut_hdr", "cut_pay", "cut_at"}
FlipKinds == {"flip_crc", "flip_len", "flip_type", "flip_pay"}

(* ------------------------------------------------------------------ pure part *)
\* record of entry e, part p of n, written with type t
PRec(t, e, p, n) == [t |-> t, e |-> e, p |-> p, n |-> n]

\* the records the writer produces for an entry of n parts (wal.Append / writeFragmentedRecord)
RecordsOfEntry(e, n) ==
  IF n = 1 THEN << PRec("FULL", e, 1, 1) >>
  ELSE [p \in 1..n |-> PRec(IF p = 1 THEN "FIRST" ELSE IF p = n THEN "LAST" ELSE "MIDDLE", e, p, n)]

IsSubSeq(s, t) ==      \* s can be obtained from t by deleting elements
  LET RECURSIVE M(_, _)
      M(i, j) == IF i > Len(s) THEN TRUE
                 ELSE IF j > Len(t) THEN FALSE
                 ELSE IF s[i] = t[j] THEN M(i + 1, j + 1) ELSE M(i, j + 1)
  IN M(1, 1)
IsPrefix(s, t) == Len(s) <= Len(t) /\ \A i \in 1..Len(s) : s[i] = t[i]
SeqToSet(s) == {s[i] : i \in 1..Len(s)}

\* ids of the entries held by a directory, in log order (each entry counted at its first record)
RECURSIVE IdsOfRecs(_, _)
IdsOfRecs(recs, i) == IF i > Len(recs) THEN <<>>
                      ELSE (IF recs[i].p = 1 THEN <<recs[i].e>> ELSE <<>>) \o IdsOfRecs(recs, i + 1)
RECURSIVE IdsOfDir(_, _)
IdsOfDir(dir, f) == IF f > Len(dir) THEN <<>> ELSE IdsOfRecs(dir[f], 1) \o IdsOfDir(dir, f + 1)

\* a damage descriptor: [kind, f, r, to]: file, record (1-based; cut_at r = the file ends right in front of record r),
\* `to` = the type code a flip_type leaves behind ("INVALID" = not a type code)
NoDamage == [kind |-> "none", f |-> 0, r |-> 0, to |-> ""]

\* is entry-record (file f, index i) wholly in front of the first damaged byte?
InFront(d, f, i) == d.kind = "none" \/ f < d.f \/ (f = d.f /\ i < d.r)

\* the entries that MUST be delivered: all of whose records lie in front of the damage (in log order)
RECURSIVE ReqOfRecs(_, _, _, _)
ReqOfRecs(d, f, recs, i) ==
  IF i > Len(recs) THEN <<>>
  ELSE (IF recs[i].p = 1 /\ InFront(d, f, i + recs[i].n - 1) THEN <<recs[i].e>> ELSE <<>>) \o ReqOfRecs(d, f, recs, i + 1)
RECURSIVE ReqOfDir(_, _, _)
ReqOfDir(d, dir, f) == IF f > Len(dir) THEN <<>> ELSE ReqOfRecs(d, f, dir[f], 1) \o ReqOfDir(d, dir, f + 1)
Required(dir, d) == ReqOfDir(d, dir, 1)

\* C10 for one replay: delivered (a sequence of entry ids, 0 = an entry that matches no appended one)
PrefixRecovered(dir, d, delivered) == IsPrefix(Required(dir, d), delivered)
NothingFabricated(dir, delivered)  == IsSubSeq(delivered, IdsOfDir(dir, 1))

\* what a client reads after the delivered entries have been applied in order: kv[id] = [k, v] (v = "TOMB" for a delete)
StateAfter(delivered, kv, keys) ==
  [k \in keys |-> LET idx == {i \in 1..Len(delivered) : kv[delivered[i]].k = k} IN
                  IF idx = {} THEN "NONE"
                  ELSE LET v == kv[delivered[CHOOSE i \in idx : \A j \in idx : j <= i]].v IN IF v = "TOMB" THEN "NONE" ELSE v]

(* ------------------------------------------------------------ the reader model *)
CONSTANTS MaxEntries,     \* entries in the log before the damage (MC bound)
          Parts,          \* set of fragment counts an entry may have, e.g. {1, 2, 3}
          MaxPost         \* entries appended after the first recovery

VARIABLES orig,       \* ghost: the directory as the writer left it (Seq of files, file = Seq of PRec)
          dmg,        \* ghost: the damage descriptor
          disk,       \* the directory as it is on disk: records carry `st`: "ok" | "bad" (checksum / length / type code /
                      \* payload altered: does not verify) | "cut" (the file ends inside this record); a retyped record has
                      \* st = "ok" and the altered type (the checksum does not cover the type byte)
          phase,      \* "replay1" | "reopen" | "replay2" | "end"
          rf, rp,     \* reader: current file, index of the next record
          frags,      \* reader: fragments collected so far
          deliv,      \* reader: entries delivered in this replay
          unclean,    \* reader: the NEWEST file did not read cleanly to its end (ReuseWAL's question)
          d1,         \* result of the first replay
          post        \* ids appended after the first recovery

rvars == <<orig, dmg, disk, phase, rf, rp, frags, deliv, unclean, d1, post>>

\* the bytes on disk after the damage
DRec(r, st, t) == [t |-> t, e |-> r.e, p |-> r.p, n |-> r.n, st |-> st]
Intact(recs) == [i \in 1..Len(recs) |-> DRec(recs[i], "ok", recs[i].t)]
DamagedFile(recs, d) ==
  CASE d.kind = "cut_at"  -> Intact(SubSeq(recs, 1, d.r - 1))
    [] d.kind \in {"cut_hdr", "cut_pay"} -> Append(Intact(SubSeq(recs, 1, d.r - 1)), DRec(recs[d.r], "cut", recs[d.r].t))
    [] d.kind \in {"flip_crc", "flip_pay", "flip_len"} -> [Intact(recs) EXCEPT ![d.r] = DRec(recs[d.r], "bad", recs[d.r].t)]
       \* (flip_len: a wrong amount is read - the checksum over it does not match, or the file ends first; see assumptions)
    [] d.kind = "flip_type" -> [Intact(recs) EXCEPT ![d.r] = IF d.to = "INVALID" THEN DRec(recs[d.r], "bad", recs[d.r].t)
                                                                  ELSE DRec(recs[d.r], "ok", d.to)]
OnDisk(D, d) == [f \in 1..Len(D) |-> IF d.kind # "none" /\ f = d.f THEN DamagedFile(D[f], d) ELSE Intact(D[f])]

\* the fragments collected are exactly the records of one entry: parseEntryData succeeds with that entry
Whole(parts) == /\ Len(parts) >= 1 /\ Len(parts) = parts[1].n
                /\ \A i \in 1..Len(parts) : parts[i].e = parts[1].e /\ parts[i].p = i

Reading == phase \in {"replay1", "replay2"} /\ rf <= Len(disk)
Newest  == rf = Len(disk)
NextFile == rf' = rf + 1 /\ rp' = 1 /\ frags' = <<>>
Keep == UNCHANGED <<orig, dmg, disk, phase, d1, post>>

\* end of the current file - clean, inside a record (io.ErrUnexpectedEOF), or with fragments pending: go to the next file
EndOfFile ==
  /\ Reading /\ (IF rp > Len(disk[rf]) THEN TRUE ELSE disk[rf][rp].st = "cut")
  /\ unclean' = (unclean \/ (Newest /\ (frags # <<>> \/ rp <= Len(disk[rf]))))
  /\ NextFile /\ UNCHANGED deliv /\ Keep

\* can the record at rp be used?  no: checksum mismatch / not a type code / a fragment out of place / pieces that do not parse
Unusable ==
  /\ Reading /\ rp <= Len(disk[rf])
  /\ LET r == disk[rf][rp] IN
       CASE r.st = "bad" -> TRUE
         [] r.st = "cut" -> FALSE
         [] r.st = "ok"  -> CASE r.t = "FULL"   -> ~Whole(<<r>>)
                              [] r.t = "FIRST"  -> FALSE
                              [] r.t = "MIDDLE" -> frags = <<>>
                              [] r.t = "LAST"   -> IF frags = <<>> THEN TRUE ELSE ~Whole(Append(frags, r))

\* a usable record: FULL is delivered; FIRST starts an entry (fragments left over from a broken one are dropped);
\* MIDDLE is collected; LAST completes and delivers the entry
ReadRecord ==
  /\ Reading /\ rp <= Len(disk[rf]) /\ disk[rf][rp].st = "ok" /\ ~Unusable
  /\ LET r == disk[rf][rp] IN
       CASE r.t = "FULL"   -> deliv' = Append(deliv, r.e) /\ frags' = <<>>
         [] r.t = "FIRST"  -> deliv' = deliv /\ frags' = <<r>>
         [] r.t = "MIDDLE" -> deliv' = deliv /\ frags' = Append(frags, r)
         [] r.t = "LAST"   -> deliv' = Append(deliv, r.e) /\ frags' = <<>>
  /\ rp' = rp + 1 /\ UNCHANGED <<rf, unclean>> /\ Keep

\* an unusable record: the reader gives up on this file (its rest is lost, later files are still read) ...
StopAtDamage ==
  /\ Unusable /\ unclean' = (unclean \/ Newest)
  /\ NextFile /\ UNCHANGED deliv /\ Keep
\* ... or it finds the start of a later GENUINE record and goes on from there with no fragments pending
SkipAhead ==
  /\ Unusable /\ unclean' = (unclean \/ Newest)
  /\ \E p \in (rp + 1)..Len(disk[rf]) : rp' = p
  /\ frags' = <<>> /\ UNCHANGED <<rf, deliv>> /\ Keep

AllRead ==
  /\ phase \in {"replay1", "replay2"} /\ rf > Len(disk)
  /\ IF phase = "replay1" THEN phase' = "reopen" /\ d1' = deliv ELSE phase' = "end" /\ d1' = d1
  /\ UNCHANGED <<orig, dmg, disk, rf, rp, frags, deliv, unclean, post>>

\* reopening for writing (storage.NewManager): wal.ReuseWAL appends to the newest file only if it read cleanly up to its
\* very end, otherwise a new file is started; then up to MaxPost more entries are appended (and acknowledged)
NumOrig == Len(IdsOfDir(orig, 1))
Reopen ==
  /\ phase = "reopen"
  /\ \E n \in 1..MaxPost :
       LET recs == [i \in 1..n |-> DRec(PRec("FULL", NumOrig + i, 1, 1), "ok", "FULL")] IN
         /\ post' = [i \in 1..n |-> NumOrig + i]
         /\ disk' = IF unclean THEN Append(disk, recs) ELSE [disk EXCEPT ![Len(disk)] = @ \o recs]
  /\ phase' = "replay2" /\ rf' = 1 /\ rp' = 1 /\ frags' = <<>> /\ deliv' = <<>> /\ unclean' = FALSE
  /\ UNCHANGED <<orig, dmg, d1>>

Done == phase = "end" /\ UNCHANGED rvars

RNext == EndOfFile \/ ReadRecord \/ StopAtDamage \/ SkipAhead \/ AllRead \/ Reopen \/ Done

(* ---- initial states: every entry mix, every split into an older and the newest file, every damage ---- *)
RECURSIVE MixRecords(_, _, _)
MixRecords(mix, i, j) == IF i > j THEN <<>> ELSE RecordsOfEntry(i, mix[i]) \o MixRecords(mix, i + 1, j)
Mixes == UNION {[1..n -> Parts] : n \in 1..MaxEntries}
\* entries 1..s in an older file, the rest in the newest (s = 0: a single file)
DirOf(mix, s) == IF s = 0 THEN << MixRecords(mix, 1, Len(mix)) >>
                 ELSE << MixRecords(mix, 1, s), MixRecords(mix, s + 1, Len(mix)) >>
Dmg(k, f, r, to) == [kind |-> k, f |-> f, r |-> r, to |-> to]
\* cuts hit the newest file (the tail of the log); altered bytes may sit in any file
Damages(D) ==
  {NoDamage}
  \cup {Dmg(k, Len(D), r, "") : k \in CutKinds, r \in 1..Len(D[Len(D)])}
  \cup UNION {{Dmg(k, f, r, "") : k \in {"flip_crc", "flip_len", "flip_pay"}, r \in 1..Len(D[f])} : f \in 1..Len(D)}
  \cup UNION {UNION {{Dmg("flip_type", f, r, t) : t \in (Types \cup {"INVALID"}) \ {D[f][r].t}} : r \in 1..Len(D[f])} : f \in 1..Len(D)}

RInit == /\ \E mix \in Mixes : \E s \in 0..(Len(mix) - 1) : orig = DirOf(mix, s)
         /\ dmg \in Damages(orig)
         /\ disk = OnDisk(orig, dmg)
         /\ phase = "replay1" /\ rf = 1 /\ rp = 1 /\ frags = <<>> /\ deliv = <<>> /\ unclean = FALSE
         /\ d1 = <<>> /\ post = <<>>

RSpec == RInit /\ [][RNext]_rvars

(* ---- properties ---- *)
Appended == IdsOfDir(orig, 1) \o post
\* at no moment of a replay has anything been delivered that is not a subsequence of what was appended
DeliveredIsSubSeq == IsSubSeq(deliv, Appended) /\ IsSubSeq(d1, Appended)
\* the first replay delivers everything wholly in front of the damage, as a prefix
FirstReplayRecoversPrefix == phase \in {"reopen", "replay2", "end"} => PrefixRecovered(orig, dmg, d1)
\* the second replay: still that prefix, and every entry appended after the recovery, in order, at the very end
SecondReplay == phase = "end" => /\ PrefixRecovered(orig, dmg, deliv)
                                 /\ Len(deliv) >= Len(post)
                                 /\ SubSeq(deliv, Len(deliv) - Len(post) + 1, Len(deliv)) = post
\* OpenSucceeds: the reader never gets stuck - checked by TLC's deadlock check (only "end" stutters)
\* UndamagedFilesKept: no step removes, shortens or alters a file
FilesKept == [][/\ Len(disk') >= Len(disk)
                /\ \A f \in 1..Len(disk) : Len(disk'[f]) >= Len(disk[f]) /\ SubSeq(disk'[f], 1, Len(disk[f])) = disk[f]]_rvars
=============================================================================
