SPECIFICATION Spec
CONSTANTS
  Keys = {"k1", "k2"}
  Vals = {"v1"}
  SyncMode = "none"
  MaxOps = 3
  MaxBatch = 1
  MaxImm = 1
  MaxFiles = 2
  MaxCrash = 2
  MaxLevel = 1
  DKeys = {"k1", "k2"}
  DVals = {"v1"}
  DSync = "none"
  DMaxOps = 3
  DMaxBatch = 1
INVARIANT Inv
PROPERTY LastSeqMonotone
PROPERTY RefinesDurable
CONSTRAINT StateBound
CHECK_DEADLOCK FALSE
