SPECIFICATION Spec
CONSTANTS
  OldOrder = FALSE
  SyncNotify = TRUE
  UnregUnderRead = FALSE
  HbLeak = FALSE
  ResendHoldsSession = TRUE
  RetentionHoldsRead = FALSE
INVARIANTS LocksConsistent
PROPERTIES WriteReturns AllReturn
CHECK_DEADLOCK TRUE
