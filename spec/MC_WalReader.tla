---------------------------- MODULE MC_WalReader ----------------------------
(* Exhaustive check of KevoWalReader: entry mixes x file split x every damage descriptor x reader choices
   x follow-up appends x second replay (C10). *)
EXTENDS KevoWalReader

\* sanity of the oracle operators on hand-made cases (evaluated once)
D2 == << RecordsOfEntry(1, 1) \o RecordsOfEntry(2, 3), RecordsOfEntry(3, 2) \o RecordsOfEntry(4, 1) >>
ASSUME IdsOfDir(D2, 1) = <<1, 2, 3, 4>>
ASSUME Required(D2, NoDamage) = <<1, 2, 3, 4>>
ASSUME Required(D2, [kind |-> "cut_pay", f |-> 2, r |-> 2, to |-> ""]) = <<1, 2>>         \* LAST of entry 3 cut
ASSUME Required(D2, [kind |-> "cut_at", f |-> 2, r |-> 3, to |-> ""]) = <<1, 2, 3>>      \* file ends in front of entry 4
ASSUME Required(D2, [kind |-> "flip_type", f |-> 1, r |-> 3, to |-> "FIRST"]) = <<1>>   \* MIDDLE of entry 2 retyped
ASSUME Required(D2, [kind |-> "flip_crc", f |-> 1, r |-> 1, to |-> ""]) = <<>>
ASSUME IsSubSeq(<<1, 3>>, <<1, 2, 3>>) /\ ~IsSubSeq(<<3, 1>>, <<1, 2, 3>>) /\ ~IsSubSeq(<<1, 1>>, <<1, 2, 3>>) /\ ~IsSubSeq(<<0>>, <<1, 2>>)
ASSUME IsPrefix(<<>>, <<1>>) /\ IsPrefix(<<1, 2>>, <<1, 2, 4>>) /\ ~IsPrefix(<<1, 2>>, <<1, 4, 2>>)
KV == <<[k |-> "a", v |-> "x"], [k |-> "b", v |-> "y"], [k |-> "a", v |-> "TOMB"], [k |-> "b", v |-> "z"]>>
ASSUME StateAfter(<<1, 2, 3>>, KV, {"a", "b", "c"}) = [a |-> "NONE", b |-> "y", c |-> "NONE"]
ASSUME StateAfter(<<1, 2, 4>>, KV, {"a", "b"}) = [a |-> "x", b |-> "z"]
=============================================================================
