---- MODULE MC_Store ----
EXTENDS KevoStore
CONSTANTS DKeys, DVals, DSync, DMaxOps, DMaxBatch
StateBound == Len(logs) <= 3 /\ Len(ret) <= 2

\* KevoStore implements the client-level durability contract KevoDurable (C02/C03): every step of the
\* storage engine is a step of (or invisible to) that specification under this mapping.
D == INSTANCE KevoDurable WITH dIssued <- issued, dAcked <- Acked, dUp <- up
RefinesDurable == D!DSpec
====
