---- MODULE MC_Store ----
EXTENDS KevoStore
StateBound == Len(logs) <= 3 /\ Len(ret) <= 2
====
