---------------------------- MODULE GEN_ReplSys ----------------------------
(* Generation of SYSTEM scenarios for C13/C14 from behaviours of KevoRepl (one replica): the steps a driver can
   impose on a real primary and a real replica - primary writes (w, n entries sharing one number), flush (= log
   rotation), the replica joining (its first stream), restarting, a client writing to the replica - in the order
   in which they occur in a behaviour.  Progress of the replica relative to the writes cannot be imposed on the
   real system; an acknowledgement in the behaviour becomes a short pause of the driver ("sync"), which yields
   scenarios where the replica joins before, during and after the writes and catches up in between.  Every
   scenario ends with quiescence; the expectation is Converges. *)
EXTENDS KevoRepl, Json

CONSTANTS GenLen, MinLen
VARIABLES h, done, joined
gvars == <<vars, h, done, joined>>

TheR == CHOOSE r \in Replicas : TRUE
Go == ~done /\ Len(h) < GenLen /\ done' = done
GInit == Init /\ h = <<>> /\ done = FALSE /\ joined = FALSE

Keep(A) == Go /\ A /\ h' = h /\ joined' = joined
Rec(a, n) == h' = Append(h, [a |-> a, n |-> n])
GWrite == Go /\ PWriteDo /\ Rec("w", wr) /\ joined' = joined
GRotate == Go /\ PRotate /\ Rec("flush", 0) /\ joined' = joined
GJoin(r) == /\ Go /\ Reconnect(r)
            /\ IF joined THEN h' = h ELSE Rec("join", 0)
            /\ joined' = TRUE
GRestart(r) == Go /\ joined /\ RRestart(r) /\ Rec("rrestart", 0) /\ joined' = joined
GSync(r) == Go /\ Ack(r) /\ Rec("sync", 0) /\ joined' = joined
GCwr(r) == /\ Go /\ joined /\ ClientWriteOnReplica(r) /\ Cardinality({i \in DOMAIN h : h[i].a = "cwr"}) < 2
           /\ Rec("cwr", 0) /\ joined' = joined

GEmit == /\ ~done /\ (Len(h) = GenLen \/ (Len(h) >= MinLen /\ Len(plog) = MaxLog /\ wr = 0))
         /\ PrintT(<<"BEHAVIOUR", ToJson(h)>>)
         /\ done' = TRUE /\ UNCHANGED <<vars, h, joined>>

GNext == \/ GEmit
         \/ Keep(\E n \in 1..MaxBatch : PInvoke(n)) \/ GWrite \/ GRotate
         \/ \E r \in Replicas :
              \/ Keep(PushSend(r)) \/ Keep(PollSend(r)) \/ Keep(InitialSend(r)) \/ Keep(Resend(r))
              \/ Keep(Deliver(r)) \/ Keep(ApplyBatch(r)) \/ GSync(r) \/ Keep(Nack(r)) \/ Keep(RNotice(r)) \/ GJoin(r)
              \/ GRestart(r) \/ GCwr(r)
GSpec == GInit /\ [][GNext]_gvars
=============================================================================
