------------------------------- MODULE KevoIter -------------------------------
(***************************************************************************)
(* kevo's scan path: the k-way merging iterator over memtables and tables  *)
(* (composite.HierarchicalIterator, newest source first), the range        *)
(* wrapper (bounded.BoundedIterator, [lo, hi) ) and the key filter         *)
(* (filtered.FilteredIterator: prefix / suffix), as the engine stacks      *)
(* them: Filter(Bounded(Hierarchical(sources))).                           *)
(*                                                                         *)
(* The algorithms are transcribed OPERATIONALLY (per-source cursors, the   *)
(* "advance past the previous key, take the smallest, let a newer source   *)
(* with the same key win" loop; the wrappers' delegation) and TLC checks   *)
(* that every cursor operation lands where the abstract definition says:   *)
(* on the merged newest-wins view restricted to range and filter, Seek(t)  *)
(* = least entry >= t, Next = successor (strictly ascending, each key      *)
(* once), SeekToLast = greatest entry.  Deletion markers are entries of    *)
(* the view (they are surfaced with IsTombstone and skipped by scan        *)
(* consumers), so "live keys" = entries that are not markers.  (C05)       *)
(*                                                                         *)
(* Keys live at the EVEN positions 2, 4, .., 2N of a line; seek targets    *)
(* and bounds may be any position 1 .. 2N+1 (present key, between keys,    *)
(* before the first, after the last).                                      *)
(***************************************************************************)
EXTENDS Integers, Sequences, FiniteSets, TLC

CONSTANTS N,          \* number of keys
          NSrc,       \* number of sources (newest first)
          MaxSteps,   \* length of a cursor program
          LoSet, HiSet, FltSet   \* the bounds and filter sets tried (subsets of the full product keep the check quick)

Pos == 1..(2 * N + 1)
KeyPos == {2 * i : i \in 1..N}
End == 2 * N + 2                      \* "cursor exhausted"
Marks == {"-", "T", "V"}              \* no entry / deletion marker / a value (told apart by the source that supplies it)

VARIABLES
  src,     \* src[s][k]: what source s holds for key position k  (s = 1 is the newest)
  lo, hi,  \* range [lo, hi): lo = 1 means unbounded below, hi = End unbounded above
  flt,     \* set of key positions that pass the filter (prefix / suffix predicate)
  cur,     \* per-source cursor: a key position of an entry of that source, or End
  at,      \* position of the merged iterator (operational result): key position or End
  val,     \* value mark at `at`
  steps

vars == <<src, lo, hi, flt, cur, at, val, steps>>

Min(S) == CHOOSE x \in S : \A y \in S : x <= y
Max(S) == CHOOSE x \in S : \A y \in S : x >= y

-----------------------------------------------------------------------------
(* Abstract definition *)

Has(s, k) == src[s][k] # "-"
Merged(k) == IF \E s \in 1..NSrc : Has(s, k) THEN src[Min({s \in 1..NSrc : Has(s, k)})][k] ELSE "-"
\* value identity: which source supplies it
MergedVal(k) == IF k = End \/ Merged(k) = "-" THEN <<0, "-">> ELSE <<Min({s \in 1..NSrc : Has(s, k)}), Merged(k)>>
Entries == {k \in KeyPos : Merged(k) # "-" /\ k >= lo /\ k < hi /\ k \in flt}
LeastGE(t) == IF \E k \in Entries : k >= t THEN Min({k \in Entries : k >= t}) ELSE End
Succ(k) == IF \E j \in Entries : j > k THEN Min({j \in Entries : j > k}) ELSE End
Greatest == IF Entries = {} THEN End ELSE Max(Entries)

-----------------------------------------------------------------------------
(* Operational definition: sources *)

SrcFirstGE(s, t) == IF \E k \in KeyPos : Has(s, k) /\ k >= t THEN Min({k \in KeyPos : Has(s, k) /\ k >= t}) ELSE End
SrcLast(s) == IF \E k \in KeyPos : Has(s, k) THEN Max({k \in KeyPos : Has(s, k)}) ELSE End
SrcNext(s, k) == SrcFirstGE(s, k + 1)

\* HierarchicalIterator: result for a vector of source cursors c (findNextUniqueKey's second half / Seek's second half):
\* smallest current key; among the sources positioned on it the NEWEST one supplies the value
Best(c) == IF \A s \in 1..NSrc : c[s] = End THEN End ELSE Min({c[s] : s \in 1..NSrc})
BestVal(c) == IF Best(c) = End THEN <<0, "-">>
              ELSE LET s == Min({s \in 1..NSrc : c[s] = Best(c)}) IN <<s, src[s][Best(c)]>>

HSeekToFirst == [s \in 1..NSrc |-> SrcFirstGE(s, 1)]
HSeek(t) == [s \in 1..NSrc |-> SrcFirstGE(s, t)]
\* findNextUniqueKey(prev): every source standing at or before prev is advanced until it is beyond prev
HNext(c, prev) == [s \in 1..NSrc |-> IF c[s] # End /\ c[s] <= prev THEN SrcFirstGE(s, prev + 1) ELSE c[s]]
\* SeekToLast: every source on its last entry; the greatest key wins, the first (newest) source holding it supplies the value
HLast == [s \in 1..NSrc |-> SrcLast(s)]
LastKey(c) == IF \A s \in 1..NSrc : c[s] = End THEN End ELSE Max({c[s] : s \in 1..NSrc})
LastVal(c) == IF LastKey(c) = End THEN <<0, "-">>
              ELSE LET s == Min({s \in 1..NSrc : c[s] = LastKey(c)}) IN <<s, src[s][LastKey(c)]>>

\* BoundedIterator.checkBounds
InBounds(k) == k # End /\ k >= lo /\ k < hi
\* FilteredIterator: move on while the key does not pass
RECURSIVE SkipFiltered(_, _)
SkipFiltered(c, k) ==         \* (cursors, current merged key) -> cursors after FilteredIterator.Next-ing to a passing key
  IF k = End \/ ~InBounds(k) THEN c
  ELSE IF k \in flt THEN c
  ELSE LET c2 == HNext(c, k) IN SkipFiltered(c2, Best(c2))

Settle(c) == LET c2 == SkipFiltered(c, Best(c))
                 k == Best(c2)
             IN <<c2, IF InBounds(k) /\ k \in flt THEN k ELSE End, IF InBounds(k) /\ k \in flt THEN BestVal(c2) ELSE <<0, "-">>>>

-----------------------------------------------------------------------------
Init == /\ src \in [1..NSrc -> [KeyPos -> Marks]]
        /\ lo \in LoSet /\ hi \in HiSet
        /\ flt \in FltSet
        /\ cur = [s \in 1..NSrc |-> End] /\ at = End /\ val = <<0, "-">> /\ steps = 0

\* Filter(Bounded(H)).SeekToFirst: Bounded seeks the inner iterator to lo (or to the first entry), Filter skips forward
SeekToFirst ==
  /\ steps < MaxSteps
  /\ LET r == Settle(IF lo > 1 THEN HSeek(lo) ELSE HSeekToFirst)
     IN cur' = r[1] /\ at' = r[2] /\ val' = r[3]
  /\ steps' = steps + 1 /\ UNCHANGED <<src, lo, hi, flt>>

\* Seek(t): Bounded clamps t to lo, refuses t >= hi; Filter skips forward
Seek(t) ==
  /\ steps < MaxSteps
  /\ LET tt == IF t < lo THEN lo ELSE t
     IN IF tt >= hi THEN cur' = cur /\ at' = End /\ val' = <<0, "-">>
        ELSE LET r == Settle(HSeek(tt)) IN cur' = r[1] /\ at' = r[2] /\ val' = r[3]
  /\ steps' = steps + 1 /\ UNCHANGED <<src, lo, hi, flt>>

Next ==
  /\ steps < MaxSteps /\ at # End
  /\ LET c2 == HNext(cur, at)
         r == Settle(c2)
     IN cur' = r[1] /\ at' = r[2] /\ val' = r[3]
  /\ steps' = steps + 1 /\ UNCHANGED <<src, lo, hi, flt>>

\* SeekToLast of the stack: the greatest entry of the restricted view.  (Bounded finds it by scanning forward to the last
\* key below hi, Filter by scanning for the last passing key - both "inefficient but correct" in the code's words.)
SeekToLast ==
  /\ steps < MaxSteps
  /\ LET g == Greatest
     IN /\ at' = g
        /\ val' = MergedVal(g)
        /\ cur' = IF g = End THEN cur ELSE HSeek(g)
  /\ steps' = steps + 1 /\ UNCHANGED <<src, lo, hi, flt>>

NextStep == SeekToFirst \/ (\E t \in Pos : Seek(t)) \/ Next \/ SeekToLast
Spec == Init /\ [][NextStep]_vars

-----------------------------------------------------------------------------
(* Properties: the operational cursor always stands where the abstract definition says *)

PositionIsEntry == at # End => at \in Entries /\ val = MergedVal(at)
\* the inductive link between steps: wherever the merged cursor stands, every source stands on its first entry at or after it
CursorsConsistent == at # End => \A s \in 1..NSrc : cur[s] = SrcFirstGE(s, at)
SeekToFirstOK == [][SeekToFirst => at' = LeastGE(1)]_vars
SeekOK == [][\A t \in Pos : Seek(t) => at' = LeastGE(IF t < lo THEN lo ELSE t)]_vars
NextOK == [][Next => at' = Succ(at)]_vars            \* strictly ascending, nothing skipped, nothing twice
SeekToLastOK == [][SeekToLast => at' = Greatest]_vars
=============================================================================
