SPECIFICATION Spec
CONSTANTS
  MaxBlocks = 3
  MaxLen = 3
  RIs = {1, 2}
  Seeds = {1}
  Covered = {"data", "restart", "index", "footer"}
  Cors = {"data", "restart", "sum", "indexkey", "indexoff", "footer", "bloomkey", "bloomoff", "bloomdrop", "bloomfail"}
INVARIANT Inv
CHECK_DEADLOCK FALSE
