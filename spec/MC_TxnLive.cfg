SPECIFICATION LiveSpec
CONSTANTS
  Clients = {"c1", "c2", "c3"}
  Keys = {"k1"}
  Vals = {"v1"}
  MaxTx = 4
  MaxWrites = 1
  Registry = TRUE
INVARIANT Inv
PROPERTY EveryTxEnds
PROPERTY UnlockByHolder
CHECK_DEADLOCK FALSE
