----------------------------- MODULE TRACE_Scan -----------------------------
(* C05, running-scan clause: a scan that runs while other clients write stays strictly ascending and duplicate-free and
   contains every key that existed before it started and is not written during it.  The harness records one scan of the
   real engine stepped between foreign writes, flushes and compactions; keys are numbered by position, `stable` keys are
   never touched after the scan has started.  Events: reset(n, stable), wrote(pos), flush, compact, seek(pos), yield(pos, ok), end. *)
EXTENDS Integers, Sequences, FiniteSets, Json, TLC

VARIABLES l, last, seen, stable, nkeys
Trace == ndJsonDeserialize("trace.ndjson")
vars == <<l, last, seen, stable, nkeys>>
Ev(e) == l <= Len(Trace) /\ Trace[l].e = e /\ l' = l + 1

Init == TLCSet(1, 0) /\ l = 1 /\ last = 0 /\ seen = {} /\ stable = {} /\ nkeys = 0

Reset == /\ Ev("reset") /\ last' = 0 /\ seen' = {}
         /\ nkeys' = Trace[l].n
         /\ stable' = {p \in 1..Trace[l].n : Trace[l].stable[p]}
\* foreign writers touch only keys outside the stable set (that is the scenario's contract, checked here)
Wrote == Ev("wrote") /\ Trace[l].pos \notin stable /\ UNCHANGED <<last, seen, stable, nkeys>>
Maint == (Ev("flush") \/ Ev("compact")) /\ UNCHANGED <<last, seen, stable, nkeys>>
\* the scan yields a key: strictly after the previous one; a stable key carries its original value
Yield == /\ Ev("yield")
         /\ Trace[l].pos > last /\ Trace[l].pos \in 1..nkeys
         /\ Trace[l].pos \in stable => Trace[l].ok
         /\ last' = Trace[l].pos
         /\ seen' = IF Trace[l].pos \in stable THEN seen \cup {Trace[l].pos} ELSE seen
         /\ UNCHANGED <<stable, nkeys>>
\* the scan is repositioned by Seek(key(t)), t beyond everything yielded so far: it continues on the smallest key >= t; the stable
\* keys below t are skipped on purpose
SeekTo == /\ Ev("seek")
          /\ Trace[l].pos >= last
          /\ last' = Trace[l].pos - 1
          /\ seen' = seen \cup {p \in stable : p < Trace[l].pos}
          /\ UNCHANGED <<stable, nkeys>>
\* the scan is exhausted: every stable key has been seen
EndScan == Ev("end") /\ seen = stable /\ UNCHANGED <<last, seen, stable, nkeys>>

Next == Reset \/ Wrote \/ Maint \/ Yield \/ SeekTo \/ EndScan
Spec == Init /\ [][Next]_vars
HighWater == IF l > TLCGet(1) THEN TLCSet(1, l) ELSE TRUE
Accepted == PrintT(<<"HIGHWATER", TLCGet(1)>>) /\ TLCGet(1) = Len(Trace) + 1
=============================================================================
