------------------------------- MODULE MC_Wal -------------------------------
(* Exhaustive check of KevoWal for small bounds (C09). *)
EXTENDS KevoWal

AllShapeNames == DOMAIN ShapeDef
\* the empty batch, a batch below the 64 KB buffer, one beyond it (3 x 32 KB records), one with fragmented members
MCBatches == { <<>>, <<"small", "del0">>, <<"fit", "fit", "small">>, <<"put11", "four", "delbig">> }
MCBatchesSmall == { <<>>, <<"small", "del0">>, <<"three", "delbig">> }

\* every shape of the table obeys the record format (evaluated once, independent of the bounds)
ASSUME \A nm \in DOMAIN ShapeDef : WellFormed(S(nm))
\* the shape names say what they are: check the boundary claims made in the comments of ShapeDef
ASSUME /\ Payload(S("del0")) = 13 /\ NumRecords(S("del0")) = 1
       /\ Payload(S("fit")) = MaxRec /\ NumRecords(S("fit")) = 1
       /\ Payload(S("frag1")) = MaxRec + 1 /\ NumRecords(S("frag1")) = 2
       /\ NumRecords(S("lastfull")) = 2 /\ Records(1, S("lastfull"))[2].len = MaxRec
       /\ NumRecords(S("three")) = 3 /\ Records(1, S("three"))[3].len = 1
       /\ NumRecords(S("four")) = 4
       /\ NumRecords(S("midfull")) = 3 /\ Records(1, S("midfull"))[3].len = MaxRec
       /\ NumRecords(S("keyfit")) = 2 /\ Records(1, S("keyfit"))[1].len = MaxRec /\ Records(1, S("keyfit"))[2].len = 4
       /\ NumRecords(S("bigkey")) = 2 /\ Records(1, S("bigkey"))[1].len = MaxRec
       /\ Payload(S("delfit")) = MaxRec /\ NumRecords(S("delfit")) = 1
       /\ NumRecords(S("delbig")) = 2 /\ Records(1, S("delbig"))[2].len = 1
       /\ NumRecords(S("delhuge")) = 3
       /\ Bytes(Records(1, S("fit")) \o Records(2, S("fit")) \o Records(3, S("small"))) > BufSize
       /\ Bytes(Records(1, S("small")) \o Records(2, S("del0"))) < BufSize
\* every payload length around one and two full records (the ranges of the boundary sweep, GEN_Wal_sweep.cfg), as a put
\* whose value carries the length and as a delete whose key carries it, obeys the record format
ASSUME \A L \in (32700..32800) \cup (65480..65560) :
          /\ WellFormed([n |-> "sweep", op |-> "put", k |-> 8, v |-> L - EntryHdr - 8 - 4])
          /\ WellFormed([n |-> "sweep", op |-> "del", k |-> L - EntryHdr, v |-> 0])
          /\ Payload([n |-> "sweep", op |-> "put", k |-> 8, v |-> L - EntryHdr - 8 - 4]) = L
          /\ Payload([n |-> "sweep", op |-> "del", k |-> L - EntryHdr, v |-> 0]) = L
=============================================================================
