----------------------------- MODULE GEN_Store -----------------------------
(* Behaviour generation for the conformance replay (C01, C08, C12): the same actions as KevoStore,
   scheduled the way ONE sequential client sees them - each API call runs to completion, internal
   table switches may happen after any write - plus a history variable h that records every call with
   the observation the specification predicts after it (the whole abstract map and the last sequence
   number).  Used with `tlc -simulate`; a behaviour is printed when h reaches GenLen entries. *)
EXTENDS KevoStore, Json, Randomization

CONSTANTS GenLen,       \* number of recorded calls per behaviour
          AllowRetire   \* TRUE: log files may be retired between close and open (C12); FALSE for C08
VARIABLES h, done
gvars == <<vars, h, done>>

StateOf(m) == [k \in Keys |-> Norm(m[k])]
Rec(a, op) == [a |-> a, op |-> op, st |-> StateOf(Abs'), seq |-> lastSeq']

Go == Len(h) < GenLen /\ done' = done
NoOp == <<>>

GInit == Init /\ h = <<>> /\ done = FALSE

\* one random operation per step keeps writes from swamping the other calls in simulation mode
\* NB: TLC folds constant-level expressions once at start-up, RandomElement(1..6) included: R(n) mentions a
\* variable so that it is drawn afresh at every evaluation.
R(n) == RandomElement(1..(n + Len(h) - Len(h)))
\* NB: a LET-bound RandomElement is re-evaluated at every use; bind random choices with \E over a singleton
SizeOf(r) == IF r <= 3 THEN 1 ELSE IF r <= 5 /\ MaxBatch >= 2 THEN 2 ELSE MaxBatch
RandOpSet == {RandomElement([1..SizeOf(r) -> Entry]) : r \in {R(6)}}
GWrite == /\ Go /\ fpc = "idle" /\ wpc = "idle"
          /\ \E op \in RandOpSet : WLog(op)
          /\ h' = h
GDone  == Go /\ WDone /\ h' = Append(h, Rec(IF Len(Last(issued)) > 1 THEN "commit"
                                           ELSE IF Last(issued)[1].v = Tomb THEN "delete" ELSE "put", Last(issued)))
\* a transaction that is rolled back: no effect at all
GRollback == /\ R(4) = 1 /\ Go /\ up /\ wpc = "idle" /\ fpc = "idle"
             /\ UNCHANGED vars
             /\ \E op \in RandOpSet : h' = Append(h, Rec("rollback", op))
\* a read-write transaction that wrote nothing commits: an empty batch - no log record, no number, nothing reported changes
GEmptyCommit == /\ R(6) = 1 /\ Go /\ EmptyCommit /\ h' = Append(h, Rec("commitempty", NoOp))
GSwitch == Go /\ Switch /\ h' = h
GSpill  == Go /\ Spill /\ h' = h
GFlush  == /\ Go /\ wpc = "idle"
           /\ \/ FBegin /\ h' = h
              \/ FOldSafe /\ h' = h
              \/ FSwap /\ h' = h
              \/ FWrite /\ h' = h
              \/ FPublish /\ h' = h
              \/ FEnd /\ h' = Append(h, Rec("flush", NoOp))
\* which call the harness makes at a compaction step: the strategy-driven cycle, a range compaction over all keys, or a
\* range compaction over a sub-range [lo, hi] of the keys (bounds carried in op as [k |-> lo, v |-> hi])
CompactCall == {IF r = 1 THEN <<"compact", NoOp>>
                ELSE IF r = 2 THEN <<"compactrange", NoOp>>
                ELSE <<"compactsub", <<[k |-> KeySeq[lo], v |-> KeySeq[hi]]>> >> :
                   r \in {R(3)}, lo \in {R(Len(KeySeq))}, hi \in {R(Len(KeySeq))}}
GCompact == /\ Go /\ wpc = "idle" /\ fpc = "idle" /\ Compact
            /\ \E c \in CompactCall : h' = Append(h, Rec(c[1], c[2]))
\* the strategy may also find nothing to do
GCompactNop == /\ R(4) = 1 /\ Go /\ up /\ wpc = "idle" /\ fpc = "idle" /\ UNCHANGED vars
               /\ \E c \in CompactCall : h' = Append(h, Rec(c[1], c[2]))
GClose  == R(3) = 1 /\ Go /\ Close /\ h' = h
GRetire == AllowRetire /\ Go /\ Retire /\ h' = Append(h, [a |-> "retire", op |-> NoOp, st |-> StateOf(Abs), seq |-> lastSeq])
GReopen == Go /\ Recover /\ h' = Append(h, Rec("reopen", NoOp))

\* evaluated once per generated behaviour: print it
GEmit == /\ Len(h) = GenLen /\ ~done /\ PrintT(<<"BEHAVIOUR", ToJson(h)>>)
         /\ done' = TRUE /\ UNCHANGED <<vars, h>>

GNext == GEmit \/ GWrite \/ GDone \/ GRollback \/ GEmptyCommit \/ GSwitch \/ GSpill \/ GFlush \/ GCompact \/ GCompactNop
         \/ GClose \/ GRetire \/ GReopen
GSpec == GInit /\ [][GNext]_gvars

=============================================================================
