----------------------------- MODULE GEN_Config -----------------------------
(* Behaviour generation for the conformance replay of C20: the actions of KevoConfig plus a history variable h that
   records every completed call with the observation the specification predicts for it (out) and a summary of the
   state behind it.  The first record carries the candidate configuration (a record of boundary classes) and the
   policy for a +Inf ratio the behaviour was generated under.

   Mode "fields"  (exhaustive, run in model-checking mode): one behaviour per candidate configuration -
                  validate, save, load; an invalid candidate is then written into the MANIFEST behind Validate's back
                  (tamper) and must make load and open fail.
   Mode "damage"  (exhaustive): for every base configuration and every class of damage - create the database with the
                  configuration, write data, close, damage the MANIFEST, load, open.  The harness expands a truncation
                  class into EVERY truncation length that belongs to it.
   Mode "life"    (tlc -simulate): random walks through the whole life-cycle. *)
EXTENDS KevoConfig, Json, Randomization, SequencesExt

CONSTANTS Mode, GenLen
VARIABLES h, dmg, done
gvars == <<vars, h, dmg, done>>

\* the default class record, for the reports of the check
ASSUME PrintT(<<"DEFAULT", ToJson(Default)>>)

DamageC == TornC \cup {"complete"} \cup GarbC

St == [disk |-> disk'.k, cls |-> disk'.cls, by |-> disk'.by, data |-> data', up |-> eng'.up]
Rec(a) == [a |-> a, exp |-> out', st |-> St]
RecCls(a, cls) == [a |-> a, cls |-> cls, exp |-> out', st |-> St]
RecCfg(a, c) == [a |-> a, cfg |-> c, exp |-> out', st |-> St]

\* (a random walk starts from the default candidate and draws others on the way: few initial states)
GInit == /\ Init /\ done = FALSE
         /\ Mode = "life" => cand = Default
         /\ dmg \in (IF Mode = "damage" THEN DamageC ELSE {"-"})
         /\ h = <<[a |-> "init", cfg |-> cand, pol |-> pol]>>

\* ------------------------------------------------------------------------------------------- scripted modes
Script(c) ==
  CASE Mode = "fields" -> IF ~Valid(c) /\ Representable(c)
                            THEN <<"validate", "save", "load", "tamper", "load", "open">>
                            ELSE <<"validate", "save", "load">>
    [] Mode = "damage" -> <<"save", "open", "put", "reopen", "close", "damage", "load", "open">>
    [] OTHER -> <<>>
Want == IF Len(h) <= Len(Script(cand)) THEN Script(cand)[Len(h)] ELSE "end"

SNext ==
  \/ Want = "validate" /\ Validate /\ h' = Append(h, Rec("validate"))
  \/ Want = "save" /\ (SaveBegin \/ SaveTmp \/ SaveRename) /\ h' = IF pc' = "idle" THEN Append(h, Rec("save")) ELSE h
  \/ Want = "load" /\ Load /\ h' = Append(h, Rec("load"))
  \/ Want = "tamper" /\ Tamper(cand) /\ h' = Append(h, RecCfg("tamper", cand))
  \/ Want = "open" /\ Open /\ h' = Append(h, Rec("open"))
  \/ Want = "reopen" /\ Reopen /\ h' = Append(h, Rec("reopen"))
  \/ Want = "put" /\ Put /\ h' = Append(h, Rec("put"))
  \/ Want = "close" /\ Close /\ h' = Append(h, Rec("close"))
  \/ Want = "damage" /\ dmg \in TornC \cup {"complete"} /\ Truncate(dmg) /\ h' = Append(h, RecCls("truncate", dmg))
  \/ Want = "damage" /\ dmg \in GarbC /\ Corrupt(dmg) /\ h' = Append(h, RecCls("garbage", dmg))

\* ------------------------------------------------------------------------------------------- random walks
\* NB: TLC folds constant-level expressions once at start-up (RandomElement included): every random draw mentions h.
R(n) == RandomElement(1..(n + Len(h) - Len(h)))
\* drawing from a big constant set through an index is much cheaper than RandomElement on the set
Pick(S) == RandomElement(IF Len(h) >= 0 THEN S ELSE {})
AllSeq == SetToSeq(Cands)
ValidSeq == SetToSeq({c \in Cands : Constraints(c, FALSE)})
BadSeq == SetToSeq({c \in Cands : ~Constraints(c, TRUE) /\ Representable(c)})
PickSeq(q) == q[R(Len(q))]
Go == Len(h) < GenLen

LNext ==
  /\ Go
  /\ \/ /\ pc = "idle" /\ R(2) = 1
        /\ \E c \in {IF R(3) = 1 THEN PickSeq(AllSeq) ELSE PickSeq(ValidSeq)} :
              Choose(c) /\ h' = Append(h, RecCfg("choose", c))
     \/ Validate /\ h' = Append(h, Rec("validate"))
     \/ (SaveBegin \/ SaveTmp \/ SaveRename) /\ h' = IF pc' = "idle" THEN Append(h, Rec("save")) ELSE h
     \/ Load /\ h' = Append(h, Rec("load"))
     \/ Open /\ h' = Append(h, Rec("open"))
     \/ Reopen /\ h' = Append(h, Rec("reopen"))
     \/ Put /\ h' = Append(h, Rec("put"))
     \/ Close /\ h' = Append(h, Rec("close"))
     \/ \E cls \in {Pick(TornC \cup {"complete"})} : Truncate(cls) /\ h' = Append(h, RecCls("truncate", cls))
     \/ R(2) = 1 /\ \E cls \in {Pick(GarbC)} : Corrupt(cls) /\ h' = Append(h, RecCls("garbage", cls))
     \/ R(2) = 1 /\ \E c \in {IF R(4) = 1 THEN PickSeq(ValidSeq) ELSE PickSeq(BadSeq)} :
                       Tamper(c) /\ h' = Append(h, RecCfg("tamper", c))

\* evaluated once per finished behaviour: print it
Finished == IF Mode = "life" THEN Len(h) = GenLen ELSE Want = "end"
GEmit == /\ Finished /\ ~done /\ pc = "idle" /\ PrintT(<<"BEHAVIOUR", ToJson(h)>>)
         /\ done' = TRUE /\ UNCHANGED <<vars, h, dmg>>

GNext == \/ GEmit
         \/ ~done /\ Mode = "life" /\ LNext /\ UNCHANGED <<dmg, done>>
         \/ ~done /\ Mode # "life" /\ SNext /\ UNCHANGED <<dmg, done>>
GSpec == GInit /\ [][GNext]_gvars
=============================================================================
