----------------------------- MODULE KevoDurable -----------------------------
(***************************************************************************)
(* The durability contract of kevo as its clients see it (C02, C03 crash   *)
(* form, C08 across recovery): a history of write operations, some of them *)
(* acknowledged; a stop of the process keeps a PREFIX of the issue order   *)
(* that, with synchronous logging, contains every acknowledged operation;  *)
(* operations (batches included) survive whole or not at all; a clean      *)
(* close keeps everything.  KevoStore implements this specification under  *)
(* the mapping dIssued <- issued, dAcked <- Acked, dUp <- up (checked by   *)
(* TLC as a refinement in MC_Store).                                       *)
(***************************************************************************)
EXTENDS Integers, Sequences, FiniteSets

CONSTANTS DKeys, DVals, DSync, DMaxOps, DMaxBatch
DTomb == "TOMB"

VARIABLES dIssued,   \* operations in issue order (an operation is a sequence of [k, v])
          dAcked,    \* how many of them have been acknowledged (always a prefix: one client)
          dUp        \* engine open

dvars == <<dIssued, dAcked, dUp>>

DEntry == [k : DKeys, v : DVals \cup {DTomb}]
DOps == UNION {[1..n -> DEntry] : n \in 1..DMaxBatch}

DInit == dIssued = <<>> /\ dAcked = 0 /\ dUp = TRUE

DIssue(op) == /\ dUp /\ dAcked = Len(dIssued) /\ Len(dIssued) < DMaxOps
              /\ dIssued' = Append(dIssued, op) /\ UNCHANGED <<dAcked, dUp>>
DAck == /\ dUp /\ dAcked < Len(dIssued)
        /\ dAcked' = dAcked + 1 /\ UNCHANGED <<dIssued, dUp>>
\* a write that reports an error took no effect (it is withdrawn)
DFail == /\ dUp /\ dAcked < Len(dIssued)
         /\ dIssued' = SubSeq(dIssued, 1, dAcked) /\ UNCHANGED <<dAcked, dUp>>
\* the process stops at an arbitrary instant: a prefix survives; with synchronous logging it holds every acknowledged write
DDie == /\ dUp
        /\ \E n \in (IF DSync = "imm" THEN dAcked ELSE 0)..Len(dIssued) :
              /\ dIssued' = SubSeq(dIssued, 1, n)
              /\ dAcked' = n
        /\ dUp' = FALSE
\* clean close: nothing in flight, everything acknowledged survives
DClose == /\ dUp /\ dAcked = Len(dIssued)
          /\ dUp' = FALSE /\ UNCHANGED <<dIssued, dAcked>>
DOpen == ~dUp /\ dUp' = TRUE /\ UNCHANGED <<dIssued, dAcked>>

DNext == (\E op \in DOps : DIssue(op)) \/ DAck \/ DFail \/ DDie \/ DClose \/ DOpen
DSpec == DInit /\ [][DNext]_dvars

\* what a reader must see: the state after the surviving operations, in order, each applied as a whole
DApply(m, op) == [k \in DKeys |->
                    LET idx == {i \in 1..Len(op) : op[i].k = k}
                    IN IF idx = {} THEN m[k] ELSE op[CHOOSE i \in idx : \A j \in idx : j <= i].v]
RECURSIVE DStateAfter(_)
DStateAfter(n) == IF n = 0 THEN [k \in DKeys |-> DTomb] ELSE DApply(DStateAfter(n - 1), dIssued[n])
DNorm(v) == IF v = DTomb THEN "NONE" ELSE v
DView == [k \in DKeys |-> DNorm(DStateAfter(dAcked)[k])]
=============================================================================
