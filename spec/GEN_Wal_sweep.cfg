SPECIFICATION GSpec
CONSTANTS
  ShapeNames = {"small"}
  Batches = {}
  MaxEntries = 1000
  MaxFiles = 20
  GenLen = 0
  Sweep = TRUE
  SweepRanges <- BoundaryRanges
CHECK_DEADLOCK FALSE
