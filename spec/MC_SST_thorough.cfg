SPECIFICATION Spec
CONSTANTS
  MaxBlocks = 4
  MaxLen = 6
  RIs = {1, 2, 3, 4}
  Seeds = {1}
  Covered = {"data", "restart", "index", "footer"}
  Cors = {}
INVARIANT Inv
CHECK_DEADLOCK FALSE
