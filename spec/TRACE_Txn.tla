------------------------------ MODULE TRACE_Txn ------------------------------
(* Validation of transaction histories recorded from the real engine (C03 reader form, C04, C17).
   Events are logged by the harness: client-side calls/returns with their results, and - from inside the hook
   sites tx.begin.granted / sm.batch.locked / tx.commit.applied / tx.unlocking, i.e. at the linearisation points,
   in the goroutine that passes them - granted / astart / applied / unlocking with the client's identity.
   Every event has to be a step of KevoTxn (with results equal to what KevoTxn predicts); whether an ApplyBatch
   succeeded is not logged at `applied` - TLC chooses, and `cret` later has to agree. *)
EXTENDS KevoTxn, Json

VARIABLES l, intent          \* trace position; per client what it announced: "commit" | "rollback" | "none"
Trace == ndJsonDeserialize("trace.ndjson")
tvars == <<vars, l, intent>>

Ev(e) == l <= Len(Trace) /\ Trace[l].e = e /\ l' = l + 1
C == Trace[l].c
Norm(v) == IF v = Tomb THEN "NONE" ELSE v
NoIntent == [c \in Clients |-> "none"]

TInit == TLCSet(1, 0) /\ Init /\ l = 1 /\ intent = NoIntent

TReset == /\ Ev("reset")
          /\ db' = [k \in Keys |-> Tomb] /\ readers' = {} /\ writer' = NoOne /\ pendW' = {}
          /\ st' = [c \in Clients |-> "idle"] /\ buf' = [c \in Clients |-> EmptyBuf] /\ nw' = [c \in Clients |-> 0]
          /\ snap' = [c \in Clients |-> [k \in Keys |-> Tomb]] /\ cok' = [c \in Clients |-> TRUE]
          /\ gaveup' = {} /\ abandoned' = {} /\ ntx' = 0 /\ intent' = NoIntent

TBReq == Ev("breq") /\ BeginReq(C, Trace[l].mode) /\ UNCHANGED intent
\* the pending-writer rule is not demanded here: "breq" is logged before the Lock() call is actually made
TGranted == /\ Ev("granted")
            /\ \/ GrantW(C)
               \/ /\ st[C] = "waitR" /\ writer = NoOne
                  /\ readers' = readers \cup {C} /\ st' = [st EXCEPT ![C] = "ro"] /\ snap' = [snap EXCEPT ![C] = db]
                  /\ UNCHANGED <<db, writer, pendW, buf, nw, cok, gaveup, abandoned, ntx>>
            /\ UNCHANGED intent
\* grants and releases that happen in goroutines the harness cannot attribute (the registry's begin goroutine, its cleanup
\* paths) are logged with c = "?": TLC has to find a client for which the step is possible
TGrantedAny == /\ Ev("granted?")
               /\ \E c \in Clients :
                    \/ GrantW(c)
                    \/ /\ st[c] = "waitR" /\ writer = NoOne
                       /\ readers' = readers \cup {c} /\ st' = [st EXCEPT ![c] = "ro"] /\ snap' = [snap EXCEPT ![c] = db]
                       /\ UNCHANGED <<db, writer, pendW, buf, nw, cok, gaveup, abandoned, ntx>>
               /\ UNCHANGED intent
\* the registry rolls back a transaction nobody will finish: the late grant of a timed-out begin, an abandoned transaction
TReapAny == /\ Ev("unlocking?")
            /\ \E c \in Clients :
                 /\ (c \in gaveup \/ c \in abandoned) /\ st[c] \in {"ro", "rw"} /\ Holding(c)
                 /\ readers' = readers \ {c} /\ writer' = IF writer = c THEN NoOne ELSE writer
                 /\ st' = [st EXCEPT ![c] = "idle"] /\ buf' = [buf EXCEPT ![c] = EmptyBuf]
                 /\ gaveup' = gaveup \ {c} /\ abandoned' = abandoned \ {c}
            /\ UNCHANGED <<db, pendW, nw, snap, cok, ntx, intent>>
TAbandon == Ev("abandon") /\ Abandon(C) /\ UNCHANGED intent
TBTimeout == Ev("btimeout") /\ BeginTimeout(C) /\ UNCHANGED intent
TWrite == Ev("write") /\ TxWrite(C, Trace[l].k, Trace[l].v) /\ UNCHANGED intent
\* C04: a read inside a transaction returns the storage state it began with plus its own writes
TGet == /\ Ev("get") /\ st[C] \in {"ro", "rw"}
        /\ Trace[l].res = Norm(View(C)[Trace[l].k])
        /\ UNCHANGED <<vars, intent>>
TScan == /\ Ev("scan") /\ st[C] \in {"ro", "rw"}
         /\ \A k \in Keys : Trace[l].res[k] = Norm(View(C)[k])
         /\ UNCHANGED <<vars, intent>>
TCStart == Ev("cstart") /\ st[C] \in {"ro", "rw"} /\ intent' = [intent EXCEPT ![C] = "commit"] /\ UNCHANGED vars
TRStart == Ev("rstart") /\ st[C] \in {"ro", "rw"} /\ intent' = [intent EXCEPT ![C] = "rollback"] /\ UNCHANGED vars
TAStart == Ev("astart") /\ intent[C] = "commit" /\ ApplyStart(C) /\ UNCHANGED intent
TApplied == Ev("applied") /\ (\E ok \in BOOLEAN : Applied(C, ok)) /\ UNCHANGED intent
\* the lock is released: after an apply, or directly (rollback; commit of a read-only or of an empty transaction)
TUnlocking == /\ Ev("unlocking")
              /\ \/ Unlock(C)
                 \/ /\ st[C] \in {"ro", "rw"} /\ Holding(C)
                    /\ intent[C] = "rollback" \/ st[C] = "ro" \/ buf[C] = EmptyBuf
                    /\ intent[C] # "none"
                    /\ readers' = readers \ {C} /\ writer' = IF writer = C THEN NoOne ELSE writer
                    /\ st' = [st EXCEPT ![C] = "idle"] /\ buf' = [buf EXCEPT ![C] = EmptyBuf]
                    /\ cok' = [cok EXCEPT ![C] = TRUE]
                    /\ UNCHANGED <<db, pendW, nw, snap, gaveup, abandoned, ntx>>
              /\ UNCHANGED intent
\* C17: when Commit / Rollback returns the lock has been released; C03: the reported outcome is the one that took effect
TCRet == /\ Ev("cret") /\ st[C] = "idle" /\ intent[C] = "commit" /\ Trace[l].ok = cok[C]
         /\ intent' = [intent EXCEPT ![C] = "none"] /\ UNCHANGED vars
TRRet == /\ Ev("rret") /\ st[C] = "idle" /\ intent[C] = "rollback"
         /\ intent' = [intent EXCEPT ![C] = "none"] /\ UNCHANGED vars
\* C17: any use after the end fails with the closed error and changes nothing
TAgain == Ev("again") /\ st[C] = "idle" /\ Trace[l].res = "closed" /\ UNCHANGED <<vars, intent>>
\* C03: a read from outside while a commit is applying waits; otherwise it sees the committed state
TDGet == /\ Ev("dget")
         /\ IF \E d \in Clients : st[d] = "applying" THEN Trace[l].res = "blocked"
            ELSE Trace[l].res = Norm(db[Trace[l].k])
         /\ UNCHANGED <<vars, intent>>
\* a begin that must wait: observed as "not returned" while somebody else holds the lock in a conflicting mode
TBlocked == /\ Ev("bblocked")
            /\ \/ st[C] = "waitW" /\ (writer # NoOne \/ readers # {})
               \/ st[C] = "waitR" /\ writer # NoOne
            /\ UNCHANGED <<vars, intent>>
TFinal == /\ Ev("final") /\ Quiescent
          /\ \A k \in Keys : Trace[l].st[k] = Norm(db[k])
          /\ UNCHANGED <<vars, intent>>

TNext == TReset \/ TBReq \/ TGranted \/ TWrite \/ TGet \/ TScan \/ TCStart \/ TRStart \/ TAStart \/ TApplied
         \/ TUnlocking \/ TGrantedAny \/ TReapAny \/ TAbandon \/ TBTimeout \/ TCRet \/ TRRet \/ TAgain \/ TDGet \/ TBlocked \/ TFinal
TSpec == TInit /\ [][TNext]_tvars

HighWater == IF l > TLCGet(1) THEN TLCSet(1, l) ELSE TRUE
Accepted == PrintT(<<"HIGHWATER", TLCGet(1)>>) /\ TLCGet(1) = Len(Trace) + 1
=============================================================================
