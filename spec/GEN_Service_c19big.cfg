SPECIFICATION GSpec
CONSTANTS
  KeyArgs <- AllKeyArgs
  ValArgs = {"v1", "v2", "v3", "VEMPTY", "VMAX", "VOVER"}
  SpecialVals = {"VEMPTY", "VMAX", "VOVER"}
  MaxTx = 7
  Role = "standalone"
  MaxKeyLen = 4096
  MaxValLen = 10485760
  MaxBatch = 1000
  GenLen = 16
  Flavour = "c19"
CHECK_DEADLOCK FALSE
