SPECIFICATION Spec
CONSTANTS
  ShapeNames = {"del0", "put00", "put11", "small", "merge", "fit", "frag1", "lastfull", "three", "four", "midfull", "keyfit", "bigkey", "delfit", "delbig", "delhuge"}
  Batches <- MCBatches
  MaxEntries = 3
  MaxFiles = 3
INVARIANTS ReplayIsAppended FromIsSuffix SeqUp NextMatchesLog
CHECK_DEADLOCK FALSE
