SPECIFICATION GSpec
CONSTANTS
  MaxSeq = 6
  MaxCrash = 3
  Guard = TRUE
  Tiny = TRUE
  GenLen = 10
CHECK_DEADLOCK FALSE
