SPECIFICATION OSpec
CONSTANTS
  DataKeys = {2}
  Targets = {2}
  SeqNums = {1}
  Payloads = {"v1"}
  MaxIns = 0
  MaxH = 1
  Readers = {1}
  RStartMin = 0
  ROps = {}
  ImmMidInsert = FALSE
  PublishFirst = FALSE
  TopDown = FALSE
  Reload = "keep"
INVARIANT StressOK
CHECK_DEADLOCK FALSE
