SPECIFICATION Spec
CONSTANTS
  MaxDiff = 2
  BaseNames = {"default"}
  PolSet = {TRUE, FALSE}
  AllowChoose = FALSE
INVARIANT Inv
PROPERTIES RejectedSaveWritesNothing BadManifestFailsOpen FailedOpenChangesNothing
CHECK_DEADLOCK FALSE
