SPECIFICATION Spec
CONSTANTS
  MaxDiff = 2
  BaseNames = {"default"}
  PolSet = {TRUE, FALSE}
  Acts = {"validate", "save", "load", "open", "close", "tamper"}
INVARIANT Inv
PROPERTIES RejectedSaveWritesNothing BadManifestFailsOpen FailedOpenChangesNothing
CHECK_DEADLOCK FALSE
