----------------------------- MODULE KevoService -----------------------------
(***************************************************************************)
(* kevo's network API (pkg/grpc/service.KevoServiceServer) written as the   *)
(* EMBEDDED API (engine.EngineFacade + transaction.TransactionImpl) plus    *)
(* what the service adds: request limits, transaction handles              *)
(* (transaction.RegistryImpl) - and the read-only mode of a replica with    *)
(* the replication applier's way around it (C16).                           *)
(*                                                                         *)
(* State is abstract: db maps a key to a value or Tomb; a transaction is a  *)
(* mode and a private write buffer (KevoTxn's semantics: ONE reader-writer  *)
(* lock taken at begin and released at commit/rollback, reads = storage     *)
(* plus own writes, the write set applied in one step at commit).  The      *)
(* client of this module is SEQUENTIAL: a request that would have to wait   *)
(* for the lock (a read-write begin while any transaction is open, a scan   *)
(* while a read-write transaction is open, ...) is not enabled - the        *)
(* waiting protocol itself is KevoTxn's subject (C04, C17).                 *)
(*                                                                         *)
(* Keys are sequences of SYMBOLS so that order, prefix and suffix are the   *)
(* real relations; symbol Big stands for MaxKeyLen bytes, so the size check *)
(* is the numeric check of the code (len(key) = 0 or > 4096 is rejected).   *)
(*                                                                         *)
(* Every request is a record rq; there is one action per RPC / embedded     *)
(* entry point, Do(rq) selects it.  The reply register rsp carries the      *)
(* PREDICTED response; rsp.rq echoes the request so that the properties     *)
(* can talk about "the step that served request rq".                        *)
(*                                                                         *)
(* Properties: C19 RejectedHasNoEffect, HandleUnusableAfterFinish,          *)
(* ScanSound, RefinesEmbedded; C16 ReadOnlyRejectsMutators,                 *)
(* ApplyAndReadsAlwaysEnabled, NodeInfoTruthful.                            *)
(***************************************************************************)
EXTENDS Integers, Sequences, FiniteSets, TLC

CONSTANTS KeyArgs,     \* keys a request may carry (valid and invalid ones), sequences of symbols
          ValArgs,     \* value tokens a request may carry: ordinary ones, "VEMPTY", "VMAX", "VOVER"
          MaxTx,       \* bound on transaction handles issued in one behaviour
          Role,        \* "standalone" | "primary" | "replica": how the node was started
          MaxKeyLen, MaxValLen, MaxBatch   \* the limits in service.NewKevoServiceServer: 4096, 10485760, 1000

Tomb == "TOMB"
NoBuf == "NOBUF"
Big == 9                \* the symbol that is MaxKeyLen bytes long; every other symbol is one byte

RECURSIVE KeyLen(_)
KeyLen(k) == IF k = <<>> THEN 0 ELSE (IF Head(k) = Big THEN MaxKeyLen ELSE 1) + KeyLen(Tail(k))
ValLen(v) == CASE v = "VEMPTY" -> 0 [] v = "VMAX" -> MaxValLen [] v = "VOVER" -> MaxValLen + 1 [] OTHER -> 6

ValidKey(k) == KeyLen(k) >= 1 /\ KeyLen(k) <= MaxKeyLen     \* service.go: len(key) == 0 || len(key) > maxKeySize
ValidVal(v) == ValLen(v) <= MaxValLen                       \* service.go: len(value) > maxValueSize
StoreKeys == {k \in KeyArgs : ValidKey(k)}
StoreVals == {v \in ValArgs : ValidVal(v)}

VARIABLES db,        \* StoreKeys -> StoreVals \cup {Tomb}
          txs,       \* 1..MaxTx -> [mode, via, buf]; mode: "free" (not issued) | "ro" | "rw" (open) | "dead" (finished)
          nh,        \* handles issued so far (the registry numbers them consecutively)
          readOnly,  \* engine.EngineFacade.readOnly
          repl,      \* replication.Manager: "running" | "stopped" (Manager.Stop was called: Server.Shutdown does that first,
                     \* while the gRPC service still answers) | "none" (standalone: the service has no manager)
          rsp        \* reply register: predicted response of the last request (+ the request itself)

evars == <<db, txs, nh, readOnly>>      \* the embedded state
vars == <<db, txs, nh, readOnly, repl, rsp>>

-----------------------------------------------------------------------------
(* Order, prefix, suffix on keys *)

RECURSIVE Less(_, _)
Less(a, b) == IF a = <<>> THEN b # <<>>
              ELSE IF b = <<>> THEN FALSE
              ELSE IF Head(a) # Head(b) THEN Head(a) < Head(b)
              ELSE Less(Tail(a), Tail(b))
IsPrefix(p, k) == Len(p) <= Len(k) /\ SubSeq(k, 1, Len(p)) = p
IsSuffix(x, k) == Len(x) <= Len(k) /\ SubSeq(k, Len(k) - Len(x) + 1, Len(k)) = x
RECURSIVE SortKeys(_)
SortKeys(S) == IF S = {} THEN <<>>
               ELSE LET m == CHOOSE x \in S : \A y \in S \ {x} : Less(x, y)
                    IN <<m>> \o SortKeys(S \ {m})

-----------------------------------------------------------------------------
(* The embedded layer: pure operators on the abstract state *)

EmptyBuf == [k \in StoreKeys |-> NoBuf]
Overlay(d, b) == [k \in StoreKeys |-> IF b[k] = NoBuf THEN d[k] ELSE b[k]]
Live(m) == {k \in StoreKeys : m[k] # Tomb}
ModeOf(h) == IF h \in 1..MaxTx THEN txs[h].mode ELSE "free"
Open(h) == ModeOf(h) \in {"ro", "rw"}
Writers == {h \in 1..MaxTx : txs[h].mode = "rw"}
Readers == {h \in 1..MaxTx : txs[h].mode = "ro"}
CanR == Writers = {}                       \* RLock would be granted at once
CanW == Writers = {} /\ Readers = {}       \* Lock would be granted at once
View(h) == Overlay(db, txs[h].buf)         \* what transaction h reads: storage plus its own writes

\* scan options: start (inclusive), end (exclusive), prefix, suffix - <<>> means "not given" - and limit (<= 0: none).
\* The result is the live keys of the requested set in ascending order, at most `limit` of them.
NoScan == [s |-> <<>>, e |-> <<>>, p |-> <<>>, x |-> <<>>, l |-> 0]
Wanted(m, so) == {k \in Live(m) : /\ (so.s = <<>> \/ ~Less(k, so.s))
                                  /\ (so.e = <<>> \/ Less(k, so.e))
                                  /\ IsPrefix(so.p, k) /\ IsSuffix(so.x, k)}
ScanKeys(m, so) == LET all == SortKeys(Wanted(m, so))
                   IN IF so.l > 0 /\ Len(all) > so.l THEN SubSeq(all, 1, so.l) ELSE all
ScanItems(m, so) == LET ks == ScanKeys(m, so) IN [i \in 1..Len(ks) |-> <<ks[i], m[ks[i]]>>]

\* a batch is a sequence of [t, k, v] (t = "put" | "del"), applied in order: the last write to a key wins
RECURSIVE ApplyOps(_, _)
ApplyOps(m, ops) == IF ops = <<>> THEN m
                    ELSE ApplyOps([m EXCEPT ![Head(ops).k] = IF Head(ops).t = "del" THEN Tomb ELSE Head(ops).v], Tail(ops))
OpValid(o) == ValidKey(o.k) /\ (o.t = "del" \/ ValidVal(o.v))

-----------------------------------------------------------------------------
(* Requests and responses *)

Rq0 == [op |-> "", via |-> "grpc", k |-> <<>>, v |-> "", h |-> 0, ro |-> FALSE, ops |-> <<>>, pad |-> 0,
        so |-> NoScan, fail |-> FALSE]
\* err: "" | "invalid" (outside the limits) | "nohandle" (unknown / finished handle) | "rotx" (write in a read-only
\* transaction) | "readonly" (engine is read-only) | "commitfail"
Rsp0 == [rq |-> Rq0, ok |-> TRUE, err |-> "", found |-> FALSE, val |-> "", items |-> <<>>, h |-> 0, info |-> <<>>, n |-> 0]
Reply(rq, r) == rsp' = [r EXCEPT !.rq = rq]
Reject(rq, why) == Reply(rq, [Rsp0 EXCEPT !.ok = FALSE, !.err = why]) /\ UNCHANGED evars
Found(rq, m) == Reply(rq, [Rsp0 EXCEPT !.found = m[rq.k] # Tomb, !.val = IF m[rq.k] # Tomb THEN m[rq.k] ELSE ""])

\* the limits apply to the network API only; the embedded API takes any key the caller hands over (the generator
\* hands over valid ones)
Limited(rq) == rq.via = "grpc"
KeyBad(rq) == Limited(rq) /\ ~ValidKey(rq.k)
ValBad(rq) == Limited(rq) /\ ~ValidVal(rq.v)

PrimaryOf == CASE Role = "replica" -> "P" [] Role = "primary" -> "L" [] OTHER -> ""

Init == /\ db = [k \in StoreKeys |-> Tomb]
        /\ txs = [h \in 1..MaxTx |-> [mode |-> "free", via |-> "grpc", buf |-> EmptyBuf]]
        /\ nh = 0
        /\ readOnly = (Role = "replica")        \* replication.Manager.startReplica -> setEngineReadOnly(true)
        /\ repl = IF Role = "standalone" THEN "none" ELSE "running"
        /\ rsp = Rsp0

-----------------------------------------------------------------------------
(* One action per entry point.  Service: Get Put Delete BatchWrite Scan BeginTransaction CommitTransaction           *)
(* RollbackTransaction TxGet TxPut TxDelete TxScan GetStats Compact GetNodeInfo; with via = "emb" the same action is  *)
(* the embedded call (EngineFacade.Get/Put/Delete/ApplyBatch/BeginTransaction, Transaction.Get/Put/...).             *)

Get(rq) == /\ rq.op = "get"
           /\ IF KeyBad(rq) THEN Reject(rq, "invalid")
              ELSE Found(rq, db) /\ UNCHANGED evars

Put(rq) == /\ rq.op = "put"
           /\ IF KeyBad(rq) \/ ValBad(rq) THEN Reject(rq, "invalid")
              ELSE IF readOnly THEN Reject(rq, "readonly")
              ELSE db' = [db EXCEPT ![rq.k] = rq.v] /\ Reply(rq, Rsp0) /\ UNCHANGED <<txs, nh, readOnly>>

Delete(rq) == /\ rq.op = "del"
              /\ IF KeyBad(rq) THEN Reject(rq, "invalid")
                 ELSE IF readOnly THEN Reject(rq, "readonly")
                 ELSE db' = [db EXCEPT ![rq.k] = Tomb] /\ Reply(rq, Rsp0) /\ UNCHANGED <<txs, nh, readOnly>>

\* BatchWrite(n operations) = the operations rq.ops preceded by rq.pad repetitions of the first one (that is how the
\* harness builds batches of 1000 and 1001 operations); the service wraps the batch in ONE read-write transaction, so it
\* needs the lock, and applies all of it or nothing.  The embedded counterpart is EngineFacade.ApplyBatch (no lock).
BatchLen(rq) == Len(rq.ops) + rq.pad
BatchWrite(rq) ==
  /\ rq.op = "batch" /\ (rq.pad > 0 => rq.ops # <<>>)
  /\ IF BatchLen(rq) = 0 THEN Reply(rq, Rsp0) /\ UNCHANGED evars
     ELSE IF Limited(rq) /\ BatchLen(rq) > MaxBatch THEN Reject(rq, "invalid")
     ELSE /\ Limited(rq) => IF readOnly THEN CanR ELSE CanW
          /\ IF Limited(rq) /\ \E i \in 1..Len(rq.ops) : ~OpValid(rq.ops[i]) THEN Reject(rq, "invalid")
             ELSE IF readOnly THEN Reject(rq, "readonly")
             ELSE db' = ApplyOps(db, rq.ops) /\ Reply(rq, Rsp0) /\ UNCHANGED <<txs, nh, readOnly>>

\* the service scans inside a read-only transaction of its own (engine: GetIterator / GetRangeIterator + filters)
Scan(rq) == /\ rq.op = "scan" /\ (Limited(rq) => CanR)
            /\ Reply(rq, [Rsp0 EXCEPT !.items = ScanItems(db, rq.so)]) /\ UNCHANGED evars

\* EngineFacade.BeginTransaction silently turns the request into a read-only transaction on a read-only engine
EffRO(rq) == rq.ro \/ readOnly
Begin(rq) == /\ rq.op = "begin" /\ nh < MaxTx
             /\ IF EffRO(rq) THEN CanR ELSE CanW
             /\ nh' = nh + 1
             /\ txs' = [txs EXCEPT ![nh + 1] = [mode |-> IF EffRO(rq) THEN "ro" ELSE "rw", via |-> rq.via, buf |-> EmptyBuf]]
             /\ Reply(rq, [Rsp0 EXCEPT !.h = nh + 1]) /\ UNCHANGED <<db, readOnly>>

\* requests that name a handle: the handle's API is the one it was begun with; an unknown or finished handle is an error
\* and nothing else
Mine(rq) == rq.h \in 1..MaxTx => rq.via = txs[rq.h].via

\* rq.fail: the storage layer refuses the batch (e.g. a log rotation that does not finish): nothing becomes visible, the
\* transaction is over all the same, its lock released, its handle gone
\* A read-write transaction may have been begun BEFORE the node became read-only (SetRO below): its writes were buffered,
\* the mutation happens at commit - on a read-only node that commit is refused ("rocommit": nothing becomes visible, the
\* transaction is over, its lock released, its handle gone; not a Rejection in the sense of RejectedHasNoEffect).
RefusedByMode(h) == readOnly /\ txs[h].mode = "rw" /\ txs[h].buf # EmptyBuf
Commit(rq) == /\ rq.op = "commit" /\ Mine(rq)
              /\ IF ~Open(rq.h) THEN Reject(rq, "nohandle")
                 ELSE /\ rq.fail => txs[rq.h].mode = "rw" /\ txs[rq.h].buf # EmptyBuf /\ ~readOnly
                      /\ db' = IF rq.fail \/ RefusedByMode(rq.h) THEN db ELSE View(rq.h)
                      /\ txs' = [txs EXCEPT ![rq.h].mode = "dead", ![rq.h].buf = EmptyBuf]
                      /\ Reply(rq, IF rq.fail THEN [Rsp0 EXCEPT !.ok = FALSE, !.err = "commitfail"]
                                   ELSE IF RefusedByMode(rq.h) THEN [Rsp0 EXCEPT !.ok = FALSE, !.err = "rocommit"] ELSE Rsp0)
                      /\ UNCHANGED <<nh, readOnly>>

Rollback(rq) == /\ rq.op = "rollback" /\ Mine(rq)
                /\ IF ~Open(rq.h) THEN Reject(rq, "nohandle")
                   ELSE /\ txs' = [txs EXCEPT ![rq.h].mode = "dead", ![rq.h].buf = EmptyBuf]
                        /\ Reply(rq, Rsp0) /\ UNCHANGED <<db, nh, readOnly>>

TxGet(rq) == /\ rq.op = "txget" /\ Mine(rq)
             /\ IF ~Open(rq.h) THEN Reject(rq, "nohandle")
                ELSE IF KeyBad(rq) THEN Reject(rq, "invalid")       \* rejected WITHOUT side effects: the transaction lives on
                ELSE Found(rq, View(rq.h)) /\ UNCHANGED evars

TxWrite(rq, v) == IF ~Open(rq.h) THEN Reject(rq, "nohandle")
                  ELSE IF txs[rq.h].mode = "ro" THEN Reject(rq, "rotx")
                  ELSE IF KeyBad(rq) \/ (v # Tomb /\ ValBad(rq)) THEN Reject(rq, "invalid")
                  ELSE /\ txs' = [txs EXCEPT ![rq.h].buf[rq.k] = v]
                       /\ Reply(rq, Rsp0) /\ UNCHANGED <<db, nh, readOnly>>
TxPut(rq) == rq.op = "txput" /\ Mine(rq) /\ TxWrite(rq, rq.v)
TxDelete(rq) == rq.op = "txdel" /\ Mine(rq) /\ TxWrite(rq, Tomb)

TxScan(rq) == /\ rq.op = "txscan" /\ Mine(rq)
              /\ IF ~Open(rq.h) THEN Reject(rq, "nohandle")
                 ELSE Reply(rq, [Rsp0 EXCEPT !.items = ScanItems(View(rq.h), rq.so)]) /\ UNCHANGED evars

\* GetStats counts the live keys inside a read-only transaction; Compact(force = false) is an empty read-write transaction
Stats(rq) == /\ rq.op = "stats" /\ CanR
             /\ Reply(rq, [Rsp0 EXCEPT !.n = Cardinality(Live(db))]) /\ UNCHANGED evars
Compact(rq) == /\ rq.op = "compact" /\ (IF readOnly THEN CanR ELSE CanW)
               /\ Reply(rq, Rsp0) /\ UNCHANGED evars

\* GetNodeInfo: role and primary address as configured, read-only status of the engine as it is NOW - in EVERY state the
\* node can be in: replica running, replica after Manager.Stop (nothing switches the engine back: it still refuses writes),
\* primary, standalone, and a primary / standalone engine switched to read-only (and back) at run time
NodeInfo(rq) == /\ rq.op = "nodeinfo"
                /\ Reply(rq, [Rsp0 EXCEPT !.info = <<Role, PrimaryOf, readOnly>>]) /\ UNCHANGED evars

-----------------------------------------------------------------------------
(* C16: the replication applier's entry points (replication.EngineApplier.Apply -> PutInternal / DeleteInternal,    *)
(* ApplyBatchInternal) work whatever readOnly says and whoever holds the transaction lock; SetReadOnly is the       *)
(* lifecycle switch; it may be thrown while transactions are open (a node demoted to replica under load).           *)

\* every entry type the log accepts - put, delete, merge (applied like a put) - singly through EngineApplier.Apply
\* (apply_put / apply_del / apply_merge), as the entries of one batch through EngineApplier.Apply one after the other
\* (apply_entries: that is how the Replica applies a batch) and through ApplyBatchInternal (apply_batch); inside rq.ops the
\* entry type is t = "put" | "del" | "merge"
ApplierOps == {"apply_put", "apply_merge", "apply_del", "apply_batch", "apply_entries"}
ApplyInternal(rq) ==
  /\ rq.op \in ApplierOps
  /\ db' = CASE rq.op \in {"apply_put", "apply_merge"} -> [db EXCEPT ![rq.k] = rq.v]
             [] rq.op = "apply_del" -> [db EXCEPT ![rq.k] = Tomb]
             [] OTHER -> ApplyOps(db, rq.ops)
  /\ Reply(rq, Rsp0) /\ UNCHANGED <<txs, nh, readOnly>>

SetRO(rq) == /\ rq.op = "setro"
             /\ readOnly' = rq.ro /\ Reply(rq, Rsp0) /\ UNCHANGED <<db, txs, nh>>

\* replication.Manager.Stop: the replication service goes away; the data, the transactions and the MODE stay as they are
StopRepl(rq) == /\ rq.op = "stoprepl" /\ repl = "running"
                /\ repl' = "stopped" /\ Reply(rq, Rsp0) /\ UNCHANGED evars

DoData(rq) ==
          \/ Get(rq) \/ Put(rq) \/ Delete(rq) \/ BatchWrite(rq) \/ Scan(rq)
          \/ Begin(rq) \/ Commit(rq) \/ Rollback(rq) \/ TxGet(rq) \/ TxPut(rq) \/ TxDelete(rq) \/ TxScan(rq)
          \/ Stats(rq) \/ Compact(rq) \/ NodeInfo(rq)
          \/ ApplyInternal(rq) \/ SetRO(rq)
Do(rq) == \/ StopRepl(rq)
          \/ DoData(rq) /\ repl' = repl

-----------------------------------------------------------------------------
(* The table that classifies every entry point of the real API (C16 "enumerated from the interface"): the harness      *)
(* enumerates the methods of interfaces.Engine, *engine.EngineFacade, interfaces.Transaction and pb.KevoServiceServer   *)
(* by reflection and looks each one up HERE (the table is exported by the generator).  mutator: client-initiated        *)
(* change - refused on a read-only engine; apply: the replication applier's way in - works regardless; reader, info:    *)
(* never change data; lifecycle: open/close/mode/maintenance calls that do not change what a client reads; accessor:    *)
(* hands out an internal component (not client API).  `act` names the action above that specifies the entry point.      *)

EntryPoints == <<
  [api |-> "Engine", m |-> "Put", class |-> "mutator", act |-> "put"],
  [api |-> "Engine", m |-> "Delete", class |-> "mutator", act |-> "del"],
  [api |-> "Engine", m |-> "ApplyBatch", class |-> "mutator", act |-> "batch"],
  [api |-> "Engine", m |-> "BeginTransaction", class |-> "mutator", act |-> "begin"],
  [api |-> "Engine", m |-> "Get", class |-> "reader", act |-> "get"],
  [api |-> "Engine", m |-> "IsDeleted", class |-> "reader", act |-> "get"],
  [api |-> "Engine", m |-> "GetIterator", class |-> "reader", act |-> "scan"],
  [api |-> "Engine", m |-> "GetRangeIterator", class |-> "reader", act |-> "scan"],
  [api |-> "Engine", m |-> "FlushImMemTables", class |-> "lifecycle", act |-> ""],
  [api |-> "Engine", m |-> "TriggerCompaction", class |-> "lifecycle", act |-> ""],
  [api |-> "Engine", m |-> "CompactRange", class |-> "lifecycle", act |-> ""],
  [api |-> "Engine", m |-> "Close", class |-> "lifecycle", act |-> ""],
  [api |-> "Engine", m |-> "GetStats", class |-> "info", act |-> "stats"],
  [api |-> "Engine", m |-> "GetCompactionStats", class |-> "info", act |-> ""],
  [api |-> "Engine", m |-> "IsReadOnly", class |-> "info", act |-> "nodeinfo"],
  [api |-> "Facade", m |-> "PutInternal", class |-> "apply", act |-> "apply_put"],
  [api |-> "Facade", m |-> "DeleteInternal", class |-> "apply", act |-> "apply_del"],
  [api |-> "Facade", m |-> "ApplyBatchInternal", class |-> "apply", act |-> "apply_batch"],
  [api |-> "Facade", m |-> "SetReadOnly", class |-> "lifecycle", act |-> "setro"],
  [api |-> "Facade", m |-> "GetWAL", class |-> "accessor", act |-> ""],
  [api |-> "Facade", m |-> "GetTransactionManager", class |-> "accessor", act |-> ""],
  [api |-> "Facade", m |-> "GetRWLock", class |-> "accessor", act |-> ""],
  [api |-> "Facade", m |-> "IncrementTxCompleted", class |-> "info", act |-> ""],
  [api |-> "Facade", m |-> "IncrementTxAborted", class |-> "info", act |-> ""],
  [api |-> "Transaction", m |-> "Put", class |-> "mutator", act |-> "txput"],
  [api |-> "Transaction", m |-> "Delete", class |-> "mutator", act |-> "txdel"],
  [api |-> "Transaction", m |-> "Commit", class |-> "mutator", act |-> "commit"],
  [api |-> "Transaction", m |-> "Rollback", class |-> "lifecycle", act |-> "rollback"],
  [api |-> "Transaction", m |-> "Get", class |-> "reader", act |-> "txget"],
  [api |-> "Transaction", m |-> "NewIterator", class |-> "reader", act |-> "txscan"],
  [api |-> "Transaction", m |-> "NewRangeIterator", class |-> "reader", act |-> "txscan"],
  [api |-> "Transaction", m |-> "IsReadOnly", class |-> "info", act |-> ""],
  [api |-> "Service", m |-> "Put", class |-> "mutator", act |-> "put"],
  [api |-> "Service", m |-> "Delete", class |-> "mutator", act |-> "del"],
  [api |-> "Service", m |-> "BatchWrite", class |-> "mutator", act |-> "batch"],
  [api |-> "Service", m |-> "BeginTransaction", class |-> "mutator", act |-> "begin"],
  [api |-> "Service", m |-> "CommitTransaction", class |-> "mutator", act |-> "commit"],
  [api |-> "Service", m |-> "RollbackTransaction", class |-> "lifecycle", act |-> "rollback"],
  [api |-> "Service", m |-> "TxPut", class |-> "mutator", act |-> "txput"],
  [api |-> "Service", m |-> "TxDelete", class |-> "mutator", act |-> "txdel"],
  [api |-> "Service", m |-> "Compact", class |-> "mutator", act |-> "compact"],
  [api |-> "Service", m |-> "Get", class |-> "reader", act |-> "get"],
  [api |-> "Service", m |-> "Scan", class |-> "reader", act |-> "scan"],
  [api |-> "Service", m |-> "TxGet", class |-> "reader", act |-> "txget"],
  [api |-> "Service", m |-> "TxScan", class |-> "reader", act |-> "txscan"],
  [api |-> "Service", m |-> "GetStats", class |-> "info", act |-> "stats"],
  [api |-> "Service", m |-> "GetNodeInfo", class |-> "info", act |-> "nodeinfo"] >>

\* which requests are attempts of a client to change data (on a read-only node each must be answered with an error)
ClientOps == {"get", "put", "del", "batch", "scan", "begin", "commit", "rollback", "txget", "txput", "txdel", "txscan",
              "stats", "compact", "nodeinfo"}
IsMutation(rq) == rq.op \in {"put", "del", "txput", "txdel"} \/ (rq.op = "batch" /\ BatchLen(rq) > 0)
\* every act named for a mutator / apply entry point is an action of this module, and the table agrees with IsMutation
TableOK == \A i \in 1..Len(EntryPoints) :
             LET e == EntryPoints[i]
             IN /\ e.class \in {"mutator", "apply", "reader", "info", "lifecycle", "accessor"}
                /\ e.class = "mutator" => e.act \in ClientOps
                /\ e.class = "apply" => e.act \in ApplierOps
                /\ e.class \in {"reader", "info"} /\ e.act # "" => e.act \in ClientOps /\ ~IsMutation([Rq0 EXCEPT !.op = e.act])

-----------------------------------------------------------------------------
(* Properties *)

TypeOK == /\ db \in [StoreKeys -> StoreVals \cup {Tomb}]
          /\ nh \in 0..MaxTx /\ readOnly \in BOOLEAN
          /\ \A h \in 1..MaxTx : /\ txs[h].mode \in {"free", "ro", "rw", "dead"}
                                 /\ txs[h].buf \in [StoreKeys -> StoreVals \cup {Tomb, NoBuf}]
                                 /\ (h > nh <=> txs[h].mode = "free")
Mutex == Cardinality(Writers) <= 1 /\ (Writers # {} => Readers = {})

\* C19: a request answered with one of the rejections changes nothing - not the data, not any transaction, not the
\* handle table (a failed commit is not a rejection: it ends the transaction)
Rejections == {"invalid", "nohandle", "rotx", "readonly"}
RejectedHasNoEffect == [][rsp'.err \in Rejections => ~rsp'.ok /\ UNCHANGED evars]_vars
\* C19: requests outside the limits ARE rejected
OutsideLimits(rq) == /\ rq.via = "grpc"
                     /\ \/ rq.op \in {"get", "put", "del"} /\ ~ValidKey(rq.k)
                        \/ rq.op = "put" /\ ~ValidVal(rq.v)
                        \/ rq.op = "batch" /\ (BatchLen(rq) > MaxBatch \/ \E i \in 1..Len(rq.ops) : ~OpValid(rq.ops[i]))
                        \/ rq.op \in {"txget", "txput", "txdel"} /\ Open(rq.h) /\ ~ValidKey(rq.k)
                        \/ rq.op = "txput" /\ Open(rq.h) /\ ~ValidVal(rq.v)
LimitsEnforced == [][OutsideLimits(rsp'.rq) => ~rsp'.ok /\ UNCHANGED evars]_vars
\* C19: a handle is unusable after commit or rollback (successful or not), and so is one that was never issued: every
\* request naming it is an error without effect; a finished handle stays finished
TxOps == {"commit", "rollback", "txget", "txput", "txdel", "txscan"}
HandleUnusableAfterFinish ==
  [][/\ rsp'.rq.op \in TxOps /\ ~Open(rsp'.rq.h) => ~rsp'.ok /\ UNCHANGED evars
     /\ \A h \in 1..MaxTx : txs[h].mode = "dead" => txs'[h].mode = "dead"
     /\ rsp'.rq.op \in {"commit", "rollback"} /\ Open(rsp'.rq.h) => txs'[rsp'.rq.h].mode = "dead"]_vars
\* C19: what a scan returns - strictly ascending, only live keys of the requested set, the least ones, at most limit
ScanOK(m, so, ks) == /\ \A i \in 1..Len(ks) : ks[i] \in Wanted(m, so)
                     /\ \A i \in 1..(Len(ks) - 1) : Less(ks[i], ks[i + 1])
                     /\ Len(ks) = IF so.l > 0 /\ so.l < Cardinality(Wanted(m, so)) THEN so.l ELSE Cardinality(Wanted(m, so))
                     /\ \A k \in Wanted(m, so) : (\A i \in 1..Len(ks) : ks[i] # k) => \A i \in 1..Len(ks) : Less(ks[i], k)

\* C19 refinement: every step of the service is a step of the embedded API on the same state, or leaves that state alone
\* (rejections, reads).  The embedded API: put, delete, batch, begin (under the lock rules), buffered writes, commit
\* (whole write set or nothing), rollback, the internal applies, the mode switch.
EmbeddedStep(Batches) ==
  \/ \E k \in StoreKeys, v \in StoreVals \cup {Tomb} : db' = [db EXCEPT ![k] = v] /\ UNCHANGED <<txs, nh, readOnly>>
  \/ \E b \in Batches : db' = ApplyOps(db, b) /\ UNCHANGED <<txs, nh, readOnly>>
  \/ \E m \in {"ro", "rw"}, via \in {"grpc", "emb"} :
        /\ (IF m = "ro" THEN CanR ELSE (CanW /\ ~readOnly))
        /\ nh' = nh + 1 /\ txs' = [txs EXCEPT ![nh + 1] = [mode |-> m, via |-> via, buf |-> EmptyBuf]]
        /\ UNCHANGED <<db, readOnly>>
  \/ \E h \in 1..MaxTx, k \in StoreKeys, v \in StoreVals \cup {Tomb} :
        /\ txs[h].mode = "rw" /\ txs' = [txs EXCEPT ![h].buf[k] = v] /\ UNCHANGED <<db, nh, readOnly>>
  \/ \E h \in 1..MaxTx : /\ Open(h) /\ db' \in {db, View(h)}
                         /\ txs' = [txs EXCEPT ![h].mode = "dead", ![h].buf = EmptyBuf] /\ UNCHANGED <<nh, readOnly>>
  \/ readOnly' # readOnly /\ UNCHANGED <<db, txs, nh>>

\* C16: on a read-only node no client request changes the data, and every mutation attempt is answered with an error
\* (a write inside a read-write transaction that was begun before the switch is only buffered: the error arrives at commit)
ReadOnlyRejectsMutators ==
  [][readOnly /\ rsp'.rq.op \in ClientOps =>
        /\ db' = db
        /\ IsMutation(rsp'.rq) /\ rsp'.ok => rsp'.rq.op \in {"txput", "txdel"} /\ txs[rsp'.rq.h].mode = "rw"
        /\ rsp'.rq.op = "commit" /\ Open(rsp'.rq.h) /\ txs[rsp'.rq.h].mode = "rw" /\ txs[rsp'.rq.h].buf # EmptyBuf => ~rsp'.ok]_vars
\* C16: the applier's entry points do what they are asked, whatever the mode
ApplyWorks == [][rsp'.rq.op \in ApplierOps => rsp'.ok]_vars
\* C16: the node information is the truth
NodeInfoTruthful == [][rsp'.rq.op = "nodeinfo" => rsp'.info = <<Role, PrimaryOf, readOnly>> /\ rsp'.info[3] = readOnly']_vars
\* C16: stopping the replication service changes neither the data nor what the node enforces
StopKeepsMode == [][repl' # repl => UNCHANGED evars /\ repl = "running" /\ repl' = "stopped"]_vars
=============================================================================
