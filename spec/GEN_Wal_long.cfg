SPECIFICATION GSpec
CONSTANTS
  ShapeNames = {"del0", "put00", "put11", "small", "merge", "fit", "frag1", "lastfull", "three", "four", "midfull", "keyfit", "bigkey", "delfit", "delbig", "delhuge"}
  Batches = {}
  MaxEntries = 60
  MaxFiles = 9
  GenLen = 36
  Sweep = FALSE
  SweepRanges <- NoRanges
CHECK_DEADLOCK FALSE
