SPECIFICATION Spec
CONSTANTS
  Keys = {"k1", "k2"}
  Vals = {"v1"}
  SyncMode = "imm"
  MaxOps = 2
  MaxBatch = 2
  MaxImm = 1
  MaxFiles = 2
  MaxCrash = 2
  MaxLevel = 1
  DKeys = {"k1", "k2"}
  DVals = {"v1"}
  DSync = "imm"
  DMaxOps = 2
  DMaxBatch = 2
INVARIANT Inv
PROPERTY LastSeqMonotone
PROPERTY RefinesDurable
CONSTRAINT StateBound
CHECK_DEADLOCK FALSE
