SPECIFICATION Spec
CONSTANTS
  ShapeNames = {"del0", "put11", "small", "fit", "frag1", "lastfull", "three", "four", "keyfit", "bigkey", "delbig", "delhuge"}
  Batches <- MCBatchesSmall
  MaxEntries = 4
  MaxFiles = 3
INVARIANTS ReplayIsAppended FromIsSuffix SeqUp NextMatchesLog
CHECK_DEADLOCK FALSE
