SPECIFICATION Spec
CONSTANTS
  OldOrder = TRUE
  SyncNotify = FALSE
  UnregUnderRead = FALSE
  HbLeak = FALSE
INVARIANTS LocksConsistent
PROPERTIES WriteReturns AllReturn
CHECK_DEADLOCK TRUE
