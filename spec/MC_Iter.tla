---- MODULE MC_Iter ----
EXTENDS KevoIter
LoSetDef == {1, 3, 4}
HiSetDef == {5, 6, End}
FltSetDef == {KeyPos, {2, 6}, {4}}
LoSetAll == Pos
HiSetAll == Pos \cup {End}
FltSetAll == SUBSET KeyPos
====
