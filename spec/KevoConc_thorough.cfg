SPECIFICATION Spec
CONSTANTS
  Procs = {"p1", "p2", "p3", "p4"}
  MaxCalls = 1
INVARIANT NoStuck
INVARIANT ExclusiveIsExclusive
CHECK_DEADLOCK FALSE
