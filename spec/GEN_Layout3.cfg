SPECIFICATION Spec
CONSTANTS
  NLayers = 3
CHECK_DEADLOCK FALSE
