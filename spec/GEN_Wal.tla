------------------------------- MODULE GEN_Wal -------------------------------
(* Behaviour generation for the conformance replay of the log package (C09): the actions of KevoWal as one
   sequential caller issues them, plus a history h of the calls.  Observation steps carry what the specification
   predicts: "disk" steps (sync / rotate / close / reopen) the result of ReplayWALDir and of ReplayWALFile per file,
   "from" steps the result of GetEntriesFrom(s) for every s in 0..next+1.  Used with `tlc -simulate`
   (Sweep = FALSE) or as one deterministic behaviour that appends every payload length of two ranges (Sweep = TRUE). *)
EXTENDS KevoWal, Json, Randomization, TLC

CONSTANTS GenLen,       \* recorded calls per behaviour (simulation)
          Sweep,        \* TRUE: the boundary sweep
          SweepRanges   \* set of <<lo, hi>> payload-length ranges of the sweep
VARIABLES h, done
gvars == <<wvars, h, done>>

Ids(es) == [i \in 1..Len(es) |-> [i |-> es[i].id, s |-> es[i].seq]]
PerFile == [f \in 1..Len(files)' |-> LET r == ReadRecs(files'[f], 1, <<>>, <<>>) IN [i \in 1..Len(r.out) |-> r.out[i].id]]
\* (primed copies of the read-back operators: the observation is taken AFTER the step)
RECURSIVE ReplayUpToP(_)
ReplayUpToP(n) == IF n = 0 THEN <<>> ELSE ReplayUpToP(n - 1) \o ReadRecs(files'[n], 1, <<>>, <<>>).out
RECURSIVE FromUpToP(_, _)
FromUpToP(n, s) == IF n = 0 THEN <<>> ELSE FromUpToP(n - 1, s) \o AtOrAfter(ReadRecs(files'[n], 1, <<>>, <<>>).out, s)
FromAll == [j \in 1..(next' + 2) |-> LET s == j - 1 IN
              IF s >= next' THEN <<>> ELSE LET es == FromUpToP(Len(files'), s) IN [i \in 1..Len(es) |-> es[i].id]]

Step(a, shs, seq, o) ==
  [a |-> a, sh |-> shs, seq |-> seq, next |-> next', o |-> o,
   rep  |-> IF o = "disk" THEN Ids(ReplayUpToP(Len(files'))) ELSE <<>>,
   per  |-> IF o = "disk" THEN PerFile ELSE <<>>,
   from |-> IF o = "from" THEN FromAll ELSE <<>>,
   nrec |-> [i \in 1..Len(shs) |-> NumRecords(shs[i])]]

Go == ~Sweep /\ Len(h) < GenLen /\ done' = done
\* NB: TLC folds constant-level expressions at start-up, RandomElement included: R(n) mentions a variable
R(n) == RandomElement(1..(n + Len(h) - Len(h)))
NameSeq == LET RECURSIVE F(_) F(T) == IF T = {} THEN <<>> ELSE LET x == CHOOSE x \in T : TRUE IN <<x>> \o F(T \ {x})
           IN F(ShapeNames)
RandShape == S(NameSeq[R(Len(NameSeq))])

GInit == Init /\ h = <<>> /\ done = FALSE

GAppend == /\ Go /\ \E sh \in {RandShape} : AppendOne(sh) /\ h' = Append(h, Step("append", <<sh>>, next, "none"))
\* batches: empty, below the buffer, beyond it, with fragmented members - members drawn at random
GBatch  == /\ Go /\ R(2) = 1
           /\ \E n \in {R(4) - 1} : \E shs \in {[i \in 1..n |-> S(NameSeq[RandomElement(1..(Len(NameSeq) + i - i + Len(h) - Len(h)))])]} :
                 AppendBatch(shs) /\ h' = Append(h, Step("batch", shs, IF n = 0 THEN 0 ELSE next, "none"))
GRotate == Go /\ R(3) = 1 /\ NewFile /\ h' = Append(h, Step("rotate", <<>>, 0, "disk"))
GSync   == Go /\ R(3) = 1 /\ Sync /\ h' = Append(h, Step("sync", <<>>, 0, "disk"))
GFrom   == Go /\ R(4) = 1 /\ Sync /\ h' = Append(h, Step("from", <<>>, 0, "from"))
GClose  == Go /\ R(4) = 1 /\ Close /\ h' = Append(h, Step("close", <<>>, 0, "disk"))
GReuse  == Go /\ Reuse /\ h' = Append(h, Step("reuse", <<>>, 0, "disk"))
GNewLog == Go /\ ReopenNew /\ h' = Append(h, Step("newlog", <<>>, 0, "disk"))

(* ---- boundary sweep: every payload length of the ranges, as a put (value carries the length) and as a delete
        (key carries it), appended singly and in pairs, over several files ---- *)
NoRanges == {}
BoundaryRanges == {<<32700, 32800>>, <<65480, 65560>>}      \* around one and two full records
TinyRanges == {<<32766, 32770>>}                             \* for the self-test of the sweep machinery
RangeSeq(r) == [i \in 1..(r[2] - r[1] + 1) |-> r[1] + i - 1]
RECURSIVE Concat(_)
Concat(T) == IF T = {} THEN <<>> ELSE LET r == CHOOSE x \in T : \A y \in T : x[1] <= y[1] IN RangeSeq(r) \o Concat(T \ {r})
Lengths == Concat(SweepRanges)
SweepShape(j) == LET L == Lengths[(j + 1) \div 2] IN
                 IF j % 2 = 1 THEN [n |-> "sweep", op |-> "put", k |-> 8, v |-> L - EntryHdr - 8 - 4]
                 ELSE [n |-> "sweep", op |-> "del", k |-> L - EntryHdr, v |-> 0]
SweepN == 2 * Len(Lengths)
(* ---- alignment sweep (SweepRanges = AlignRanges): every file starts with one large delete whose end offset runs through
        the range around 65536 bytes - the size of the reader's buffer - so that the header of the small record behind it
        starts 0, 1, 2, ... bytes in front of / behind that boundary; two more small entries, then the next file ---- *)
AlignRanges == {<<0, 0>>}
AlignMode == SweepRanges = AlignRanges
AlignPads == 40                                   \* payloads 65490 .. 65529 of the leading delete
AlignLen == 4 * AlignPads
GAlign == /\ Sweep /\ AlignMode /\ ~done /\ Len(h) < AlignLen /\ done' = done
          /\ LET i == Len(h) + 1
                 r == (i - 1) \div 4
                 ph == (i - 1) % 4
                 pad == [n |-> "sweep", op |-> "del", k |-> 65490 + r - EntryHdr, v |-> 0]
             IN IF ph = 0 THEN AppendOne(pad) /\ h' = Append(h, Step("append", <<pad>>, next, "none"))
                ELSE IF ph = 1 THEN AppendOne(S("small")) /\ h' = Append(h, Step("append", <<S("small")>>, next, "none"))
                ELSE IF ph = 2 THEN AppendOne(S("put11")) /\ h' = Append(h, Step("append", <<S("put11")>>, next, "none"))
                ELSE NewFile /\ h' = Append(h, Step("rotate", <<>>, 0, "disk"))

GSweep == /\ Sweep /\ ~AlignMode /\ ~done /\ Len(appended) < SweepN /\ done' = done
          /\ LET j == Len(appended) + 1 IN
             IF j % 60 = 0 /\ h # <<>> /\ h[Len(h)].a # "rotate"
             THEN NewFile /\ h' = Append(h, Step("rotate", <<>>, 0, "disk"))
             ELSE IF j % 7 = 0 /\ j + 1 <= SweepN
             THEN AppendBatch(<<SweepShape(j), SweepShape(j + 1)>>)
                  /\ h' = Append(h, Step("batch", <<SweepShape(j), SweepShape(j + 1)>>, next, "none"))
             ELSE AppendOne(SweepShape(j)) /\ h' = Append(h, Step("append", <<SweepShape(j)>>, next, "none"))

\* printed once per behaviour, with two final observations (taken after a Sync if the log is open)
Final(o) == [a |-> "final", sh |-> <<>>, seq |-> 0, next |-> next, o |-> o,
             rep |-> IF o = "disk" THEN Ids(Replay) ELSE <<>>,
             per |-> IF o = "disk" THEN [f \in 1..Len(files) |-> LET r == ReadFile(f) IN [i \in 1..Len(r.out) |-> r.out[i].id]] ELSE <<>>,
             from |-> IF o = "from" THEN [j \in 1..(next + 2) |-> LET es == EntriesFrom(j - 1) IN [i \in 1..Len(es) |-> es[i].id]] ELSE <<>>,
             nrec |-> <<>>]
GEmit == /\ ~done /\ (IF Sweep THEN (IF AlignMode THEN Len(h) = AlignLen ELSE Len(appended) = SweepN) ELSE Len(h) = GenLen)
         /\ PrintT(<<"BEHAVIOUR", ToJson(h \o <<Final("disk"), Final("from")>>)>>)
         /\ done' = TRUE /\ UNCHANGED <<wvars, h>>

GNext == GEmit \/ GAppend \/ GBatch \/ GRotate \/ GSync \/ GFrom \/ GClose \/ GReuse \/ GNewLog \/ GSweep \/ GAlign
GSpec == GInit /\ [][GNext]_gvars
=============================================================================
