SPECIFICATION Spec
CONSTANTS
  OldOrder = FALSE
  SyncNotify = FALSE
  UnregUnderRead = TRUE
  HbLeak = FALSE
  ResendHoldsSession = FALSE
  RetentionHoldsRead = FALSE
INVARIANTS LocksConsistent
PROPERTIES WriteReturns AllReturn
CHECK_DEADLOCK TRUE
