SPECIFICATION Spec
CONSTANTS
  Clients = {"c1", "c2", "c3"}
  Keys = {"k1", "k2"}
  Vals = {"v1"}
  MaxTx = 4
  MaxWrites = 2
  Registry = FALSE
INVARIANT Inv
PROPERTY CommitIsOneStep
PROPERTY RollbackLeavesNoTrace
PROPERTY UnlockByHolder
CHECK_DEADLOCK FALSE
