SPECIFICATION GSpec
CONSTANTS
  Keys = {"k1", "k2", "k3"}
  Vals = {"v1", "v2", "v3"}
  SyncMode = "imm"
  MaxOps = 10
  MaxBatch = 3
  MaxImm = 3
  MaxFiles = 8
  MaxCrash = 0
  MaxLevel = 2
  GenLen = 9
  AllowRetire = FALSE
CHECK_DEADLOCK FALSE
