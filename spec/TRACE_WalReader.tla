--------------------------- MODULE TRACE_WalReader ---------------------------
(* Validation of the log-damage enumeration run on the real code (C10).  The harness writes a log with the real writer,
   damages one copy per fault, and records per fault ONE line: the damage descriptor (class and record index, derived
   from the record layout it wrote), what wal.ReplayWALDir delivered (entry numbers; 0 = matches no appended entry in
   type, key, value and number), whether engine.NewEngineFacade succeeded, what every key read as, the same after
   further acknowledged writes (at that moment also what WAL.GetEntriesFrom(1) returns through the live log - what a
   primary serves to a joining replica) + clean close + second open, and whether the undamaged files are still in place.
   A "log" line carries the layout the following "fault" lines refer to.  Every fault line is judged with the
   operators of KevoWalReader (Required, IsPrefix, IsSubSeq, StateAfter); the verdicts are printed as
   <<"REJECT", line, {reasons}>> and the run is accepted by the POSTCONDITION once every line has been judged. *)
EXTENDS Integers, Sequences, Json, TLC

\* only the pure operators of KevoWalReader are used here: its reader variables are not part of a recorded outcome
R == INSTANCE KevoWalReader WITH MaxEntries <- 0, Parts <- {1}, MaxPost <- 0, orig <- 0, dmg <- 0, disk <- 0, phase <- 0,
                                 rf <- 0, rp <- 0, frags <- 0, deliv <- 0, unclean <- 0, d1 <- 0, post <- 0
IdsOfDir(d, f) == R!IdsOfDir(d, f)
Required(d, g) == R!Required(d, g)
IsPrefix(s, t) == R!IsPrefix(s, t)
IsSubSeq(s, t) == R!IsSubSeq(s, t)
SeqToSet(s) == R!SeqToSet(s)
StateAfter(ds, kv, ks) == R!StateAfter(ds, kv, ks)

VARIABLES l,      \* position in the trace
          cur     \* the "log" line in force

Trace == ndJsonDeserialize("trace.ndjson")
tvars == <<l, cur>>

Files(L)   == L.files                                   \* Seq of Seq of [t, e, p, n]
OrigIds(L) == IdsOfDir(Files(L), 1)
PostIds(L) == [i \in 1..L.npost |-> Len(OrigIds(L)) + i]
Keys(L)    == SeqToSet(L.keys)
Known(L, ds) == \A i \in 1..Len(ds) : ds[i] \in 1..Len(L.kv)

StateIs(L, ds, st) == \A k \in Keys(L) : st[k] = StateAfter(ds, L.kv, Keys(L))[k]

Reasons(L, F) ==
  LET req == Required(Files(L), F.dmg)
      all2 == OrigIds(L) \o PostIds(L)
  IN  (IF ~F.open1 THEN {"open1: opening the damaged directory failed"} ELSE {})
  \cup (IF ~IsPrefix(req, F.d1) THEN {"prefix1: an entry wholly in front of the damage was not delivered"} ELSE {})
  \cup (IF ~IsSubSeq(F.d1, OrigIds(L)) THEN {"subseq1: delivered entries are not a subsequence of the appended ones"} ELSE {})
  \cup (IF F.open1 /\ Known(L, F.d1) /\ ~StateIs(L, F.d1, F.st1) THEN {"state1: the opened engine does not show the delivered entries"} ELSE {})
  \cup (IF F.open1 /\ ~F.acked THEN {"ack: a write after the recovery failed"} ELSE {})
  \cup (IF F.open1 /\ F.acked /\ ~F.open2 THEN {"open2: the second opening failed"} ELSE {})
  \cup (IF F.open1 /\ F.acked /\ ~IsPrefix(req, F.d2) THEN {"prefix2: an entry in front of the damage is gone after the second opening"} ELSE {})
  \cup (IF F.open1 /\ F.acked /\ ~IsSubSeq(F.d2, all2) THEN {"subseq2: second replay is not a subsequence of the appended entries"} ELSE {})
  \cup (IF F.open1 /\ F.acked /\ ~(Len(F.d2) >= L.npost /\ SubSeq(F.d2, Len(F.d2) - L.npost + 1, Len(F.d2)) = PostIds(L))
        THEN {"post2: writes acknowledged after the recovery are not delivered by the next replay"} ELSE {})
  \cup (IF F.open1 /\ F.acked /\ F.open2 /\ Known(L, F.d2) /\ ~StateIs(L, F.d2, F.st2) THEN {"state2: the engine after the second opening does not show the delivered entries"} ELSE {})
  \cup (IF F.open1 /\ F.acked /\ (~F.gok \/ F.g # F.d2)
        THEN {"from1: reading the live log from sequence 1 does not yield what a replay of the directory yields"} ELSE {})
  \cup (IF ~F.kept THEN {"kept: an undamaged log file was removed or changed"} ELSE {})

TInit == TLCSet(1, 0) /\ l = 1 /\ cur = [e |-> "none"]

TLog == /\ l <= Len(Trace) /\ Trace[l].e = "log"
        /\ cur' = Trace[l] /\ l' = l + 1
TFault == /\ l <= Len(Trace) /\ Trace[l].e = "fault" /\ cur.e = "log"
          /\ LET rs == Reasons(cur, Trace[l]) IN rs # {} => PrintT(<<"REJECT", l, rs>>)
          /\ l' = l + 1 /\ UNCHANGED cur

TNext == TLog \/ TFault
TSpec == TInit /\ [][TNext]_tvars

HighWater == IF l > TLCGet(1) THEN TLCSet(1, l) ELSE TRUE
Accepted == /\ PrintT(<<"HIGHWATER", TLCGet(1)>>)
            /\ TLCGet(1) = Len(Trace) + 1
=============================================================================
