SPECIFICATION Spec
CONSTANTS
  DataKeys = {2, 4}
  Targets = {2, 3}
  SeqNums = {1, 3}
  Payloads = {"v1"}
  MaxIns = 2
  MaxH = 2
  Readers = {1, 2}
  RStartMin = 0
  ROps = {"find", "seek", "first"}
  ImmMidInsert = TRUE
  PublishFirst = FALSE
  TopDown = FALSE
  Reload = "recheck"
INVARIANTS TypeOK Level0Sorted LevelsAreSublists FindReturnsMaxSeq ReaderSeesAtLeastPrefix ImmutableNeverChanges
CHECK_DEADLOCK FALSE
