SPECIFICATION GSpec
CONSTANTS
  Replicas = {"r1"}
  MaxLog = 10
  MaxBatch = 3
  Chunk = 2
  MaxNet = 4
  MaxQ = 6
  MaxFaults = 6
  MaxDown = 3
  MaxRot = 0
  MaxStall = 0
  RotateFollows = TRUE
  WholeBatches = TRUE
  PollRereads = TRUE
  GenLen = 24
  MinLen = 6
CHECK_DEADLOCK FALSE
