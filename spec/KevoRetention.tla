---------------------------- MODULE KevoRetention ----------------------------
(***************************************************************************)
(* Log retention on a replication primary against durability (C02, with    *)
(* C14's "a joining replica is served the whole log" as a by-product).     *)
(*                                                                         *)
(* kevo's storage engine never deletes a log file.  The only code that     *)
(* does is the primary's retention: every Acknowledge request of a         *)
(* replication client ends in Primary.maybeManageWALRetention ->           *)
(* WAL.ManageRetention, which removes the log files (never the current     *)
(* one) whose highest sequence number is below the smallest acknowledged   *)
(* one.  What the replicas have acknowledged says nothing about what the   *)
(* primary itself has moved into table files: a log file may be the only   *)
(* durable copy of entries that live in memory tables.  After the repair   *)
(* the engine tells the log from which sequence number on entries may be   *)
(* in no table file (WAL.SetUnflushedFrom) and retention keeps every file  *)
(* that reaches it.  Guard = FALSE is the code before the repair.          *)
(*                                                                         *)
(* Data is abstracted to sequence numbers: entry s is "put k_s = v_s".     *)
(* Grain: one action per engine call / request handler; the memtable's     *)
(* own counter (MemTable.nextSeqNum, which the flush reads) is modelled    *)
(* with its real update rule "if s > next then next := s + 1".             *)
(***************************************************************************)
EXTENDS Integers, Sequences, FiniteSets, TLC

CONSTANTS MaxSeq,     \* number of writes
          MaxCrash,   \* number of crashes
          Guard,      \* TRUE: retention respects unflushedFrom (repaired code)
          Tiny        \* TRUE: every write fills the memory table (switch + background flush of the immutable tables)

VARIABLES
  files,    \* log files in name order, each a set of sequence numbers (contiguous); the last one is current while up
  torn,     \* the newest file ends in a record cut short (a crash during an append)
  mem,      \* sequence numbers readable from memory tables
  tab,      \* sequence numbers stored in table files
  mnext,    \* MemTable.nextSeqNum of the active table
  uf,       \* WAL.unflushedFrom (0 = not tracked)
  ack,      \* highest sequence number acknowledged by the replication client in this life (0 none)
  next,     \* next sequence number of the log
  up, crashes

vars == <<files, torn, mem, tab, mnext, uf, ack, next, up, crashes>>

Max(S) == IF S = {} THEN 0 ELSE CHOOSE x \in S : \A y \in S : x >= y
AllLogged == UNION {files[i] : i \in 1..Len(files)}
Bump(n, s) == IF s > n THEN s + 1 ELSE n            \* MemTable.Put / Delete / replay: nextSeqNum update

RECURSIVE Replayed(_, _)
Replayed(n, S) == IF S = {} THEN n ELSE LET s == CHOOSE x \in S : \A y \in S : x <= y IN Replayed(Bump(n, s), S \ {s})

Init == /\ files = <<{}>> /\ torn = FALSE /\ mem = {} /\ tab = {} /\ mnext = 0 /\ uf = 1 /\ ack = 0 /\ next = 1
        /\ up = TRUE /\ crashes = 0

\* FlushMemTables as seen from the log: a new current file; everything the flushed tables hold is in table files;
\* unflushedFrom moves to (nextSeqNum of the newest flushed table) - 1
FlushTo(n) == IF n > 1 /\ n - 1 > uf THEN n - 1 ELSE uf

\* Manager.Put, synchronous logging: appended to the current file, synced, inserted, acknowledged.
\* Tiny: the table is full -> scheduleFlush switches it, the background flush rotates the log and writes the table out
Put ==
  /\ up /\ next <= MaxSeq
  /\ LET s == next
         n2 == Bump(mnext, s)
     IN /\ next' = s + 1
        /\ IF Tiny
           THEN /\ files' = Append([files EXCEPT ![Len(files)] = @ \cup {s}], {})
                /\ mem' = {}                         \* the flushed table leaves the memory (its entries read from the table file)
                /\ tab' = tab \cup mem \cup {s}
                /\ mnext' = 0
                /\ uf' = FlushTo(n2)
           ELSE /\ files' = [files EXCEPT ![Len(files)] = @ \cup {s}]
                /\ mem' = mem \cup {s} /\ mnext' = n2
                /\ UNCHANGED <<tab, uf>>
  /\ UNCHANGED <<torn, ack, up, crashes>>

\* EngineFacade.FlushImMemTables with no immutable table: the active table is written out in place (and stays active)
Flush ==
  /\ up /\ ~Tiny /\ mem # {}
  /\ files' = Append(files, {})
  /\ tab' = tab \cup mem
  /\ uf' = FlushTo(mnext)
  /\ UNCHANGED <<torn, mem, mnext, ack, next, up, crashes>>

\* Acknowledge(n) from a replication client that has received everything up to n, followed by the retention pass
Deletable(i, n) == /\ i < Len(files)                       \* never the current file
                   /\ files[i] # {}                        \* bounds of an empty file cannot be determined: kept
                   /\ Max(files[i]) < n
                   /\ (Guard /\ uf > 0) => Max(files[i]) < uf
Keep(n) == LET idx == {i \in 1..Len(files) : ~Deletable(i, n)}
               F[k \in 0..Len(files)] == IF k = 0 THEN <<>> ELSE IF k \in idx THEN Append(F[k - 1], files[k]) ELSE F[k - 1]
           IN F[Len(files)]
Ack(n) ==
  /\ up /\ n \in 1..(next - 1) /\ n > ack
  /\ ack' = n
  /\ files' = Keep(n)
  /\ UNCHANGED <<torn, mem, tab, mnext, uf, next, up, crashes>>

\* the process dies; t: inside an append (a partial record is behind the last complete one).  Everything written was
\* synced (synchronous logging), so no entry is lost from the files
Die(t) ==
  /\ up /\ crashes < MaxCrash
  /\ up' = FALSE /\ crashes' = crashes + 1
  /\ torn' = t /\ mem' = {} /\ mnext' = 0 /\ ack' = 0
  /\ UNCHANGED <<files, tab, uf, next>>

\* NewManager: the newest file is reused unless it is damaged; every file is replayed into one memory table
Recover ==
  /\ ~up /\ up' = TRUE
  /\ files' = IF torn THEN Append(files, {}) ELSE files
  /\ torn' = FALSE
  /\ mem' = AllLogged
  \* Tiny: recovery starts a new table for every entry; the last one becomes the active table
  /\ mnext' = IF Tiny THEN Bump(0, Max(AllLogged)) ELSE Replayed(0, AllLogged)
  \* the numbering continues from what the LOG holds (kevo keeps no counter elsewhere)
  /\ next' = Max(AllLogged) + 1
  /\ uf' = 1
  /\ UNCHANGED <<tab, ack, crashes>>

Next == Put \/ Flush \/ (\E n \in 1..MaxSeq : Ack(n)) \/ (\E t \in BOOLEAN : Die(t)) \/ Recover
Spec == Init /\ [][Next]_vars

-----------------------------------------------------------------------------
Written == 1..(next - 1)
\* every acknowledged write is readable while up ...
ReadableWhileUp == up => Written \subseteq (mem \cup tab)
\* ... and, at every instant, stored in a table file or in a log file that recovery will replay (C02)
Recoverable == Written \subseteq (tab \cup AllLogged)
\* the numbering never goes back (C08 across retention)
NextAbove == up => next > Max(AllLogged \cup tab)
\* what the guard promises: below unflushedFrom everything is in table files
GuardSound == (up /\ uf > 0) => \A s \in Written : s < uf => s \in tab
\* retention is not dead: some file can be deleted (checked as a reachability claim by the negation below)
\* state constraint for model checking: repeated flushes keep creating (empty) log files
Bound == Len(files) <= MaxSeq + 2
NothingEverDeleted == Len(files) >= 1 /\ (\A s \in Written : s \in AllLogged)
=============================================================================
