---------------------------- MODULE KevoRetention ----------------------------
(***************************************************************************)
(* Log retention on a replication primary against durability (C02, with    *)
(* C14's "a joining replica is served the whole log" as a by-product).     *)
(*                                                                         *)
(* kevo's storage engine never deletes a log file.  The only code that     *)
(* does is the primary's retention: every Acknowledge request of a         *)
(* replication client ends in Primary.maybeManageWALRetention ->           *)
(* WAL.ManageRetention, which removes the log files (never the current     *)
(* one) whose highest sequence number is below the smallest acknowledged   *)
(* one.  What the replicas have acknowledged says nothing about what the   *)
(* primary itself has moved into table files: a log file may be the only   *)
(* durable copy of entries that live in memory tables.  After the repair   *)
(* the engine tells the log from which sequence number on entries may be   *)
(* in no table file (WAL.SetUnflushedFrom) and retention keeps every file  *)
(* that reaches it.  Guard = FALSE is the code before the repair.          *)
(*                                                                         *)
(* Data is abstracted to sequence numbers: entry s is "put k_s = v_s".     *)
(* Grain: one action per engine call / request handler; the memtable's     *)
(* own counter (MemTable.nextSeqNum, which the flush reads) is modelled    *)
(* with its real update rule "if s > next then next := s + 1".             *)
(***************************************************************************)
EXTENDS Integers, Sequences, FiniteSets, TLC

CONSTANTS MaxSeq,     \* number of writes
          MaxCrash,   \* number of crashes
          Guard,      \* TRUE: retention respects unflushedFrom (repaired code)
          Tiny,       \* TRUE: every write fills the memory table (switch + background flush of the immutable tables, at once)
          Queued      \* TRUE: a write may fill the table (a large value): the table is queued for the background flush, which runs
                      \* as a step of its own (the harness parks the goroutine at sm.flush.begin) - writes made in between go to
                      \* the SAME log file as the queued tables' entries but live in the new active table

VARIABLES
  files,    \* log files in name order, each a set of sequence numbers (contiguous); the last one is current while up
  torn,     \* the newest file ends in a record cut short (a crash during an append)
  mem,      \* sequence numbers readable from memory tables
  tab,      \* sequence numbers stored in table files
  mnext,    \* MemTable.nextSeqNum of the active table
  uf,       \* WAL.unflushedFrom (0 = not tracked)
  imq,      \* Queued: immutable tables waiting for the flush, oldest first, each [e: entries, n: its nextSeqNum]
  sig,      \* Queued: a signal is buffered in bgFlushCh (capacity 1)
  busy,     \* Queued: the background goroutine has taken a signal and stands at the start of FlushMemTables
  bigs,     \* Queued: the entries whose value fills a table
  afull,    \* Queued: the active table is full (the next write switches it whatever its size)
  ack,      \* highest sequence number acknowledged by the replication client in this life (0 none)
  next,     \* next sequence number of the log
  up, crashes

vars == <<files, torn, mem, tab, mnext, uf, imq, sig, busy, bigs, afull, ack, next, up, crashes>>

Max(S) == IF S = {} THEN 0 ELSE CHOOSE x \in S : \A y \in S : x >= y
AllLogged == UNION {files[i] : i \in 1..Len(files)}
Bump(n, s) == IF s > n THEN s + 1 ELSE n            \* MemTable.Put / Delete / replay: nextSeqNum update

RECURSIVE Replayed(_, _)
Replayed(n, S) == IF S = {} THEN n ELSE LET s == CHOOSE x \in S : \A y \in S : x <= y IN Replayed(Bump(n, s), S \ {s})

\* the tables recovery builds from the logged entries S: a table is closed behind an entry that fills it
RECURSIVE SplitT(_, _, _)
SplitT(S, cur, acc) ==
  IF S = {} THEN (IF cur = {} THEN acc ELSE Append(acc, cur))
  ELSE LET s == CHOOSE x \in S : \A y \in S : x <= y
       IN IF s \in bigs THEN SplitT(S \ {s}, {}, Append(acc, cur \cup {s})) ELSE SplitT(S \ {s}, cur \cup {s}, acc)

Init == /\ files = <<{}>> /\ torn = FALSE /\ mem = {} /\ tab = {} /\ mnext = 0 /\ uf = 1 /\ ack = 0 /\ next = 1
        /\ imq = <<>> /\ sig = FALSE /\ busy = FALSE /\ bigs = {} /\ afull = FALSE
        /\ up = TRUE /\ crashes = 0

\* FlushMemTables as seen from the log: a new current file; everything the flushed tables hold is in table files;
\* unflushedFrom moves to (nextSeqNum of the newest flushed table) - 1
FlushTo(n) == IF n > 1 /\ n - 1 > uf THEN n - 1 ELSE uf

\* Manager.Put, synchronous logging: appended to the current file, synced, inserted, acknowledged.
\* Tiny: the table is full -> scheduleFlush switches it, the background flush rotates the log and writes the table out
Queue == UNION {imq[i].e : i \in 1..Len(imq)}
Put ==
  /\ up /\ next <= MaxSeq /\ ~Queued
  /\ LET s == next
         n2 == Bump(mnext, s)
     IN /\ next' = s + 1
        /\ IF Tiny
           THEN /\ files' = Append([files EXCEPT ![Len(files)] = @ \cup {s}], {})
                /\ mem' = {}                         \* the flushed table leaves the memory (its entries read from the table file)
                /\ tab' = tab \cup mem \cup {s}
                /\ mnext' = 0
                /\ uf' = FlushTo(n2)
           ELSE /\ files' = [files EXCEPT ![Len(files)] = @ \cup {s}]
                /\ mem' = mem \cup {s} /\ mnext' = n2
                /\ UNCHANGED <<tab, uf>>
  /\ UNCHANGED <<torn, ack, up, crashes, imq, sig, busy, bigs, afull>>

\* Queued mode.  big: the value fills the table - scheduleFlush switches it (it joins the queue) and signals the background
\* goroutine: an idle goroutine takes the signal at once (busy), otherwise the signal is buffered if the buffer is empty
PutQ(big) ==
  /\ up /\ next <= MaxSeq /\ Queued
  /\ LET s == next
         n2 == Bump(mnext, s)
     IN /\ next' = s + 1
        /\ files' = [files EXCEPT ![Len(files)] = @ \cup {s}]
        /\ bigs' = IF big THEN bigs \cup {s} ELSE bigs
        /\ IF big \/ afull
           THEN /\ imq' = Append(imq, [e |-> mem \cup {s}, n |-> n2]) /\ mem' = {} /\ mnext' = 0 /\ afull' = FALSE
                /\ IF busy THEN sig' = TRUE /\ busy' = busy ELSE busy' = TRUE /\ sig' = sig
           ELSE /\ mem' = mem \cup {s} /\ mnext' = n2 /\ UNCHANGED <<imq, sig, busy, afull>>
  /\ UNCHANGED <<torn, tab, uf, ack, up, crashes>>

\* FlushMemTables, run by the background goroutine that stood at its start: the queued tables if there are any, else the active
\* table in place; a buffered signal makes the goroutine start over at once
BgRun ==
  /\ up /\ Queued /\ busy
  /\ IF imq # <<>>
     THEN /\ files' = Append(files, {}) /\ tab' = tab \cup Queue /\ uf' = FlushTo(imq[Len(imq)].n) /\ imq' = <<>>
     ELSE IF mem # {}
          THEN /\ files' = Append(files, {}) /\ tab' = tab \cup mem /\ uf' = FlushTo(mnext) /\ UNCHANGED imq
          ELSE UNCHANGED <<files, tab, uf, imq>>
  /\ IF sig THEN sig' = FALSE /\ busy' = TRUE ELSE busy' = FALSE /\ sig' = FALSE
  /\ UNCHANGED <<torn, mem, mnext, ack, next, up, crashes, bigs, afull>>

\* EngineFacade.FlushImMemTables with no immutable table: the active table is written out in place (and stays active)
Flush ==
  /\ up /\ ~Tiny /\ ~busy /\ (mem # {} \/ imq # <<>>)
  /\ files' = Append(files, {})
  /\ IF imq # <<>>                          \* (tables recovered from the log wait in the queue without a signal)
     THEN tab' = tab \cup Queue /\ uf' = FlushTo(imq[Len(imq)].n) /\ imq' = <<>>
     ELSE tab' = tab \cup mem /\ uf' = FlushTo(mnext) /\ UNCHANGED imq
  /\ UNCHANGED <<torn, mem, mnext, ack, next, up, crashes, sig, busy, bigs, afull>>

\* Acknowledge(n) from a replication client that has received everything up to n, followed by the retention pass
Deletable(i, n) == /\ i < Len(files)                       \* never the current file
                   /\ files[i] # {}                        \* bounds of an empty file cannot be determined: kept
                   /\ Max(files[i]) < n
                   /\ (Guard /\ uf > 0) => Max(files[i]) < uf
Keep(n) == LET idx == {i \in 1..Len(files) : ~Deletable(i, n)}
               F[k \in 0..Len(files)] == IF k = 0 THEN <<>> ELSE IF k \in idx THEN Append(F[k - 1], files[k]) ELSE F[k - 1]
           IN F[Len(files)]
Ack(n) ==
  /\ up /\ n \in 1..(next - 1) /\ n > ack
  /\ ack' = n
  /\ files' = Keep(n)
  /\ UNCHANGED <<torn, mem, tab, mnext, uf, next, up, crashes, imq, sig, busy, bigs, afull>>

\* WAL.ManageRetention with the file-count policy (MaxFileCount = 1: "keep the current file only"), as an operator of the
\* database may call it: every other file goes - unless it reaches unflushedFrom
DeletableC(i) == /\ i < Len(files)
                 /\ (Guard /\ uf > 0) => (files[i] # {} /\ Max(files[i]) < uf)    \* (an empty file has unknown bounds: kept)
KeepC == LET idx == {i \in 1..Len(files) : ~DeletableC(i)}
             F[k \in 0..Len(files)] == IF k = 0 THEN <<>> ELSE IF k \in idx THEN Append(F[k - 1], files[k]) ELSE F[k - 1]
         IN F[Len(files)]
RetainCount ==
  /\ up /\ Len(files) > 1
  /\ files' = KeepC
  /\ UNCHANGED <<torn, mem, tab, mnext, uf, next, up, crashes, imq, sig, busy, bigs, afull, ack>>

\* the process dies; t: inside an append (a partial record is behind the last complete one).  Everything written was
\* synced (synchronous logging), so no entry is lost from the files
Die(t) ==
  /\ up /\ crashes < MaxCrash
  /\ up' = FALSE /\ crashes' = crashes + 1
  /\ torn' = t /\ mem' = {} /\ mnext' = 0 /\ ack' = 0
  /\ imq' = <<>> /\ sig' = FALSE /\ busy' = FALSE /\ afull' = FALSE
  /\ UNCHANGED <<files, tab, uf, next, bigs>>

\* NewManager: the newest file is reused unless it is damaged; every file is replayed into one memory table
Recover ==
  /\ ~up /\ up' = TRUE
  /\ files' = IF torn THEN Append(files, {}) ELSE files
  /\ torn' = FALSE
  \* memtable.RecoverFromWAL starts a new table when the current one is full; the last table becomes the active one, the others
  \* wait in the immutable list (nothing signals the background flush).  Tiny: one table per entry
  /\ LET T == SplitT(AllLogged, {}, <<>>)
     IN IF Queued /\ Len(T) > 0
        THEN /\ imq' = [i \in 1..(Len(T) - 1) |-> [e |-> T[i], n |-> Replayed(0, T[i])]]
             /\ mem' = T[Len(T)] /\ mnext' = Replayed(0, T[Len(T)])
             /\ afull' = (Max(T[Len(T)]) \in bigs)
        ELSE /\ mem' = AllLogged /\ UNCHANGED <<imq, afull>>
             /\ mnext' = IF Tiny THEN Bump(0, Max(AllLogged)) ELSE Replayed(0, AllLogged)
  \* the numbering continues from what the LOG holds (kevo keeps no counter elsewhere)
  /\ next' = Max(AllLogged) + 1
  /\ uf' = 1
  /\ UNCHANGED <<tab, ack, crashes, sig, busy, bigs>>

Next == Put \/ (\E big \in BOOLEAN : PutQ(big)) \/ BgRun \/ Flush \/ RetainCount \/ (\E n \in 1..MaxSeq : Ack(n)) \/ (\E t \in BOOLEAN : Die(t)) \/ Recover
Spec == Init /\ [][Next]_vars

-----------------------------------------------------------------------------
Written == 1..(next - 1)
\* every acknowledged write is readable while up ...
ReadableWhileUp == up => Written \subseteq (mem \cup Queue \cup tab)
\* ... and, at every instant, stored in a table file or in a log file that recovery will replay (C02)
Recoverable == Written \subseteq (tab \cup AllLogged)
\* the numbering never goes back (C08 across retention)
NextAbove == up => next > Max(AllLogged \cup tab)
\* what the guard promises: below unflushedFrom everything is in table files
GuardSound == (up /\ uf > 0) => \A s \in Written : s < uf => s \in tab
\* retention is not dead: some file can be deleted (checked as a reachability claim by the negation below)
\* state constraint for model checking: repeated flushes keep creating (empty) log files
Bound == Len(files) <= MaxSeq + 2
NothingEverDeleted == Len(files) >= 1 /\ (\A s \in Written : s \in AllLogged)
=============================================================================
