SPECIFICATION TSpec
CONSTANTS
  TKeys = {"k1", "k2", "k3"}
  KF_RestartFromOne = FALSE
  KF_StallBlocksWrite = FALSE
  KF_StallNotDropped = FALSE
CONSTRAINT HighWater
POSTCONDITION Accepted
CHECK_DEADLOCK FALSE
