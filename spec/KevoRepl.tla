------------------------------ MODULE KevoRepl ------------------------------
(* Replication as log-prefix shipping (C13, C14, C15) - the INTENDED design, written at the grain of
   pkg/replication (primary.go, batch.go, replica.go, heartbeat.go, manager.go).

   The primary's log `plog` is a sequence of sequence numbers: entry i of the primary's write history carries
   plog[i]; equal neighbours form ONE batch (wal.AppendBatch gives all entries of a transaction one number).
   A stream message is a contiguous range <<lo, hi>> of log indexes.  Four senders ship ranges to a replica:
   push (observer of the log, one message per written batch), poll (timer, from lastAck + 1, at most Chunk
   entries), initial (at stream start, from the requested position) and resend (after a negative
   acknowledgement).  They overlap arbitrarily; the stream may lose, duplicate and reorder messages (bounded:
   that is how abandoned Recv goroutines, overlapping streams and retransmissions look to the applier).

   Positions the specification takes where the code has none (DESIGN.md C13):
     * acceptance rule of the applier: the first entry of a message carries the expected number, every step
       inside the message is +0 (same batch) or +1, afterwards expected = last + 1; anything else is a gap:
       nothing of the message is applied, a negative acknowledgement asks for a resend from `expected`;
     * every sender ships WHOLE BATCHES ONLY (a chunk ends at a batch boundary);
     * the requested start position of a stream is the first number the replica still needs (expected), and
       the session's acknowledged position starts right below it;
     * a restarted replica continues from what it has applied (not from 1);
     * the observer of the log follows the log object across rotations;
     * PWrite never waits for a replica: sending is a separate action working off a bounded per-session
       backlog whose overflow disconnects the session. *)
EXTENDS Integers, Sequences, FiniteSets, TLC

CONSTANTS Replicas,      \* set of replica ids
          MaxLog,        \* bound: entries in the primary log
          MaxBatch,      \* bound: entries per batch (1 = single put/delete)
          Chunk,         \* entries per polled / initial / resent message (a single larger batch is still sent whole)
          MaxNet,        \* capacity of one stream (socket + HTTP/2 window): senders wait when it is full
          MaxQ,          \* per-session push backlog (entries) whose overflow disconnects the session
          MaxFaults,     \* bound: Lose + Dup + Reorder
          MaxDown,       \* bound: Disconnect + RRestart
          MaxRot,        \* bound: log rotations
          MaxStall,      \* bound: replicas that stop reading for good
          RotateFollows, \* TRUE = intended design; FALSE = the observer stays on the first log object (sensitivity)
          WholeBatches,  \* TRUE = intended design; FALSE = chunks may end inside a batch (sensitivity)
          PollRereads    \* TRUE = intended design: the catch-up poll of a stream looks up the CURRENT log object at every round;
                         \* FALSE = it keeps the log object it saw when the stream was opened (sensitivity)

VARIABLES plog,      \* primary log: Seq of sequence numbers
          wr,        \* 0 = no primary write in progress, n > 0 = a write of n entries was invoked and has not returned
          stop,      \* the primary accepts no more writes (quiescence of C14)
          gen, obs,  \* current log object / log object the primary observes and polls
          sess,      \* per replica: [conn, start, lastAck, pushed, h]   (primary side: ReplicaSession; h = the log object the
                     \* stream's catch-up poll reads, looked up again at every poll in the intended design)
          net,       \* per replica: FIFO of messages <<lo, hi>> in flight on its stream
          inmsg,     \* per replica: message handed to the applier (<<>> = none)
          expected,  \* per replica: next expected sequence number   (WALBatchApplier.expectedNextSeq)
          applied,   \* per replica: Seq of log indexes handed to the WALEntryApplier, in order
          reported,  \* per replica: Replica.GetLastAppliedSequence
          rstate,    \* per replica: "down" (CONNECTING/ERROR), "stream", "apply", "ack", "nack"
          resend,    \* per replica: 0 or the sequence number a negative acknowledgement asked for
          initp,     \* per replica: initial send still pending on the new stream
          stall,     \* per replica: stopped reading its stream for good
          faults, downs

vars == <<plog, wr, stop, gen, obs, sess, net, inmsg, expected, applied, reported, rstate, resend, initp, stall, faults, downs>>
pvars == <<plog, wr, stop, gen, obs>>

Last(s) == s[Len(s)]
Min(S) == CHOOSE x \in S : \A y \in S : x <= y
Max(a, b) == IF a >= b THEN a ELSE b
NextSeq == IF plog = <<>> THEN 1 ELSE Last(plog) + 1
SeqAt(n) == IF n = 0 THEN 0 ELSE plog[n]                      \* number of the n-th entry (0 for the empty prefix)
BatchStart(i) == i = 1 \/ plog[i - 1] # plog[i]
BatchEnd(i) == i = Len(plog) \/ plog[i + 1] # plog[i]
EndOfBatch(i) == Min({j \in i..Len(plog) : BatchEnd(j)})
FirstIdx(s) == LET c == {i \in DOMAIN plog : plog[i] >= s} IN IF c = {} THEN 0 ELSE Min(c)
Iota(lo, hi) == [i \in 1..(hi - lo + 1) |-> lo + i - 1]

\* messages a sender may ship when asked for "everything from sequence number s": they start at the first entry with
\* that number and end at a batch boundary after at most Chunk entries (one oversized batch still travels whole)
Msgs(s) == LET lo == FirstIdx(s) IN
           IF lo = 0 THEN {}
           ELSE {<<lo, hi>> : hi \in {h \in lo..Len(plog) : /\ (WholeBatches => BatchEnd(h))
                                                             /\ (h - lo + 1 <= Chunk \/ (WholeBatches /\ h = EndOfBatch(lo)))}}
Room(r) == Len(net[r]) < MaxNet
Live(r) == sess[r].conn /\ obs = gen                           \* the session is served by a sender that sees the log

Init == /\ plog = <<>> /\ wr = 0 /\ stop = FALSE /\ gen = 0 /\ obs = 0
        /\ sess = [r \in Replicas |-> [conn |-> FALSE, start |-> 1, lastAck |-> 0, pushed |-> 0, h |-> 0]]
        /\ net = [r \in Replicas |-> <<>>] /\ inmsg = [r \in Replicas |-> <<>>]
        /\ expected = [r \in Replicas |-> 1] /\ applied = [r \in Replicas |-> <<>>]
        /\ reported = [r \in Replicas |-> 0] /\ rstate = [r \in Replicas |-> "down"]
        /\ resend = [r \in Replicas |-> 0] /\ initp = [r \in Replicas |-> FALSE]
        /\ stall = [r \in Replicas |-> FALSE] /\ faults = 0 /\ downs = 0

rvars == <<sess, net, inmsg, expected, applied, reported, rstate, resend, initp, stall, faults, downs>>

---------------------------------------------------------------------------------------------------------------
(* Primary: client writes.  PInvoke/PWriteDo are Engine.Put / Delete (n = 1: PWrite) and Transaction.Commit
   (n >= 2: PBatch).  PWriteDo has NO guard on net, stall or sess (C15). *)
PInvoke(n) == /\ ~stop /\ wr = 0 /\ Len(plog) + n <= MaxLog
              /\ wr' = n /\ UNCHANGED <<plog, stop, gen, obs, rvars>>
PWriteDo   == /\ wr > 0
              /\ plog' = plog \o [i \in 1..wr |-> NextSeq]
              /\ wr' = 0 /\ UNCHANGED <<stop, gen, obs, rvars>>
PStop      == ~stop /\ wr = 0 /\ stop' = TRUE /\ UNCHANGED <<plog, wr, gen, obs, rvars>>
\* flush: the storage manager replaces the log object; the observer (and the poller) must follow it
PRotate    == /\ gen < MaxRot /\ wr = 0
              /\ gen' = gen + 1 /\ obs' = IF RotateFollows THEN gen + 1 ELSE obs
              /\ UNCHANGED <<plog, wr, stop, rvars>>

(* Primary: senders.  Each needs room on the stream; none is part of a client write. *)
Send(r, m) == net' = [net EXCEPT ![r] = Append(@, m)]
PushSend(r) == /\ Live(r) /\ Room(r) /\ sess[r].pushed < Len(plog)
               /\ LET lo == sess[r].pushed + 1
                      hi == IF WholeBatches THEN EndOfBatch(lo) ELSE lo IN
                  /\ Send(r, <<lo, hi>>)
                  /\ sess' = [sess EXCEPT ![r].pushed = hi]
               /\ UNCHANGED <<pvars, inmsg, expected, applied, reported, rstate, resend, initp, stall, faults, downs>>
\* the catch-up poll: look up the log object (the current one, or - sensitivity - the one of the stream's start), ask it
\* whether there is anything behind the acknowledged position; a log object that has been rotated away has nothing new.
\* (With PollRereads the handle is not a piece of state - every round reads gen - so h stays 0 and costs no states.)
PollSend(r) == /\ Live(r) /\ Room(r)
               /\ (PollRereads \/ sess[r].h = gen)
               /\ \E m \in Msgs(sess[r].lastAck + 1) : Send(r, m)
               /\ UNCHANGED <<pvars, sess, inmsg, expected, applied, reported, rstate, resend, initp, stall, faults, downs>>
InitialSend(r) == /\ Live(r) /\ Room(r) /\ initp[r]
                  /\ IF Msgs(sess[r].start) = {} THEN UNCHANGED net ELSE \E m \in Msgs(sess[r].start) : Send(r, m)
                  /\ initp' = [initp EXCEPT ![r] = FALSE]
                  /\ UNCHANGED <<pvars, sess, inmsg, expected, applied, reported, rstate, resend, stall, faults, downs>>
Resend(r) == /\ Live(r) /\ Room(r) /\ resend[r] > 0
             /\ IF Msgs(resend[r]) = {} THEN UNCHANGED net ELSE \E m \in Msgs(resend[r]) : Send(r, m)
             /\ resend' = [resend EXCEPT ![r] = 0]
             /\ UNCHANGED <<pvars, sess, inmsg, expected, applied, reported, rstate, initp, stall, faults, downs>>

(* The stream: bounded loss, duplication, reordering. *)
Lose(r) == /\ faults < MaxFaults /\ \E i \in DOMAIN net[r] :
                net' = [net EXCEPT ![r] = SubSeq(@, 1, i - 1) \o SubSeq(@, i + 1, Len(@))]
           /\ faults' = faults + 1
           /\ UNCHANGED <<pvars, sess, inmsg, expected, applied, reported, rstate, resend, initp, stall, downs>>
Dup(r) == /\ faults < MaxFaults /\ Room(r) /\ \E i \in DOMAIN net[r] : Send(r, net[r][i])
          /\ faults' = faults + 1
          /\ UNCHANGED <<pvars, sess, inmsg, expected, applied, reported, rstate, resend, initp, stall, downs>>
Reorder(r) == /\ faults < MaxFaults /\ \E i \in 1..(Len(net[r]) - 1) :
                   /\ net[r][i] # net[r][i + 1]
                   /\ net' = [net EXCEPT ![r] = [@ EXCEPT ![i] = net[r][i + 1], ![i + 1] = net[r][i]]]
              /\ faults' = faults + 1
              /\ UNCHANGED <<pvars, sess, inmsg, expected, applied, reported, rstate, resend, initp, stall, downs>>

(* Replica: receive, apply all-or-gap, acknowledge. *)
Deliver(r) == /\ rstate[r] = "stream" /\ sess[r].conn /\ ~stall[r] /\ net[r] # <<>>
              /\ inmsg' = [inmsg EXCEPT ![r] = Head(net[r])]
              /\ net' = [net EXCEPT ![r] = Tail(@)]
              /\ rstate' = [rstate EXCEPT ![r] = "apply"]
              /\ UNCHANGED <<pvars, sess, expected, applied, reported, resend, initp, stall, faults, downs>>
MsgSeqs(m) == [i \in 1..(m[2] - m[1] + 1) |-> plog[m[1] + i - 1]]
Accepts(e, m) == LET s == MsgSeqs(m) IN s[1] = e /\ \A i \in 2..Len(s) : s[i] \in {s[i - 1], s[i - 1] + 1}
ApplyBatch(r) == /\ rstate[r] = "apply"
                 /\ LET m == inmsg[r] IN
                    IF Accepts(expected[r], m)
                    THEN /\ applied' = [applied EXCEPT ![r] = @ \o Iota(m[1], m[2])]
                         /\ expected' = [expected EXCEPT ![r] = plog[m[2]] + 1]
                         /\ rstate' = [rstate EXCEPT ![r] = "ack"]
                    ELSE /\ rstate' = [rstate EXCEPT ![r] = "nack"]
                         /\ UNCHANGED <<applied, expected>>
                 /\ inmsg' = [inmsg EXCEPT ![r] = <<>>]
                 /\ UNCHANGED <<pvars, sess, net, reported, resend, initp, stall, faults, downs>>
\* The WALEntryApplier callback (the replica's engine) - or the decoding of an entry - fails at entry j of a message
\* the applier has ACCEPTED (Replica.processEntries returns the error, the state machine goes to ERROR, the stream is
\* given up and a new one is opened after the back-off).  Entries m[1]..j-1 have reached the engine, but NOTHING of the
\* message counts: expected, the applied position and the reported sequence stay where they were, so that the new
\* stream asks for the whole message again and the retry re-applies it from its first entry (puts and deletes are
\* idempotent; the half-applied message is overwritten in log order).  A named deviation from "applied is a prefix at
\* every moment": between ApplyFail and the retry the engine holds entries the counters do not know of (DESIGN.md C13);
\* what the specification insists on is that the counters never run ahead of what is completely applied - a counter
\* advanced entry by entry would skip the rest of a transaction (its entries share one number) for good.
\* `applied` is the sequence of entries that COUNT; the callback's partial hand-over is recorded by GEN_Repl!GApplyFail.
ApplyFail(r) == /\ rstate[r] = "apply" /\ faults < MaxFaults
                /\ Accepts(expected[r], inmsg[r])
                /\ faults' = faults + 1
                /\ inmsg' = [inmsg EXCEPT ![r] = <<>>]
                /\ rstate' = [rstate EXCEPT ![r] = "down"]
                /\ sess' = [sess EXCEPT ![r].conn = FALSE]
                /\ net' = [net EXCEPT ![r] = <<>>]
                /\ resend' = [resend EXCEPT ![r] = 0] /\ initp' = [initp EXCEPT ![r] = FALSE]
                /\ UNCHANGED <<pvars, expected, applied, reported, stall, downs>>
Ack(r) == /\ rstate[r] = "ack"
          /\ reported' = [reported EXCEPT ![r] = expected[r] - 1]
          /\ sess' = IF sess[r].conn THEN [sess EXCEPT ![r].lastAck = Max(@, expected[r] - 1)] ELSE sess
          /\ rstate' = [rstate EXCEPT ![r] = "stream"]
          /\ UNCHANGED <<pvars, net, inmsg, expected, applied, resend, initp, stall, faults, downs>>
Nack(r) == /\ rstate[r] = "nack"
           /\ resend' = IF sess[r].conn THEN [resend EXCEPT ![r] = expected[r]] ELSE resend
           /\ rstate' = [rstate EXCEPT ![r] = "stream"]
           /\ UNCHANGED <<pvars, sess, net, inmsg, expected, applied, reported, initp, stall, faults, downs>>

(* Sessions. *)
Drop(r) == /\ sess' = [sess EXCEPT ![r].conn = FALSE]
           /\ net' = [net EXCEPT ![r] = <<>>]
           /\ resend' = [resend EXCEPT ![r] = 0] /\ initp' = [initp EXCEPT ![r] = FALSE]
Disconnect(r) == /\ sess[r].conn /\ downs < MaxDown /\ Drop(r) /\ downs' = downs + 1
                 /\ UNCHANGED <<pvars, inmsg, expected, applied, reported, rstate, stall, faults>>
\* the primary gives up a session whose replica shows no sign of life (heartbeat time-out)
HeartbeatDrop(r) == /\ sess[r].conn /\ stall[r] /\ Drop(r)
                    /\ UNCHANGED <<pvars, inmsg, expected, applied, reported, rstate, stall, faults, downs>>
\* ... or whose push backlog grows beyond its bound
Overflow(r) == /\ sess[r].conn /\ Len(plog) - sess[r].pushed > MaxQ /\ Drop(r)
               /\ UNCHANGED <<pvars, inmsg, expected, applied, reported, rstate, stall, faults, downs>>
RNotice(r) == /\ rstate[r] = "stream" /\ ~sess[r].conn
              /\ rstate' = [rstate EXCEPT ![r] = "down"]
              /\ UNCHANGED <<pvars, sess, net, inmsg, expected, applied, reported, resend, initp, stall, faults, downs>>
\* (re)connect: a NEW stream from the first number the replica still needs
Reconnect(r) == /\ rstate[r] = "down" /\ ~stall[r]
                /\ sess' = [sess EXCEPT ![r] = [conn |-> TRUE, start |-> expected[r], lastAck |-> expected[r] - 1,
                                                pushed |-> Len(plog), h |-> IF PollRereads THEN 0 ELSE gen]]
                /\ net' = [net EXCEPT ![r] = <<>>]
                /\ initp' = [initp EXCEPT ![r] = TRUE] /\ resend' = [resend EXCEPT ![r] = 0]
                /\ rstate' = [rstate EXCEPT ![r] = "stream"]
                /\ UNCHANGED <<pvars, inmsg, expected, applied, reported, stall, faults, downs>>
\* the replica process restarts: what it applied (its engine) and its position persist
RRestart(r) == /\ downs < MaxDown /\ Drop(r) /\ downs' = downs + 1
               /\ inmsg' = [inmsg EXCEPT ![r] = <<>>]
               /\ rstate' = [rstate EXCEPT ![r] = "down"]
               /\ UNCHANGED <<pvars, expected, applied, reported, stall, faults>>
Stall(r) == /\ ~stall[r] /\ Cardinality({x \in Replicas : stall[x]}) < MaxStall
            /\ stall' = [stall EXCEPT ![r] = TRUE]
            /\ UNCHANGED <<pvars, sess, net, inmsg, expected, applied, reported, rstate, resend, initp, faults, downs>>
\* a client write on a replica is refused and changes nothing (C16 states the rest)
ClientWriteOnReplica(r) == UNCHANGED vars

PNext == (\E n \in 1..MaxBatch : PInvoke(n)) \/ PWriteDo \/ PStop \/ PRotate
SNext(r) == PushSend(r) \/ PollSend(r) \/ InitialSend(r) \/ Resend(r)
NNext(r) == Lose(r) \/ Dup(r) \/ Reorder(r)
RNext(r) == Deliver(r) \/ ApplyBatch(r) \/ ApplyFail(r) \/ Ack(r) \/ Nack(r) \/ RNotice(r) \/ Reconnect(r)
FNext(r) == Disconnect(r) \/ HeartbeatDrop(r) \/ Overflow(r) \/ RRestart(r) \/ Stall(r)
Next == PNext \/ \E r \in Replicas : SNext(r) \/ NNext(r) \/ RNext(r) \/ FNext(r)

Spec == Init /\ [][Next]_vars

---------------------------------------------------------------------------------------------------------------
(* C13 *)
TypeOK == /\ \A i \in 1..(Len(plog) - 1) : plog[i + 1] \in {plog[i], plog[i] + 1}
          /\ \A r \in Replicas : \A i \in DOMAIN net[r] : net[r][i][1] <= net[r][i][2] /\ net[r][i][2] <= Len(plog)
AppliedIsPrefix == \A r \in Replicas : Len(applied[r]) <= Len(plog) /\ applied[r] = Iota(1, Len(applied[r]))
NoSplitBatch == \A r \in Replicas : Len(applied[r]) = 0 \/ BatchEnd(Len(applied[r]))
ExpectedFollowsApplied == \A r \in Replicas : expected[r] = SeqAt(Len(applied[r])) + 1
ReportedLeApplied == \A r \in Replicas : reported[r] <= SeqAt(Len(applied[r]))
AckLeApplied == \A r \in Replicas : sess[r].conn => sess[r].lastAck <= SeqAt(Len(applied[r]))
ReportedMonotone == [][\A r \in Replicas : reported'[r] >= reported[r]]_vars
AppliedOnlyGrows == [][\A r \in Replicas : Len(applied'[r]) >= Len(applied[r])]_vars

(* C14 *)
Converged(r) == applied[r] = Iota(1, Len(plog))
Fair == /\ WF_vars(PWriteDo)
        /\ \A r \in Replicas : /\ WF_vars(PushSend(r)) /\ WF_vars(PollSend(r)) /\ WF_vars(InitialSend(r)) /\ WF_vars(Resend(r))
                               /\ WF_vars(Deliver(r)) /\ WF_vars(ApplyBatch(r)) /\ WF_vars(Ack(r)) /\ WF_vars(Nack(r))
                               /\ WF_vars(RNotice(r)) /\ WF_vars(Reconnect(r)) /\ WF_vars(Overflow(r)) /\ WF_vars(HeartbeatDrop(r))
LiveSpec == Spec /\ Fair
\* faults are bounded, so the link eventually stays up in every behaviour; a replica that has not stalled converges
Converges == \A r \in Replicas : (<>[](stop /\ ~stall[r])) => <>[]Converged(r)

(* C15: only the primary's own steps are fair - nothing is assumed about replicas, streams or senders *)
PrimaryOnlySpec == Spec /\ WF_vars(PWriteDo) /\ \A r \in Replicas : WF_vars(HeartbeatDrop(r))
PWriteNeverWaits == wr > 0 => ENABLED PWriteDo
PWriteReturns == (wr > 0) ~> (wr = 0)
Topology == {r \in Replicas : sess[r].conn}
StalledIsDropped == \A r \in Replicas : stall[r] ~> (r \notin Topology)
StalledStaysOut == [][\A r \in Replicas : (stall[r] /\ ~sess[r].conn) => ~sess'[r].conn]_vars
=============================================================================
