SPECIFICATION Spec
CONSTANTS
  Keys = {"k1", "k2"}
  Vals = {"v1"}
  SyncMode = "imm"
  MaxOps = 2
  MaxBatch = 2
  MaxImm = 2
  MaxFiles = 3
  MaxCrash = 1
  MaxLevel = 2
  DKeys = {"k1", "k2"}
  DVals = {"v1"}
  DSync = "imm"
  DMaxOps = 2
  DMaxBatch = 2
INVARIANT Inv
PROPERTY LastSeqMonotone
CONSTRAINT StateBound
CHECK_DEADLOCK FALSE
