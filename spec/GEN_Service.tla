----------------------------- MODULE GEN_Service -----------------------------
(* Behaviour generation for the conformance replay of KevoService (C19, C16): ONE sequential client issues requests;   *)
(* the history h records every request with the response the specification predicts, the abstract store after it, who   *)
(* holds the transaction lock and the mode.  Three sources of requests: random (simulation mode), scripts (fixed        *)
(* scenarios; model-checking mode, one behaviour per script) and sweeps (every scan-option combination in one step).    *)
(* Every behaviour ends the same way: the transactions still open are rolled back and then the PROBE - a fresh          *)
(* read-write transaction is begun and committed (the finite form of KevoTxn's "quiescent => lock free", C17).          *)
EXTENDS KevoService, Json

CONSTANTS GenLen,      \* random requests per behaviour
          Flavour,     \* "c19" | "c16" | "script"
          SpecialVals  \* out-of-the-ordinary value tokens the random generator may use
VARIABLES h, phase, sid
gvars == <<vars, h, phase, sid>>

GenKeys == {<<1>>, <<1, 2>>, <<1, 2, 1>>, <<2, 1>>, <<2, 2>>}
KMax == <<Big>>
KOver == <<Big, 8>>
KEmpty == <<>>
\* byte-boundary material.  The harness' "binary" concretisation renders symbol 1 as 0x00, 2 as 'k', 3 as 'm', 10 as 0xFE,
\* 11 as 0xFF (one byte each, in this order; Big = 4096 x 0xF0 sorts between 3 and 10), so these are "k", "k\x00", "k\xfe",
\* "k\xff", "k\xff\xff", "k\xff\x00", "\xff", "\xff\xff", "m\xff", "\x00": keys ending in 0x00 / 0xFE / 0xFF, keys that are
\* proper prefixes of other keys.  Order, prefix and suffix of the symbol sequences ARE bytes.Compare / HasPrefix / HasSuffix
\* of the rendered keys.
EdgeKeys == {<<1>>, <<2>>, <<2, 1>>, <<2, 10>>, <<2, 11>>, <<2, 11, 11>>, <<2, 11, 1>>, <<11>>, <<11, 11>>, <<3, 11>>}
AllKeyArgs == GenKeys \cup EdgeKeys \cup {KMax, KOver, KEmpty}
\* start / end: absent, "k", "k\xfe", "k\xff", "k\xff\xff", "m" (the successor of the prefix "k"), "\xff", "k\x00" - the product
\* has start = end and start > end; prefix / suffix: absent, "k", "k\xff", "\xff", "\xff\xff", "\x00", one longer than every
\* key, "k\xfe"
EdgeBoundSeq == << <<>>, <<2>>, <<2, 10>>, <<2, 11>>, <<2, 11, 11>>, <<3>>, <<11>>, <<2, 1>> >>
EdgeAffixSeq == << <<>>, <<2>>, <<2, 11>>, <<11>>, <<11, 11>>, <<1>>, <<2, 11, 11, 11>>, <<2, 10>> >>
EdgeLimitSeq == <<0, 2>>
BoundSeq == << <<>>, <<1>>, <<1, 1>>, <<1, 2>>, <<2>>, <<2, 1>>, <<Big>> >>
AffixSeq == << <<>>, <<1>>, <<2>>, <<1, 2>>, <<2, 1>> >>
LimitSeq == <<0, 1, 2, 3, -1>>
Range(f) == {f[i] : i \in DOMAIN f}

\* NB (TLC): constant-level expressions are folded once at start-up, RandomElement included - every random draw mentions
\* a variable; a LET-bound RandomElement is re-drawn at every use - draws are bound with \E over a singleton.
R(n) == RandomElement(1..(n + Len(h) - Len(h)))
Rnd(S) == RandomElement({x \in S : Len(h) >= 0})

StateSeq(m) == LET ks == SortKeys(Live(m)) IN [i \in 1..Len(ks) |-> <<ks[i], m[ks[i]]>>]
Rec(rq) == [rq |-> rq,
            rs |-> [ok |-> rsp'.ok, err |-> rsp'.err, found |-> rsp'.found, val |-> rsp'.val, items |-> rsp'.items,
                    h |-> rsp'.h, info |-> rsp'.info, n |-> rsp'.n],
            chk |-> TRUE, sid |-> sid,
            st |-> StateSeq(db'),
            lk |-> IF \E x \in 1..MaxTx : txs'[x].mode = "rw" THEN "w"
                   ELSE IF \E x \in 1..MaxTx : txs'[x].mode = "ro" THEN "r" ELSE "free",
            ro |-> readOnly', repl |-> repl']
Step(rq) == Do(rq) /\ h' = Append(h, Rec(rq))

\* Flavour "script16": the C16 script of the standalone role only (the standalone scripts of "script" are C19's)
IsScript == Flavour \in {"script", "script16"}
ScriptIds == CASE Role = "replica" -> {14, 15} [] Role = "primary" -> {16, 20, 22}
               [] OTHER -> IF Flavour = "script16" THEN {21} ELSE (1..13) \cup {17, 18, 19}
GInit == Init /\ h = <<>> /\ phase = "run" /\ sid \in (IF IsScript THEN ScriptIds ELSE {0})

-----------------------------------------------------------------------------
(* random requests *)

RKey == {IF r <= 5 THEN Rnd(GenKeys) ELSE IF r <= 8 THEN Rnd(EdgeKeys) ELSE Rnd({KMax, KOver, KEmpty}) : r \in {R(11)}}
RGoodKey == {IF r <= 6 THEN Rnd(GenKeys) ELSE IF r <= 9 THEN Rnd(EdgeKeys) ELSE KMax : r \in {R(10)}}
RVal == {IF r <= 7 \/ SpecialVals = {} THEN Rnd(ValArgs \ SpecialVals) ELSE Rnd(SpecialVals) : r \in {R(10)}}
RGoodVal == {Rnd(StoreVals \ {"VMAX"})}
OpenHandles == {x \in 1..MaxTx : Open(x)}
\* mostly an open handle; now and then an unknown (0) or finished one
RHandle == IF OpenHandles # {} THEN {IF r <= 17 THEN Rnd(OpenHandles) ELSE Rnd(0..nh) : r \in {R(20)}}
           ELSE {Rnd(0..nh) : r \in {R(5)} \ {2, 3, 4, 5}}
\* C16 is about WHETHER reads are served, not about scan options (C19): there a scan has a range or affixes, not both
RScanFrom(w, B, A, L) ==
          {[s |-> B[a], e |-> B[b], p |-> A[c], x |-> A[d], l |-> L[e]] :
            a \in {IF R(2) = 1 \/ w = 2 THEN 1 ELSE R(Len(B))}, b \in {IF R(2) = 1 \/ w = 2 THEN 1 ELSE R(Len(B))},
            c \in {IF R(2) = 1 \/ w = 1 THEN 1 ELSE R(Len(A))}, d \in {IF R(2) = 1 \/ w = 1 THEN 1 ELSE R(Len(A))},
            e \in {R(Len(L))}}
RScanW(w) == UNION {IF g = 1 THEN RScanFrom(w, BoundSeq, AffixSeq, LimitSeq) ELSE RScanFrom(w, EdgeBoundSeq, EdgeAffixSeq, EdgeLimitSeq) : g \in {R(2)}}
RScan == UNION {RScanW(w) : w \in {IF Flavour = "c16" THEN R(2) ELSE 0}}
BOp(t, k, v) == [t |-> t, k |-> k, v |-> v]
ROp(good) == {BOp(IF r = 1 THEN "del" ELSE "put", k, v) : r \in {R(3)}, k \in (IF good THEN RGoodKey ELSE RKey),
                                                           v \in (IF good THEN RGoodVal ELSE RVal)}
\* what the applier is handed: entries of every type the log accepts
AOp == {BOp(IF r = 1 THEN "del" ELSE IF r = 2 THEN "merge" ELSE "put", k, v) : r \in {R(3)}, k \in RGoodKey, v \in RGoodVal}
ABatch == {IF n = 1 THEN <<a>> ELSE IF n = 2 THEN <<a, b>> ELSE <<a, b, c>> : n \in {R(3)}, a \in AOp, b \in AOp, c \in AOp}
RBatch(good) == {IF n = 1 THEN <<a>> ELSE IF n = 2 THEN <<a, b>> ELSE <<a, b, c>> :
                   n \in {R(3)}, a \in ROp(TRUE), b \in ROp(good), c \in ROp(good)}
RPad(ops) == {IF r = 1 THEN MaxBatch - Len(ops) ELSE IF r = 2 THEN MaxBatch + 1 - Len(ops) ELSE 0 : r \in {R(12)}}
Q(op) == [Rq0 EXCEPT !.op = op]
ViaSet == IF Flavour = "c16" THEN {IF R(2) = 1 THEN "grpc" ELSE "emb"} ELSE {"grpc"}
\* the last handle is kept for the probe
MayBegin == nh < MaxTx - 1

RandomStep ==
  \E via \in ViaSet :
    \* good: only keys and values inside the limits.  Always so on the embedded API (it has no limits) and in the C16
    \* flavour (limits and handle hygiene are C19's subject)
    LET good == via = "emb" \/ Flavour = "c16" IN
    \/ \E k \in (IF good THEN RGoodKey ELSE RKey) : Step([Q("get") EXCEPT !.via = via, !.k = k])
    \/ \E k \in (IF good THEN RGoodKey ELSE RKey), v \in (IF good THEN RGoodVal ELSE RVal) :
         Step([Q("put") EXCEPT !.via = via, !.k = k, !.v = v])
    \/ \E k \in (IF good THEN RGoodKey ELSE RKey) : Step([Q("del") EXCEPT !.via = via, !.k = k])
    \/ \E ops \in RBatch(good) : \E pad \in (IF good THEN {0} ELSE RPad(ops)) :
         Step([Q("batch") EXCEPT !.via = via, !.ops = ops, !.pad = pad])
    \/ R(8) = 1 /\ Step([Q("batch") EXCEPT !.via = via])
    \/ \E so \in RScan : Step([Q("scan") EXCEPT !.via = via, !.so = so])
    \/ MayBegin /\ \E r \in {R(2)} : Step([Q("begin") EXCEPT !.via = via, !.ro = (r = 1)])
    \/ \E x \in RHandle : x > 0 /\ R(3) = 1 /\ Step([Q("commit") EXCEPT !.via = txs[x].via, !.h = x])
    \/ \E x \in RHandle : x > 0 /\ R(5) = 1 /\ Step([Q("rollback") EXCEPT !.via = txs[x].via, !.h = x])
    \/ R(4) = 1 /\ Step([Q(IF R(2) = 1 THEN "commit" ELSE "rollback") EXCEPT !.h = 0])
    \/ \E x \in RHandle, k \in (IF Flavour = "c16" THEN RGoodKey ELSE RKey) :
         LET v == IF x > 0 THEN txs[x].via ELSE "grpc"
         IN (v = "grpc" \/ ValidKey(k)) /\ Step([Q("txget") EXCEPT !.via = v, !.h = x, !.k = k])
    \/ \E x \in RHandle, k \in (IF Flavour = "c16" THEN RGoodKey ELSE RKey), val \in (IF Flavour = "c16" THEN RGoodVal ELSE RVal) :
         LET v == IF x > 0 THEN txs[x].via ELSE "grpc"
         IN (v = "grpc" \/ (ValidKey(k) /\ ValidVal(val) /\ val # "VMAX")) /\ Step([Q("txput") EXCEPT !.via = v, !.h = x, !.k = k, !.v = val])
    \/ \E x \in RHandle, k \in (IF Flavour = "c16" THEN RGoodKey ELSE RKey) :
         LET v == IF x > 0 THEN txs[x].via ELSE "grpc"
         IN (v = "grpc" \/ ValidKey(k)) /\ Step([Q("txdel") EXCEPT !.via = v, !.h = x, !.k = k])
    \/ \E x \in RHandle, so \in RScan :
         Step([Q("txscan") EXCEPT !.via = (IF x > 0 THEN txs[x].via ELSE "grpc"), !.h = x, !.so = so])
    \/ R(4) = 1 /\ Step(Q("stats"))
    \/ R(6) = 1 /\ Step(Q("compact"))
    \/ R(4) = 1 /\ Step(Q("nodeinfo"))
    \/ /\ Flavour = "c16"
       /\ \/ \E k \in RGoodKey, v \in RGoodVal : Step([Q("apply_put") EXCEPT !.k = k, !.v = v])
          \/ \E k \in RGoodKey, v \in RGoodVal : Step([Q("apply_merge") EXCEPT !.k = k, !.v = v])
          \/ \E k \in RGoodKey : Step([Q("apply_del") EXCEPT !.k = k])
          \/ \E ops \in ABatch : Step([Q("apply_batch") EXCEPT !.ops = ops])
          \/ \E ops \in ABatch : Step([Q("apply_entries") EXCEPT !.ops = ops])
          \* the mode switch (more often on a node that does not start read-only) and Manager.Stop
          \/ \E r \in {R(12)} : r <= (IF Role = "replica" THEN 2 ELSE 6) /\ Step([Q("setro") EXCEPT !.ro = (r % 2 = 1)])
          \/ R(10) = 1 /\ Step(Q("stoprepl"))
          \/ Step(Q("nodeinfo"))

GRandom == ~IsScript /\ phase = "run" /\ Len(h) < GenLen /\ RandomStep /\ UNCHANGED <<phase, sid>>

-----------------------------------------------------------------------------
(* scripts: the scenarios named by C19 / C17 *)

K1 == <<1>>
K2 == <<1, 2>>
K3 == <<2, 1>>
Tx(op, x, k, v) == [Q(op) EXCEPT !.h = x, !.k = k, !.v = v]
B(ops, pad) == [Q("batch") EXCEPT !.ops = ops, !.pad = pad]
Sc(s, e, p, x, l) == [Q("scan") EXCEPT !.so = [s |-> s, e |-> e, p |-> p, x |-> x, l |-> l]]
Fill == << [Q("put") EXCEPT !.k = <<1>>, !.v = "v1"], [Q("put") EXCEPT !.k = <<1, 2>>, !.v = "v2"],
           [Q("put") EXCEPT !.k = <<1, 2, 1>>, !.v = "v3"], [Q("put") EXCEPT !.k = <<2, 1>>, !.v = "v1"],
           [Q("put") EXCEPT !.k = <<2, 2>>, !.v = "VEMPTY"], [Q("del") EXCEPT !.k = <<2, 1>>] >>
TxSc(x, a, e, p, f, l) == [Q("txscan") EXCEPT !.h = x, !.so = [s |-> a, e |-> e, p |-> p, x |-> f, l |-> l]]
P(k, v) == [Q("put") EXCEPT !.k = k, !.v = v]
EdgeFill == << P(<<2>>, "v1"), P(<<2, 1>>, "v2"), P(<<2, 10>>, "v3"), P(<<2, 11>>, "v1"), P(<<2, 11, 11>>, "v2"), P(<<2, 11, 1>>, "v3"),
               P(<<11>>, "v1"), P(<<11, 11>>, "VEMPTY"), P(<<3, 11>>, "v2"), P(<<1>>, "v3"), P(KMax, "v1"), [Q("del") EXCEPT !.k = <<2, 11, 1>>] >>
Scripts == <<
  \* 1: an over-long key in TxGet is rejected and nothing else: the transaction goes on and commits
  << [Q("begin") EXCEPT !.ro = FALSE], Tx("txput", 1, K1, "v1"), Tx("txget", 1, KOver, ""), Tx("txget", 1, K1, ""),
     Tx("commit", 1, <<>>, ""), [Q("get") EXCEPT !.k = K1] >>,
  \* 2: the same with the empty key, in a read-only transaction
  << [Q("put") EXCEPT !.k = K1, !.v = "v1"], [Q("begin") EXCEPT !.ro = TRUE], Tx("txget", 1, KEmpty, ""), Tx("txget", 1, K1, ""),
     Tx("rollback", 1, <<>>, "") >>,
  \* 3: over-long / empty keys and an over-size value in TxPut and TxDelete; writes in a read-only transaction
  << [Q("begin") EXCEPT !.ro = FALSE], Tx("txput", 1, KOver, "v1"), Tx("txdel", 1, KOver, ""), Tx("txput", 1, KEmpty, "v1"),
     Tx("txput", 1, K1, "VOVER"), Tx("txput", 1, KMax, "v2"), Tx("txget", 1, KMax, ""), Tx("commit", 1, <<>>, ""),
     [Q("begin") EXCEPT !.ro = TRUE], Tx("txput", 2, K1, "v1"), Tx("txdel", 2, KMax, ""), Tx("txget", 2, KMax, ""),
     Tx("commit", 2, <<>>, "") >>,
  \* 4: handles that were never issued
  << Tx("txget", 0, K1, ""), Tx("txput", 0, K1, "v1"), Tx("txdel", 0, K1, ""), [Q("txscan") EXCEPT !.h = 0],
     Tx("commit", 0, <<>>, ""), Tx("rollback", 0, <<>>, ""), [Q("get") EXCEPT !.k = K1] >>,
  \* 5: a handle after commit, a handle after rollback
  << [Q("begin") EXCEPT !.ro = FALSE], Tx("txput", 1, K1, "v1"), Tx("commit", 1, <<>>, ""), Tx("txget", 1, K1, ""),
     Tx("txput", 1, K2, "v2"), Tx("txdel", 1, K1, ""), [Q("txscan") EXCEPT !.h = 1], Tx("commit", 1, <<>>, ""),
     Tx("rollback", 1, <<>>, ""), [Q("begin") EXCEPT !.ro = FALSE], Tx("txput", 2, K2, "v2"), Tx("rollback", 2, <<>>, ""),
     Tx("txget", 2, K2, ""), Tx("txput", 2, K2, "v2"), Tx("commit", 2, <<>>, ""), [Q("get") EXCEPT !.k = K2] >>,
  \* 6: a commit that the storage layer refuses: nothing visible, handle gone, lock free
  << [Q("put") EXCEPT !.k = K1, !.v = "v1"], [Q("begin") EXCEPT !.ro = FALSE], Tx("txput", 1, K1, "v2"), Tx("txput", 1, K2, "v2"),
     [Tx("commit", 1, <<>>, "") EXCEPT !.fail = TRUE], Tx("txget", 1, K1, ""), Tx("commit", 1, <<>>, ""),
     [Q("get") EXCEPT !.k = K1], [Q("get") EXCEPT !.k = K2] >>,
  \* 7: BatchWrite is all or nothing; the last write to a key wins; batches of 1000 and 1001 operations
  << B(<<BOp("put", K1, "v1"), BOp("put", KOver, "v1")>>, 0), B(<<BOp("put", K1, "v1"), BOp("put", K2, "VOVER")>>, 0),
     B(<<BOp("put", K2, "v2"), BOp("del", KEmpty, "")>>, 0), [Q("get") EXCEPT !.k = K1],
     B(<<BOp("put", K1, "v1"), BOp("put", K2, "v1"), BOp("put", K1, "v2")>>, 0),
     B(<<BOp("put", K3, "v3"), BOp("del", K2, ""), BOp("del", K3, "")>>, 0),
     B(<<BOp("put", K3, "v1"), BOp("put", K2, "v3")>>, MaxBatch - 2), B(<<BOp("put", K3, "v2"), BOp("del", K1, "")>>, MaxBatch - 1),
     B(<<>>, 0), Q("stats") >>,
  \* 8: keys and values exactly at the limits and one beyond, outside transactions
  << [Q("put") EXCEPT !.k = KMax, !.v = "v1"], [Q("get") EXCEPT !.k = KMax], [Q("put") EXCEPT !.k = KOver, !.v = "v1"],
     [Q("get") EXCEPT !.k = KOver], [Q("del") EXCEPT !.k = KOver], [Q("put") EXCEPT !.k = KEmpty, !.v = "v1"],
     [Q("get") EXCEPT !.k = KEmpty], [Q("del") EXCEPT !.k = KEmpty], [Q("put") EXCEPT !.k = K1, !.v = "VOVER"],
     [Q("put") EXCEPT !.k = K1, !.v = "VEMPTY"], [Q("get") EXCEPT !.k = K1], Sc(<<>>, <<>>, <<>>, <<>>, 0),
     [Q("del") EXCEPT !.k = KMax], [Q("get") EXCEPT !.k = KMax] >>,
  \* 9: a value of exactly the limit (10 MiB): stored, read back, scanned; in a transaction; in a batch
  << [Q("put") EXCEPT !.k = K1, !.v = "VMAX"], [Q("get") EXCEPT !.k = K1], Sc(<<>>, <<>>, <<>>, <<>>, 0),
     [Q("begin") EXCEPT !.ro = FALSE], Tx("txput", 1, K2, "VMAX"), Tx("txput", 1, K3, "VOVER"), Tx("txget", 1, K2, ""),
     Tx("commit", 1, <<>>, ""), B(<<BOp("put", K3, "VMAX")>>, 0), [Q("get") EXCEPT !.k = K3] >>,
  \* 10: two read-only transactions and requests outside them, interleaved
  Fill \o << [Q("begin") EXCEPT !.ro = TRUE], [Q("begin") EXCEPT !.ro = TRUE], [Q("put") EXCEPT !.k = K3, !.v = "v2"],
     Tx("txget", 1, K3, ""), Tx("txget", 2, K3, ""), [Q("txscan") EXCEPT !.h = 1], Sc(<<>>, <<>>, <<>>, <<>>, 0),
     Tx("commit", 1, <<>>, ""), [Q("txscan") EXCEPT !.h = 2, !.so = [NoScan EXCEPT !.p = <<1>>]], Tx("txget", 1, K3, ""),
     Tx("rollback", 2, <<>>, "") >>,
  \* 11 (+ sweep): every scan-option combination over a store with a deleted key and an empty value
  Fill,
  \* 12 (+ sweep): the same inside a read-write transaction with buffered puts and deletes
  Fill \o << [Q("begin") EXCEPT !.ro = FALSE], Tx("txput", 1, <<2, 1>>, "v2"), Tx("txdel", 1, <<1, 2>>, ""),
             Tx("txput", 1, KMax, "v1"), Tx("txput", 1, <<1>>, "v3") >>,
  \* 13: node information, statistics, maintenance
  << Q("nodeinfo"), Q("stats"), [Q("put") EXCEPT !.k = K1, !.v = "v1"], Q("compact"), Q("stats"), Q("nodeinfo") >>,
  \* 14 (replica): every client mutator of the network API is refused, reads are served, the node says what it is
  << Q("nodeinfo"), [Q("put") EXCEPT !.k = K1, !.v = "v1"], [Q("del") EXCEPT !.k = K1], B(<<BOp("put", K1, "v1"), BOp("del", K2, "")>>, 0),
     B(<<BOp("put", K1, "v1")>>, MaxBatch - 1), B(<<>>, 0), [Q("get") EXCEPT !.k = K1], Sc(<<>>, <<>>, <<>>, <<>>, 0),
     [Q("begin") EXCEPT !.ro = FALSE], Tx("txput", 1, K1, "v1"), Tx("txdel", 1, K1, ""), Tx("txget", 1, K1, ""), [Q("txscan") EXCEPT !.h = 1],
     Tx("commit", 1, <<>>, ""), [Q("begin") EXCEPT !.ro = TRUE], Tx("txput", 2, K2, "v2"), Tx("rollback", 2, <<>>, ""),
     Q("compact"), Q("stats"), Q("nodeinfo") >>,
  \* 15 (replica, in-process): replicated operations keep arriving between refused client writes, through both APIs; the
  \* mode switch is consulted at every call
  << [Q("apply_put") EXCEPT !.k = K1, !.v = "v1"], [Q("get") EXCEPT !.k = K1], [Q("put") EXCEPT !.k = K1, !.v = "v2"],
     [Q("apply_merge") EXCEPT !.k = K2, !.v = "v2"], [Q("del") EXCEPT !.k = K2], [Q("put") EXCEPT !.via = "emb", !.k = K3, !.v = "v3"],
     [Q("apply_batch") EXCEPT !.ops = <<BOp("put", K3, "v3"), BOp("del", K2, "")>>],
     [Q("apply_batch") EXCEPT !.ops = <<BOp("merge", K2, "v1"), BOp("del", K3, ""), BOp("merge", K3, "v2")>>], [Q("get") EXCEPT !.k = K2],
     [Q("apply_entries") EXCEPT !.ops = <<BOp("put", K2, "v3"), BOp("merge", K3, "v3"), BOp("del", K2, "")>>], [Q("get") EXCEPT !.k = K3],
     [Q("apply_merge") EXCEPT !.k = K2, !.v = "v2"], [Q("get") EXCEPT !.k = K2],
     [B(<<BOp("del", K3, "")>>, 0) EXCEPT !.via = "emb"], B(<<BOp("del", K3, "")>>, 0), [Q("del") EXCEPT !.via = "emb", !.k = K1],
     [Q("begin") EXCEPT !.ro = FALSE], Tx("txput", 1, K1, "v3"), Tx("txget", 1, K1, ""), [Q("apply_del") EXCEPT !.k = K1],
     Tx("txget", 1, K1, ""), [Q("txscan") EXCEPT !.h = 1], Tx("commit", 1, <<>>, ""),
     [Q("begin") EXCEPT !.via = "emb", !.ro = FALSE], [Tx("txput", 2, K1, "v1") EXCEPT !.via = "emb"], [Tx("txdel", 2, K3, "") EXCEPT !.via = "emb"],
     [Tx("txget", 2, K3, "") EXCEPT !.via = "emb"], [Tx("commit", 2, <<>>, "") EXCEPT !.via = "emb"], [Q("scan") EXCEPT !.via = "emb"],
     Q("nodeinfo"), [Q("setro") EXCEPT !.ro = FALSE], Q("nodeinfo"), [Q("put") EXCEPT !.k = K1, !.v = "v2"],
     [Q("setro") EXCEPT !.ro = TRUE], [Q("put") EXCEPT !.k = K1, !.v = "v3"], Q("nodeinfo"), [Q("get") EXCEPT !.k = K1],
     \* Manager.Stop (what Server.Shutdown does first): the node is still a replica of P and still refuses writes - and says so
     Q("stoprepl"), Q("nodeinfo"), [Q("put") EXCEPT !.k = K2, !.v = "v1"], [Q("del") EXCEPT !.via = "emb", !.k = K1],
     [Q("apply_put") EXCEPT !.k = K2, !.v = "v2"], [Q("get") EXCEPT !.k = K2], [Q("setro") EXCEPT !.ro = FALSE], Q("nodeinfo"),
     [Q("put") EXCEPT !.k = K2, !.v = "v3"], [Q("setro") EXCEPT !.ro = TRUE], Q("nodeinfo") >>,
  \* 16 (primary): the node says so and takes writes
  << Q("nodeinfo"), [Q("put") EXCEPT !.k = K1, !.v = "v1"], [Q("get") EXCEPT !.k = K1], Q("nodeinfo") >>,
  \* 17: scans at byte boundaries (binary concretisation: prefixes and bounds ending in 0xFF / 0x00 / 0xFE, a key that is a
  \* proper prefix of another, start = end, start > end, a prefix longer than every key, end = successor of the prefix),
  \* outside and inside a transaction with buffered writes
  EdgeFill \o << Sc(<<>>, <<>>, <<2, 11>>, <<>>, 0), Sc(<<>>, <<>>, <<11>>, <<>>, 0), Sc(<<>>, <<>>, <<2, 11, 11>>, <<>>, 0),
     Sc(<<>>, <<>>, <<11, 11>>, <<>>, 0), Sc(<<>>, <<>>, <<3, 11>>, <<>>, 1), Sc(<<>>, <<>>, <<2, 11, 11, 11>>, <<>>, 0),
     Sc(<<>>, <<>>, <<2>>, <<>>, 0), Sc(<<>>, <<>>, <<2, 10>>, <<>>, 0), Sc(<<>>, <<>>, <<1>>, <<>>, 0),
     Sc(<<>>, <<>>, <<>>, <<11>>, 0), Sc(<<>>, <<>>, <<>>, <<11, 11>>, 0), Sc(<<>>, <<>>, <<>>, <<1>>, 0), Sc(<<>>, <<>>, <<2>>, <<11>>, 0),
     Sc(<<2, 11>>, <<>>, <<2, 11>>, <<>>, 0), Sc(<<2, 11>>, <<2, 11>>, <<>>, <<>>, 0), Sc(<<2, 11, 11>>, <<2, 11>>, <<>>, <<>>, 0),
     Sc(<<2>>, <<3>>, <<>>, <<>>, 0), Sc(<<2, 11>>, <<3>>, <<2, 11>>, <<>>, 0), Sc(<<>>, <<2, 11>>, <<2>>, <<>>, 0),
     Sc(<<2, 10>>, <<2, 11, 11>>, <<>>, <<>>, 0), Sc(<<11>>, <<>>, <<>>, <<>>, 0), Sc(<<>>, <<11>>, <<>>, <<11>>, 0),
     Sc(<<2, 11, 1>>, <<>>, <<2, 11>>, <<>>, 2), Sc(<<>>, <<2, 1>>, <<>>, <<>>, 0),
     [Q("begin") EXCEPT !.ro = FALSE], Tx("txput", 1, <<2, 11, 1>>, "v2"), Tx("txdel", 1, <<2, 11>>, ""), Tx("txput", 1, <<11, 11>>, "v3"),
     TxSc(1, <<>>, <<>>, <<2, 11>>, <<>>, 0), TxSc(1, <<>>, <<>>, <<11>>, <<>>, 0), TxSc(1, <<>>, <<>>, <<2, 11, 11>>, <<>>, 0),
     TxSc(1, <<2, 11>>, <<3>>, <<>>, <<>>, 0), TxSc(1, <<2, 11>>, <<2, 11>>, <<>>, <<>>, 0), TxSc(1, <<>>, <<>>, <<>>, <<11>>, 0),
     TxSc(1, <<>>, <<>>, <<2>>, <<1>>, 0), Tx("rollback", 1, <<>>, ""), Sc(<<>>, <<>>, <<2, 11>>, <<>>, 0) >>,
  \* 18 (+ edge sweep): every combination of the byte-boundary bounds and affixes
  EdgeFill,
  \* 19 (+ edge sweep): the same inside a read-write transaction with buffered puts and deletes
  EdgeFill \o << [Q("begin") EXCEPT !.ro = FALSE], Tx("txput", 1, <<2, 11, 1>>, "v2"), Tx("txdel", 1, <<2, 11>>, ""),
                 Tx("txput", 1, <<11, 11>>, "v3"), Tx("txdel", 1, <<1>>, "") >>,
  \* 20 (primary, in-process): a primary switched to read-only at run time (demotion) and back; Manager.Stop in between
  << Q("nodeinfo"), [Q("put") EXCEPT !.k = K1, !.v = "v1"], [Q("setro") EXCEPT !.ro = TRUE], Q("nodeinfo"),
     [Q("put") EXCEPT !.k = K1, !.v = "v2"], [Q("del") EXCEPT !.via = "emb", !.k = K1], [Q("apply_put") EXCEPT !.k = K2, !.v = "v2"],
     [Q("get") EXCEPT !.k = K2], Q("stoprepl"), Q("nodeinfo"), B(<<BOp("put", K3, "v3")>>, 0), [Q("setro") EXCEPT !.ro = FALSE],
     Q("nodeinfo"), [Q("put") EXCEPT !.k = K3, !.v = "v3"], [Q("get") EXCEPT !.k = K3] >>,
  \* 21 (standalone, in-process): the same on a node without a replication manager
  << Q("nodeinfo"), [Q("put") EXCEPT !.k = K1, !.v = "v1"], [Q("setro") EXCEPT !.ro = TRUE], Q("nodeinfo"),
     [Q("put") EXCEPT !.k = K1, !.v = "v2"], [Q("del") EXCEPT !.via = "emb", !.k = K1], [Q("apply_del") EXCEPT !.k = K1],
     [Q("get") EXCEPT !.k = K1], [Q("setro") EXCEPT !.ro = FALSE], Q("nodeinfo"), [Q("put") EXCEPT !.k = K1, !.v = "v3"] >>,
  \* 22 (primary, in-process): a read-write transaction begun before the node became read-only must not commit afterwards,
  \* through either API; one without writes may
  << [Q("begin") EXCEPT !.ro = FALSE], Tx("txput", 1, K1, "v1"), [Q("setro") EXCEPT !.ro = TRUE], Tx("txput", 1, K2, "v2"),
     Tx("txget", 1, K1, ""), Tx("commit", 1, <<>>, ""), [Q("get") EXCEPT !.k = K1], Q("nodeinfo"), [Q("setro") EXCEPT !.ro = FALSE],
     [Q("begin") EXCEPT !.via = "emb", !.ro = FALSE], [Tx("txput", 2, K3, "v3") EXCEPT !.via = "emb"], [Q("setro") EXCEPT !.ro = TRUE],
     [Tx("commit", 2, <<>>, "") EXCEPT !.via = "emb"], [Q("get") EXCEPT !.k = K3], [Q("setro") EXCEPT !.ro = FALSE],
     [Q("begin") EXCEPT !.ro = FALSE], [Q("setro") EXCEPT !.ro = TRUE], Tx("commit", 3, <<>>, ""), [Q("put") EXCEPT !.k = K1, !.v = "v1"] >>
>>
SweepScripts == {11, 12, 18, 19}
Edgy == sid \in {18, 19}
SB == IF Edgy THEN EdgeBoundSeq ELSE BoundSeq
SA == IF Edgy THEN EdgeAffixSeq ELSE AffixSeq
SL == IF Edgy THEN EdgeLimitSeq ELSE LimitSeq

GScript == /\ IsScript /\ phase = "run" /\ Len(h) < Len(Scripts[sid])
           /\ Step(Scripts[sid][Len(h) + 1]) /\ UNCHANGED <<phase, sid>>

\* all scan-option combinations in ONE step (a scan changes nothing): 7 x 7 x 5 x 5 x 5 requests (edge sweeps: 8 x 8 x 8 x 8 x 2)
NSweep == Len(SB) * Len(SB) * Len(SA) * Len(SA) * Len(SL)
SweepOpt(i) == LET j == i - 1
                   nb == Len(SB)
                   na == Len(SA)
               IN [s |-> SB[(j % nb) + 1], e |-> SB[((j \div nb) % nb) + 1],
                   p |-> SA[((j \div (nb * nb)) % na) + 1], x |-> SA[((j \div (nb * nb * na)) % na) + 1],
                   l |-> SL[(j \div (nb * nb * na * na)) + 1]]
SweepRec(i) == LET so == SweepOpt(i)
                   inTx == OpenHandles # {}
                   x == IF inTx THEN CHOOSE y \in OpenHandles : TRUE ELSE 0
                   m == IF inTx THEN View(x) ELSE db
               IN [rq |-> [Q(IF inTx THEN "txscan" ELSE "scan") EXCEPT !.h = x, !.so = so],
                   rs |-> [ok |-> TRUE, err |-> "", found |-> FALSE, val |-> "", items |-> ScanItems(m, so), h |-> 0,
                           info |-> <<>>, n |-> 0],
                   chk |-> FALSE, sid |-> sid, repl |-> repl, st |-> <<>>, lk |-> IF inTx THEN "w" ELSE "free", ro |-> readOnly]
GSweep == /\ IsScript /\ phase = "run" /\ sid \in SweepScripts /\ Len(h) = Len(Scripts[sid])
          /\ \A i \in 1..NSweep : ScanOK(IF OpenHandles # {} THEN View(CHOOSE y \in OpenHandles : TRUE) ELSE db,
                                          SweepOpt(i), ScanKeys(IF OpenHandles # {} THEN View(CHOOSE y \in OpenHandles : TRUE) ELSE db, SweepOpt(i)))
          /\ h' = h \o [i \in 1..NSweep |-> SweepRec(i)]
          /\ phase' = "close" /\ UNCHANGED <<vars, sid>>

-----------------------------------------------------------------------------
(* the end of every behaviour: roll back what is still open, then the probe *)

RunOver == IF IsScript THEN Len(h) >= Len(Scripts[sid]) /\ sid \notin SweepScripts ELSE Len(h) >= GenLen
GToClose == phase = "run" /\ RunOver /\ phase' = "close" /\ UNCHANGED <<vars, h, sid>>
GClose == /\ phase = "close"
          /\ IF OpenHandles # {}
             THEN LET x == CHOOSE y \in OpenHandles : \A z \in OpenHandles : y <= z
                  IN Step([Q("rollback") EXCEPT !.via = txs[x].via, !.h = x]) /\ UNCHANGED <<phase, sid>>
             ELSE phase' = "probe1" /\ UNCHANGED <<vars, h, sid>>
GProbe == \/ phase = "probe1" /\ nh < MaxTx /\ Step([Q("begin") EXCEPT !.ro = FALSE]) /\ phase' = "probe2" /\ UNCHANGED sid
          \/ phase = "probe2" /\ Step([Q("commit") EXCEPT !.h = nh]) /\ phase' = "emit" /\ UNCHANGED sid
\* evaluated once per behaviour: print it (from an action, not from an invariant)
GEmit == /\ phase = "emit" /\ PrintT(<<"BEHAVIOUR", ToJson(h)>>)
         /\ phase' = "done" /\ UNCHANGED <<vars, h, sid>>

GNext == GRandom \/ GScript \/ GSweep \/ GToClose \/ GClose \/ GProbe \/ GEmit
GSpec == GInit /\ [][GNext]_gvars

\* the table of entry points, for the harness (C16)
ASSUME PrintT(<<"TABLE", ToJson(EntryPoints)>>)
=============================================================================
