SPECIFICATION Spec
CONSTANTS
  KeyArgs <- MCKeys
  ValArgs = {"v1", "VEMPTY", "VMAX", "VOVER"}
  MaxTx = 4
  Role = "standalone"
  MaxKeyLen = 4096
  MaxValLen = 10485760
  MaxBatch = 1000
  Vias = {"grpc"}
  WithApply = FALSE
  ScanAll = TRUE
VIEW StateView
INVARIANT Inv
PROPERTY RejectedHasNoEffect
PROPERTY LimitsEnforced
PROPERTY HandleUnusableAfterFinish
PROPERTY RefinesEmbedded
PROPERTY ReadOnlyRejectsMutators
PROPERTY NodeInfoTruthful
PROPERTY StopKeepsMode
CHECK_DEADLOCK FALSE
