SPECIFICATION Spec
CONSTANTS
  MaxSeq = 5
  MaxCrash = 2
  Guard = FALSE
  Tiny = FALSE
  Queued = TRUE
INVARIANTS Recoverable
CHECK_DEADLOCK FALSE
CONSTRAINT Bound
