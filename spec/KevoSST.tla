------------------------------- MODULE KevoSST -------------------------------
(* C11 - "an SSTable reads back exactly what was written into it".

   One table file of pkg/sstable at the grain of the implementation:

     writer  (sstable.Writer)      Add(e) / CutBlock (= flushBlock, taken when the 64 KB estimate is reached:
                                   WHERE the cuts fall is part of the input, plan.lens) / Finish
     file                          data blocks (entries, restart array every R entries, offset, size, checksum),
                                   one bloom filter per block labelled with a block OFFSET, index = first key of
                                   every block -> (offset,size), footer
     damage  (one altered byte)    a corruption descriptor applied to the closed file (classes CorClasses)
     reader  (sstable.Reader)      Open (footer, index block, bloom section), Get(k)
     cursor  (sstable.Iterator     SeekToFirst / Seek(t) / Next / SeekToLast, each TRANSCRIBED OPERATIONALLY from the
              + block.Iterator)    code: index scan -> block fetch (+checksum) -> binary search over the restart
                                   array -> linear decode -> move to the next block

   Keys are the even numbers 2,4,..,2n (entry i has key 2i), so the targets 1..2n+1 are: every present key, every
   gap, before the first and after the last.  Values are classes (tombstone, empty, one byte, normal, larger than
   a block) and every entry carries a sequence number; both are a deterministic but irregular function of
   (plan.seed, i) so that TLC can tell entries apart.  The harness turns keys/classes into bytes.

   Properties (C11): SeekCorrect   SeekImpl(t) = LeastGE(t)            GetCorrect   GetImpl(k) = Lookup(k)
                     IterYieldsAllOnce                                  BloomNoFalseNegative
                     CursorRefines (any sequence of cursor calls)       CorruptOpenFailsOrSubset            *)
EXTENDS Integers, Sequences, FiniteSets, TLC

CONSTANTS MaxBlocks,   \* at most this many data blocks
          MaxLen,      \* at most this many entries per block
          RIs,         \* restart intervals explored (the code has 16)
          Seeds,       \* value-class / sequence-number assignments explored
          Covered,     \* file regions whose bytes are inside a VERIFIED checksum: the code has data, restart, index, footer
          Cors         \* corruption classes explored ({} = intact files only)

ASSUME Covered \subseteq {"data", "restart", "index", "footer"}

-----------------------------------------------------------------------------
(* The input: a strictly ascending entry sequence and where the block cuts fall *)

RECURSIVE SumTo(_, _)
SumTo(s, j) == IF j = 0 THEN 0 ELSE s[j] + SumTo(s, j - 1)
N(p) == SumTo(p.lens, Len(p.lens))
IsBlockEnd(p, i) == \E b \in 1..Len(p.lens) : SumTo(p.lens, b) = i

Small == <<"tomb", "empty", "one", "norm">>
H(p, i) == ((p.seed + 1) * (i * 37 + 11) + i * i * 13) % 97
\* a value larger than a block forces the cut right behind it, so it can only stand at the end of a block
ClassAt(p, i) == IF IsBlockEnd(p, i) /\ H(p, i) % 5 = 0 THEN "big" ELSE Small[(H(p, i) % 4) + 1]
SeqAt(p, i) == ((p.seed * 7 + i * 29) % 53) + 1
Key(i) == 2 * i
Ent(p, i) == [k |-> Key(i), c |-> ClassAt(p, i), s |-> SeqAt(p, i)]
Flat(p) == [i \in 1..N(p) |-> Ent(p, i)]
Written(p) == {Ent(p, i) : i \in 1..N(p)}
Targets(p) == 1..(2 * N(p) + 1)

NoEnt == [k |-> 0, c |-> "none", s |-> 0]
Garbage == [k |-> 0 - 1, c |-> "garbage", s |-> 0]
Garbled(e) == [k |-> e.k, c |-> "garbage", s |-> e.s]

\* what the property demands, stated on the entry set (not on the layout)
LeastGE(p, t) == IF \E i \in 1..N(p) : Key(i) >= t
                 THEN CHOOSE i \in 1..N(p) : Key(i) >= t /\ \A j \in 1..(i - 1) : Key(j) < t
                 ELSE 0
Lookup(p, t) == IF \E i \in 1..N(p) : Key(i) = t THEN CHOOSE i \in 1..N(p) : Key(i) = t ELSE 0

Shapes == UNION {[1..nb -> 1..MaxLen] : nb \in 1..MaxBlocks}
Plans == {[lens |-> l, R |-> r, seed |-> s] : l \in Shapes, r \in RIs, s \in Seeds}

-----------------------------------------------------------------------------
VARIABLES plan,    \* the input
          w,       \* writer: finished blocks, block under construction, offsets, index entries, bloom filters
          file,    \* the closed file (after Finish), possibly damaged
          cor,     \* the damage done to it
          rd,      \* "write" | "closed" | "open" | "failed"
          cur,     \* implementation cursor: index position, loaded block, position in it, flags
          apos,    \* ghost: where the property says the cursor is (entry number, 0 = invalid)
          ainit,   \* ghost: cursor has been positioned
          obs      \* last observation
vars == <<plan, w, file, cor, rd, cur, apos, ainit, obs>>

NoFile == [blocks |-> <<>>, blooms |-> <<>>, index |-> <<>>, indexDmg |-> FALSE, footDmg |-> FALSE, wild |-> FALSE]
NoCor == [cls |-> "none"]
\* sstable.Reader.NewIterator: index iterator on its first entry, no data block, not initialized
Fresh == [init |-> FALSE, ib |-> 1, db |-> 0, i |-> 0, err |-> FALSE, g |-> FALSE]
NoObs == [a |-> "none", valid |-> FALSE, e |-> NoEnt, err |-> FALSE]

-----------------------------------------------------------------------------
(* Writer: sstable.Writer.AddWithSequence / flushBlock / Finish, block.Builder.Finish *)

RestartsOf(m, R) == LET cnt == ((m - 1) \div R) + 1 IN [j \in 1..cnt |-> 1 + (j - 1) * R]
BSize(ents) == Len(ents) + 1                 \* any positive size: offsets only have to be distinct and increasing

WInit == [done |-> <<>>, blk |-> <<>>, next |-> 1, off |-> 0, index |-> <<>>, blooms |-> <<>>,
          bf |-> [off |-> 0, keys |-> {}]]

CutDue == Len(w.blk) > 0 /\ Len(w.blk) = plan.lens[Len(w.done) + 1]

\* AddWithSequence: remember the key in the current bloom filter, append to the block builder
Add == /\ rd = "write" /\ w.next <= N(plan) /\ ~CutDue
       /\ w' = [w EXCEPT !.blk = Append(@, Ent(plan, w.next)), !.next = @ + 1,
                         !.bf = [@ EXCEPT !.keys = @ \cup {Key(w.next)}]]
       /\ UNCHANGED <<plan, file, cor, rd, cur, apos, ainit, obs>>

\* flushBlock: serialize (restart point every R entries, checksum), index entry = first key -> offset,size;
\* the filter just filled belongs to THIS block; the next filter is labelled with the offset behind it
Flushed == LET sz == BSize(w.blk) IN
           [w EXCEPT !.done = Append(@, [ents |-> w.blk, rst |-> RestartsOf(Len(w.blk), plan.R), off |-> w.off,
                                         size |-> sz, dmg |-> "none", bad |-> 0]),
                     !.index = Append(@, [first |-> w.blk[1].k, off |-> w.off, size |-> sz]),
                     !.blooms = Append(@, w.bf),
                     !.bf = [off |-> w.off + sz, keys |-> {}],
                     !.off = @ + sz,
                     !.blk = <<>>]
CutBlock == /\ rd = "write" /\ CutDue
            /\ w' = Flushed
            /\ UNCHANGED <<plan, file, cor, rd, cur, apos, ainit, obs>>

\* Finish: (the last block was cut by CutDue as well: Finish flushes whatever is pending), bloom section, index, footer
Finish == /\ rd = "write" /\ w.next > N(plan) /\ w.blk = <<>>
          /\ file' = [blocks |-> w.done, blooms |-> w.blooms, index |-> w.index,
                      indexDmg |-> FALSE, footDmg |-> FALSE, wild |-> FALSE]
          /\ rd' = "closed"
          /\ UNCHANGED <<plan, w, cor, cur, apos, ainit, obs>>

-----------------------------------------------------------------------------
(* Damage: one altered byte, by the region it falls into *)

CorClasses == {"data", "restart", "sum", "indexkey", "indexoff", "footer", "bloomkey", "bloomoff", "bloomdrop", "bloomfail"}

Damages(f) ==
     {[cls |-> "data", b |-> b, i |-> i] : b \in 1..Len(f.blocks), i \in 1..MaxLen}
\cup {[cls |-> "restart", b |-> b, i |-> j] : b \in 1..Len(f.blocks), j \in 1..MaxLen}
\cup {[cls |-> "sum", b |-> b, i |-> 0] : b \in 1..Len(f.blocks)}
\cup {[cls |-> c, b |-> j, i |-> d] : c \in {"indexkey"}, j \in 1..Len(f.index), d \in {0 - 1, 1, 3}}
\cup {[cls |-> "indexoff", b |-> j, i |-> d] : j \in 1..Len(f.index), d \in {1, 2}}
\cup {[cls |-> "footer", b |-> 0, i |-> 0]}
\cup {[cls |-> "bloomkey", b |-> j, i |-> k] : j \in 1..Len(f.blooms), k \in 1..MaxLen}
\cup {[cls |-> c, b |-> j, i |-> 0] : c \in {"bloomoff", "bloomdrop", "bloomfail"}, j \in 1..Len(f.blooms)}

Applies(f, d) ==
  /\ d.cls \in Cors
  /\ d.cls = "data" => d.i <= Len(f.blocks[d.b].ents)
  /\ d.cls = "restart" => d.i <= Len(f.blocks[d.b].rst)
  /\ d.cls = "bloomkey" => d.i <= Len(f.blocks[d.b].ents)

Damaged(f, d) ==
  CASE d.cls = "data"      -> [f EXCEPT !.blocks[d.b].dmg = "data", !.blocks[d.b].ents[d.i] = Garbled(@)]
    [] d.cls = "restart"   -> [f EXCEPT !.blocks[d.b].dmg = "restart", !.blocks[d.b].bad = d.i]
    [] d.cls = "sum"       -> [f EXCEPT !.blocks[d.b].dmg = "sum"]
    [] d.cls = "indexkey"  -> [f EXCEPT !.indexDmg = TRUE, !.index[d.b].first = @ + d.i]
    \* an offset/size that is not the one of a block: the bytes fetched there are no block
    [] d.cls = "indexoff"  -> [f EXCEPT !.indexDmg = TRUE,
                                        !.index[d.b] = IF d.i = 1 THEN [@ EXCEPT !.off = @ + 1000] ELSE [@ EXCEPT !.size = @ + 1000]]
    [] d.cls = "footer"    -> [f EXCEPT !.footDmg = TRUE]
    \* the bloom section carries no checksum: a cleared bit (false negative), an altered label,
    \* a filter that no longer parses (dropped by Open, with every filter behind it), or a length that Open rejects
    [] d.cls = "bloomkey"  -> [f EXCEPT !.blooms[d.b].keys = @ \ {f.blocks[d.b].ents[d.i].k}]
    [] d.cls = "bloomoff"  -> [f EXCEPT !.blooms[d.b].off = @ + 1000]
    [] d.cls = "bloomdrop" -> [f EXCEPT !.blooms = SubSeq(@, 1, d.b - 1)]
    [] d.cls = "bloomfail" -> f

Corrupt == /\ rd = "closed" /\ cor = NoCor
           /\ \E d \in Damages(file) : Applies(file, d) /\ cor' = d /\ file' = Damaged(file, d)
           /\ UNCHANGED <<plan, w, rd, cur, apos, ainit, obs>>

-----------------------------------------------------------------------------
(* Reader: OpenReader *)

VerifiesBlocks == Covered \cap {"data", "restart"} # {}

\* footer.Decode (magic, checksum) + validateHeaderStructure; index block through block.NewReader (checksum);
\* bloom section parsed WITHOUT checksum (validateBloomFilterSize only)
OpenResult(f, d) ==
  IF f.footDmg THEN (IF "footer" \in Covered \/ "index" \in Covered THEN "failed" ELSE "wild")   \* index read from a bogus place
  ELSE IF f.indexDmg /\ "index" \in Covered THEN "failed"
  ELSE IF d.cls = "bloomfail" THEN "failed"
  ELSE "open"

Open == /\ rd = "closed"
        /\ LET r == OpenResult(file, cor) IN
           /\ rd' = IF r = "failed" THEN "failed" ELSE "open"
           /\ file' = [file EXCEPT !.wild = (r = "wild")]
        /\ cur' = Fresh /\ apos' = 0 /\ ainit' = FALSE
        /\ UNCHANGED <<plan, w, cor, obs>>

-----------------------------------------------------------------------------
(* Block level: BlockFetcher.FetchBlock + block.NewReader, block.Iterator *)

BlockAt(f, off) == IF \E b \in 1..Len(f.blocks) : f.blocks[b].off = off
                   THEN CHOOSE b \in 1..Len(f.blocks) : f.blocks[b].off = off ELSE 0

\* "ok": a block reader exists | "err": checksum / length error | "fab": unverified bytes are decoded as a block
LoadRes(f, loc) ==
  IF f.wild THEN (IF VerifiesBlocks THEN "err" ELSE "fab")     \* a bogus locator: the bytes there are no block
  ELSE LET b == BlockAt(f, loc.off) IN
       IF b = 0 \/ loc.size # f.blocks[b].size THEN (IF VerifiesBlocks THEN "err" ELSE "fab")
       ELSE LET d == f.blocks[b].dmg IN
            IF d = "none" THEN "ok"
            ELSE IF d = "sum" THEN (IF VerifiesBlocks THEN "err" ELSE "ok")
            ELSE IF d \in Covered THEN "err" ELSE "ok"      \* unverified damage: the altered content is used

\* the key decoded at restart point j (decodeCurrent); an altered restart offset points into the middle of an entry
RKey(blk, j) == IF blk.bad = j THEN Garbage.k ELSE blk.ents[blk.rst[j]].k

\* block.Iterator.Seek, binary search over the restart array:   left,right := 0,len-1
\*   for left < right { mid := (left+right)/2; if key(mid) < target { left = mid+1 } else { right = mid } }
RECURSIVE BSearch(_, _, _, _)
BSearch(blk, l, r, t) == IF l >= r THEN l
                         ELSE LET m == (l + r) \div 2 IN
                              IF RKey(blk, m) < t THEN BSearch(blk, m + 1, r, t) ELSE BSearch(blk, l, m, t)
\* left is the first restart point whose key is >= target (or the last one): step back one unless it is an exact hit
RestartPick(blk, t) == LET l == BSearch(blk, 1, Len(blk.rst), t) IN
                       IF l > 1 /\ RKey(blk, l) > t THEN l - 1 ELSE l
\* linear decode forward (decodeNext) to the first key >= target; 0 = block exhausted
RECURSIVE Scan(_, _, _)
Scan(blk, i, t) == IF i > Len(blk.ents) THEN 0 ELSE IF blk.ents[i].k >= t THEN i ELSE Scan(blk, i + 1, t)
\* decodeNext walks entry by entry and re-bases on every restart offset it reaches; it does not recognise an ALTERED
\* restart offset, so the full-key entry standing there is decoded as a delta: garbage from there on
WalkG(blk, from, to) == \E j \in 1..Len(blk.rst) : blk.bad = j /\ from < blk.rst[j] /\ blk.rst[j] <= to
\* result: <<position, garbled>> - decoding that STARTS at an altered restart offset yields garbage at once
BlockSeek(blk, t) == LET j == RestartPick(blk, t) IN
                     IF blk.bad = j THEN <<blk.rst[j], TRUE>>
                     ELSE LET i == Scan(blk, blk.rst[j], t) IN
                          <<i, WalkG(blk, blk.rst[j], IF i = 0 THEN Len(blk.ents) ELSE i)>>
\* block.Iterator.SeekToLast: from the last restart point decode forward to the end
BlockLast(blk) == <<Len(blk.ents), blk.bad = Len(blk.rst)>>
\* block.Iterator.SeekToFirst: decode at position 0
BlockFirst(blk) == <<1, FALSE>>
BlockNext(blk, i) == IF i = 0 \/ i >= Len(blk.ents) THEN <<0, FALSE>> ELSE <<i + 1, WalkG(blk, i, i + 1)>>

-----------------------------------------------------------------------------
(* Table level: sstable.Iterator *)

\* index scan of Iterator.Seek / Reader.FindBlockForKey: walk from the first index entry while its key <= target
RECURSIVE CountLE(_, _, _)
CountLE(ix, j, t) == IF j > Len(ix) \/ ix[j].first > t THEN j - 1 ELSE CountLE(ix, j + 1, t)

\* loadCurrentDataBlock at index position j, then position inside with pos = <<i, garbled>>
Loaded(f, c, j, pos) == [c EXCEPT !.ib = j, !.db = BlockAt(f, f.index[j].off), !.i = pos[1], !.g = pos[2]]
LoadFail(c, j, r) == [c EXCEPT !.ib = j, !.db = 0, !.i = 0, !.err = (r = "err"), !.g = (r = "fab")]
Blk(f, j) == f.blocks[BlockAt(f, f.index[j].off)]

\* next index entry behind j whose offset differs from off (findNextUniqueBlock / seekInNextBlocks); 0 = none
NextUnique(f, j, off) == IF \E x \in (j + 1)..Len(f.index) : f.index[x].off # off
                         THEN CHOOSE x \in (j + 1)..Len(f.index) :
                                  f.index[x].off # off /\ \A y \in (j + 1)..(x - 1) : f.index[y].off = off
                         ELSE 0

CSeekToFirst(f, c0) ==
  LET c == [c0 EXCEPT !.err = FALSE, !.g = FALSE, !.init = TRUE]
      r == LoadRes(f, f.index[1]) IN
  IF r = "ok" THEN Loaded(f, c, 1, BlockFirst(Blk(f, 1))) ELSE LoadFail(c, 1, r)

CSeek(f, c0, t) ==
  LET c == [c0 EXCEPT !.err = FALSE, !.g = FALSE, !.init = TRUE]
      n == CountLE(f.index, 1, t)
      j == IF n = 0 THEN 1 ELSE n                    \* last block whose first key <= t, else the first block
      r == LoadRes(f, f.index[j]) IN
  IF r # "ok" THEN LoadFail(c, j, r)
  ELSE LET pos == BlockSeek(Blk(f, j), t) IN
       IF pos[1] # 0 THEN Loaded(f, c, j, pos)
       ELSE \* block exhausted: first entry of the next block (seekInNextBlocks)
            LET x == NextUnique(f, j, f.index[j].off) IN
            IF x = 0 THEN [Loaded(f, c, j, <<0, FALSE>>) EXCEPT !.ib = 0]      \* index iterator ran off its end
            ELSE LET r2 == LoadRes(f, f.index[x]) IN
                 IF r2 = "ok" THEN Loaded(f, c, x, BlockFirst(Blk(f, x))) ELSE LoadFail(c, x, r2)

\* advanceToNextBlock
CAdvance(f, c) ==
  LET off == IF c.ib = 0 THEN 0 - 1 ELSE f.index[c.ib].off
      x == IF c.ib = 0 THEN 0 ELSE NextUnique(f, c.ib, off) IN
  IF x = 0 THEN [c EXCEPT !.ib = 0, !.db = 0, !.i = 0, !.g = FALSE]              \* resetBlockIterator
  ELSE LET r == LoadRes(f, f.index[x]) IN
       IF r = "ok" THEN Loaded(f, c, x, BlockFirst(Blk(f, x))) ELSE LoadFail(c, x, r)

CNext(f, c) ==
  IF ~c.init THEN CSeekToFirst(f, c)                  \* "if !it.initialized { it.SeekToFirst(); return it.Valid() }"
  ELSE IF c.db = 0 THEN
         (IF c.ib # 0 THEN LET r == LoadRes(f, f.index[c.ib]) IN          \* retry the block at the index position
                           IF r = "ok" THEN Loaded(f, c, c.ib, BlockFirst(Blk(f, c.ib))) ELSE LoadFail(c, c.ib, r)
          ELSE c)
  ELSE LET pos == BlockNext(f.blocks[c.db], c.i) IN
       IF pos[1] # 0 THEN [c EXCEPT !.i = pos[1], !.g = c.g \/ pos[2]] ELSE CAdvance(f, c)

\* findLastUniqueBlockOffset: offset of the last index entry that introduces a new offset; the first entry with it
CSeekToLast(f, c0) ==
  LET c == [c0 EXCEPT !.err = FALSE, !.g = FALSE, !.init = TRUE]
      firsts == {x \in 1..Len(f.index) : \A y \in 1..(x - 1) : f.index[y].off # f.index[x].off}
      lx == CHOOSE x \in firsts : \A y \in firsts : y <= x
      r == LoadRes(f, f.index[lx]) IN
  IF r = "ok" THEN Loaded(f, c, lx, BlockLast(Blk(f, lx))) ELSE LoadFail(c, lx, r)

\* what the caller sees: Valid / Key,Value,IsTombstone,SequenceNumber / Error
Obs(f, c, a) ==
  [a |-> a,
   valid |-> c.g \/ (c.db # 0 /\ c.i # 0),
   e |-> IF c.g THEN Garbage ELSE IF c.db # 0 /\ c.i # 0 THEN f.blocks[c.db].ents[c.i] ELSE NoEnt,
   err |-> c.err]

\* entry NUMBER under the cursor (0 = invalid) - only meaningful on an intact file
FlatPos(f, c) == IF c.db = 0 \/ c.i = 0 THEN 0
                 ELSE LET RECURSIVE Before(_)
                          Before(b) == IF b = 0 THEN 0 ELSE Len(f.blocks[b].ents) + Before(b - 1)
                      IN Before(c.db - 1) + c.i

-----------------------------------------------------------------------------
(* Reader.Get: FindBlockForKey, bloom filter of that block, SearchBlockForKey *)

FilterFor(f, off) == IF \E x \in 1..Len(f.blooms) : f.blooms[x].off = off
                     THEN CHOOSE x \in 1..Len(f.blooms) : f.blooms[x].off = off /\ \A y \in 1..(x - 1) : f.blooms[y].off # off
                     ELSE 0
RECURSIVE FindEq(_, _, _)
FindEq(blk, i, k) == IF i > Len(blk.ents) THEN 0 ELSE IF blk.ents[i].k = k THEN i ELSE FindEq(blk, i + 1, k)

\* fp: the filter may answer "maybe" for a key it does not hold (false positive)
GetImpl(f, k, fp) ==
  LET n == CountLE(f.index, 1, k) IN
  IF n = 0 THEN [r |-> "notfound", e |-> NoEnt]                       \* k precedes every block
  ELSE LET loc == f.index[n]
           x == FilterFor(f, loc.off) IN
       IF x = 0 \/ ~(k \in f.blooms[x].keys \/ fp) THEN [r |-> "notfound", e |-> NoEnt]
       ELSE LET r == LoadRes(f, loc) IN
            IF r = "err" THEN [r |-> "err", e |-> NoEnt]
            ELSE IF r = "fab" THEN [r |-> "found", e |-> Garbage]
            ELSE LET blk == f.blocks[BlockAt(f, loc.off)]
                     pos == BlockSeek(blk, k) IN
                 IF pos[2] THEN [r |-> "found", e |-> Garbage]
                 ELSE IF pos[1] # 0 /\ blk.ents[pos[1]].k = k THEN [r |-> "found", e |-> blk.ents[pos[1]]]
                 ELSE \* "if binary search fails, do a linear scan (for backup)"
                      LET i == FindEq(blk, 1, k) IN
                      IF WalkG(blk, 1, IF i = 0 THEN Len(blk.ents) ELSE i) THEN [r |-> "found", e |-> Garbage]
                      ELSE IF i # 0 THEN [r |-> "found", e |-> blk.ents[i]] ELSE [r |-> "notfound", e |-> NoEnt]

-----------------------------------------------------------------------------
(* Cursor and lookup calls as actions; the ghost cursor follows the property *)

Step(c2, a, ap) == /\ cur' = c2 /\ obs' = Obs(file, c2, a) /\ apos' = ap /\ ainit' = TRUE
                      /\ UNCHANGED <<plan, w, file, cor, rd>>

SeekToFirst == rd = "open" /\ Step(CSeekToFirst(file, cur), "first", 1)
SeekToLast  == rd = "open" /\ Step(CSeekToLast(file, cur), "last", N(plan))
Seek(t)     == rd = "open" /\ Step(CSeek(file, cur, t), "seek", LeastGE(plan, t))
Next        == rd = "open" /\ Step(CNext(file, cur), "next",
                                   IF ~ainit THEN 1 ELSE IF apos = 0 \/ apos = N(plan) THEN 0 ELSE apos + 1)
NewIter     == rd = "open" /\ cur' = Fresh /\ apos' = 0 /\ ainit' = FALSE /\ obs' = [NoObs EXCEPT !.a = "newiter"]
                           /\ UNCHANGED <<plan, w, file, cor, rd>>
\* Get is a method of the Reader, not of a cursor: it neither reads nor moves one (explored next to a fresh cursor only)
Get(k, fp)  == /\ rd = "open" /\ cur = Fresh
               /\ LET g == GetImpl(file, k, fp) IN
                  obs' = [a |-> "get", valid |-> g.r = "found", e |-> g.e, err |-> g.r = "err"]
               /\ UNCHANGED <<plan, w, file, cor, rd, cur, apos, ainit>>

Init == /\ plan \in Plans /\ w = WInit /\ file = NoFile /\ cor = NoCor /\ rd = "write"
        /\ cur = Fresh /\ apos = 0 /\ ainit = FALSE /\ obs = NoObs

Next_ == \/ Add \/ CutBlock \/ Finish \/ Corrupt \/ Open
         \/ SeekToFirst \/ SeekToLast \/ Next \/ NewIter
         \/ \E t \in Targets(plan) : Seek(t) \/ \E fp \in BOOLEAN : Get(t, fp)

Spec == Init /\ [][Next_]_vars

-----------------------------------------------------------------------------
(* Properties *)

Intact == rd = "open" /\ cor = NoCor
\* properties of the FILE (no cursor involved) are evaluated once per file, right after Open
JustOpened == Intact /\ obs.a = "none" /\ cur = Fresh

\* the writer: blocks as planned, index = first key of every block, ascending offsets
Finished == rd \in {"closed", "open", "failed"}
FileAsPlanned == Finished /\ cor = NoCor =>
  /\ Len(file.blocks) = Len(plan.lens)
  /\ \A b \in 1..Len(file.blocks) : Len(file.blocks[b].ents) = plan.lens[b]
  /\ \A b \in 1..Len(file.blocks) : file.index[b] = [first |-> file.blocks[b].ents[1].k, off |-> file.blocks[b].off,
                                                    size |-> file.blocks[b].size]
  /\ \A b \in 2..Len(file.blocks) : file.blocks[b].off > file.blocks[b - 1].off

\* every key of a block is in the filter that Get will consult for that block
BloomNoFalseNegative == Finished /\ cor = NoCor =>
  \A b \in 1..Len(file.blocks) : \A i \in 1..Len(file.blocks[b].ents) :
      LET x == FilterFor(file, file.index[b].off) IN x # 0 /\ file.blocks[b].ents[i].k \in file.blooms[x].keys

SeekImpl(f, t) == FlatPos(f, CSeek(f, Fresh, t))
SeekCorrect == JustOpened => \A t \in Targets(plan) : SeekImpl(file, t) = LeastGE(plan, t)

GetCorrect == JustOpened => \A k \in Targets(plan) : \A fp \in BOOLEAN :
   LET g == GetImpl(file, k, fp) l == Lookup(plan, k) IN
   IF l = 0 THEN g.r = "notfound" ELSE g.r = "found" /\ g.e = Ent(plan, l)

\* forward iteration of a fresh cursor: SeekToFirst, then Next until invalid
RECURSIVE Collect(_, _, _)
Collect(f, c, fuel) == IF fuel = 0 \/ FlatPos(f, c) = 0 THEN <<>>
                       ELSE <<Obs(f, c, "it").e>> \o Collect(f, CNext(f, c), fuel - 1)
IterAll(f) == Collect(f, CSeekToFirst(f, Fresh), N(plan) + 2)
IterYieldsAllOnce == JustOpened => IterAll(file) = Flat(plan)
LastCorrect == JustOpened => FlatPos(file, CSeekToLast(file, Fresh)) = N(plan)

\* whatever calls were made on the cursor, it shows what the property says
CursorRefines == Intact =>
  /\ FlatPos(file, cur) = apos
  /\ obs.a \in {"first", "last", "seek", "next"} =>
       /\ obs.valid = (apos # 0) /\ ~obs.err
       /\ apos # 0 => obs.e = Ent(plan, apos)

\* a damaged file: open fails, or the call fails, or what is shown was written (possibly less than was written)
CorruptOpenFailsOrSubset == rd = "open" /\ cor # NoCor /\ obs.valid => obs.e \in Written(plan)
\* ... and an intact file never fails
IntactNeverFails == cor = NoCor => rd # "failed" /\ ~obs.err

Inv == /\ FileAsPlanned /\ BloomNoFalseNegative /\ SeekCorrect /\ GetCorrect /\ IterYieldsAllOnce /\ LastCorrect
       /\ CursorRefines /\ CorruptOpenFailsOrSubset /\ IntactNeverFails
=============================================================================
