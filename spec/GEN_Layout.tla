----------------------------- MODULE GEN_Layout -----------------------------
(* Exhaustive generation of the "two overlapping table files x every range compaction" space (C12, C01): every way to
   write two layers over three keys (per key and layer: a value, a deletion, or nothing), each flushed to its own table
   file, followed by one compaction call (the strategy cycle, or a range compaction for every [lo, hi] incl. empty and
   inverted ranges), then retirement of the logs and a reopen.  The predicted observation after every call is the
   abstract map (KevoStore!ReadLatest / DirView: maintenance is invisible).  Run in model-checking mode: TLC visits every
   behaviour once and prints it at its end. *)
EXTENDS Integers, Sequences, FiniteSets, Json, TLC

Keys == <<"k1", "k2", "k3">>
N == Len(Keys)
VARIABLES stage,   \* <<layer, key index>> while writing, then "flushed2", "compacted", "retired", "done"
          abs,     \* key -> value token or "NONE"
          h
vars == <<stage, abs, h>>

St == [k \in {Keys[i] : i \in 1..N} |-> abs[k]]
Rec(a, op) == [a |-> a, op |-> op, st |-> [k \in {Keys[i] : i \in 1..N} |-> abs'[k]], seq |-> 0]

Init == stage = <<1, 1>> /\ abs = [k \in {Keys[i] : i \in 1..N} |-> "NONE"] /\ h = <<>>

Advance(l, i) == IF i < N THEN <<l, i + 1>> ELSE <<l, N + 1>>
\* per key and layer: put a value (layer-specific, so versions can be told apart), delete, or skip
WriteKey == /\ Len(stage) = 2 /\ stage[2] <= N
            /\ LET l == stage[1]
                   i == stage[2]
                   k == Keys[i]
               IN \/ /\ abs' = [abs EXCEPT ![k] = IF l = 1 THEN "v1" ELSE "v2"]
                     /\ h' = Append(h, Rec("put", <<[k |-> k, v |-> IF l = 1 THEN "v1" ELSE "v2"]>>))
                  \/ /\ abs' = [abs EXCEPT ![k] = "NONE"]
                     /\ h' = Append(h, Rec("delete", <<[k |-> k, v |-> "TOMB"]>>))
                  \/ UNCHANGED <<abs, h>>
            /\ stage' = Advance(stage[1], stage[2])
FlushLayer == /\ Len(stage) = 2 /\ stage[2] = N + 1
              /\ h' = Append(h, Rec("flush", <<>>)) /\ UNCHANGED abs
              /\ stage' = IF stage[1] = 1 THEN <<2, 1>> ELSE <<"flushed2">>
CompactCall == /\ stage = <<"flushed2">>
               /\ \/ h' = Append(h, Rec("compact", <<>>))
                  \/ \E lo \in 1..N, hi \in 1..N : h' = Append(h, Rec("compactsub", <<[k |-> Keys[lo], v |-> Keys[hi]]>>))
               /\ UNCHANGED abs /\ stage' = <<"compacted">>
RetireStep == stage = <<"compacted">> /\ h' = Append(h, Rec("retire", <<>>)) /\ UNCHANGED abs /\ stage' = <<"retired">>
Reopen == stage = <<"retired">> /\ h' = Append(h, Rec("reopen", <<>>)) /\ UNCHANGED abs /\ stage' = <<"reopened">>
Emit == stage = <<"reopened">> /\ PrintT(<<"BEHAVIOUR", ToJson(h)>>) /\ stage' = <<"done">> /\ UNCHANGED <<abs, h>>

Next == WriteKey \/ FlushLayer \/ CompactCall \/ RetireStep \/ Reopen \/ Emit
Spec == Init /\ [][Next]_vars
=============================================================================
