----------------------------- MODULE GEN_Layout -----------------------------
(* Exhaustive generation of the "two overlapping table files x every range compaction" space (C12, C01): every way to
   write two layers over three keys (per key and layer: a value, a deletion, or nothing), each flushed to its own table
   file, followed by one compaction call (the strategy cycle, or a range compaction for every [lo, hi] incl. empty and
   inverted ranges), then retirement of the logs and a reopen.  The predicted observation after every call is the
   abstract map (KevoStore!ReadLatest / DirView: maintenance is invisible).  Run in model-checking mode: TLC visits every
   behaviour once and prints it at its end. *)
EXTENDS Integers, Sequences, FiniteSets, Json, TLC

CONSTANT Separate    \* TRUE: logs retired and database reopened between the layers, so that each layer gets a table file of its own
CONSTANT NLayers     \* 2: enumerated exhaustively (model-checking mode); 3: sampled (simulation mode) - three files can form a CHAIN
                     \* (the first overlaps the requested range, the second only the first, the third only the second)
Keys == <<"k1", "k2", "k3">>
N == Len(Keys)
LVal(l) == <<"v1", "v2", "v3">>[l]
VARIABLES phase,   \* "write" | "flushed2" | "compacted" | "retired" | "reopened" | "done"
          layer, idx,   \* while writing: which layer, which key comes next
          abs,     \* key -> value token or "NONE"
          cov,     \* layer -> set of key indexes the layer writes (its table file spans from the smallest to the greatest)
          h
vars == <<phase, layer, idx, abs, cov, h>>

\* key ranges of the table files and the closure of a range compaction's selection under overlap, pass by pass
NonEmpty == {l \in 1..NLayers : cov[l] # {}}
Lo(l) == CHOOSE i \in cov[l] : \A j \in cov[l] : i <= j
Hi(l) == CHOOSE i \in cov[l] : \A j \in cov[l] : i >= j
Ov(a, b) == Lo(a) <= Hi(b) /\ Lo(b) <= Hi(a)
Sel0(lo, hi) == {l \in NonEmpty : Lo(l) <= hi /\ lo <= Hi(l)}
Grow(S) == S \cup {l \in NonEmpty : \E m \in S : Ov(l, m)}
\* the selection is not closed after ONE pass over the files: a chain of overlaps
Deep(lo, hi) == lo <= hi /\ Grow(Grow(Sel0(lo, hi))) # Grow(Sel0(lo, hi))

St == [k \in {Keys[i] : i \in 1..N} |-> abs[k]]
Rec(a, op) == [a |-> a, op |-> op, st |-> [k \in {Keys[i] : i \in 1..N} |-> abs'[k]], seq |-> 0]

Init == phase = "write" /\ layer = 1 /\ idx = 1 /\ abs = [k \in {Keys[i] : i \in 1..N} |-> "NONE"] /\ h = <<>>
        /\ cov = [l \in 1..NLayers |-> {}]

\* per key and layer: put a value (layer-specific, so versions can be told apart), delete, or skip
WriteKey == /\ phase = "write" /\ idx <= N
            /\ LET k == Keys[idx]
               IN \/ /\ abs' = [abs EXCEPT ![k] = LVal(layer)]
                     /\ h' = Append(h, Rec("put", <<[k |-> k, v |-> LVal(layer)]>>))
                     /\ cov' = [cov EXCEPT ![layer] = @ \cup {idx}]
                  \/ /\ abs' = [abs EXCEPT ![k] = "NONE"]
                     /\ h' = Append(h, Rec("delete", <<[k |-> k, v |-> "TOMB"]>>))
                     /\ cov' = [cov EXCEPT ![layer] = @ \cup {idx}]
                  \/ UNCHANGED <<abs, h, cov>>
            /\ idx' = idx + 1 /\ UNCHANGED <<phase, layer>>
FlushLayer == /\ phase = "write" /\ idx = N + 1
              /\ UNCHANGED <<abs, cov>>                                            \* (abs' must be fixed before Rec reads it)
              \* kevo's flush of the active table leaves it in place, and a reopen rebuilds it from the log: a later flush would
              \* write the earlier layers again (cumulative files).  Separate: the logs are retired and the database reopened
              \* between the layers
              /\ h' = IF Separate /\ layer < NLayers
                      THEN h \o <<Rec("flush", <<>>), Rec("retire", <<>>), Rec("reopen", <<>>)>>
                      ELSE Append(h, Rec("flush", <<>>))
              /\ IF layer < NLayers THEN layer' = layer + 1 /\ idx' = 1 /\ phase' = "write"
                 ELSE phase' = "flushed2" /\ UNCHANGED <<layer, idx>>
\* three layers: only the range compactions whose selection needs a second closure pass (the rest of that space is sampled
\* by GEN_Store's random walks)
CompactCall == /\ phase = "flushed2" /\ UNCHANGED <<abs, cov>>
               /\ \/ NLayers = 2 /\ h' = Append(h, Rec("compact", <<>>))
                  \/ \E lo \in 1..N, hi \in 1..N : /\ (NLayers = 2 \/ Deep(lo, hi))
                                                     /\ h' = Append(h, Rec("compactsub", <<[k |-> Keys[lo], v |-> Keys[hi]]>>))
               /\ phase' = "compacted" /\ UNCHANGED <<layer, idx>>
RetireStep == phase = "compacted" /\ UNCHANGED <<abs, cov>> /\ h' = Append(h, Rec("retire", <<>>)) /\ phase' = "retired" /\ UNCHANGED <<layer, idx>>
Reopen == phase = "retired" /\ UNCHANGED <<abs, cov>> /\ h' = Append(h, Rec("reopen", <<>>)) /\ phase' = "reopened" /\ UNCHANGED <<layer, idx>>
Emit == phase = "reopened" /\ PrintT(<<"BEHAVIOUR", ToJson(h)>>) /\ phase' = "done" /\ UNCHANGED <<abs, cov, h, layer, idx>>

Next == WriteKey \/ FlushLayer \/ CompactCall \/ RetireStep \/ Reopen \/ Emit
Spec == Init /\ [][Next]_vars
=============================================================================
