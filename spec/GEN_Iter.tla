------------------------------ MODULE GEN_Iter ------------------------------
(* Behaviour generation for the scan conformance replay (C05): a random layer arrangement is built entry by entry,
   bounds and filter are drawn, then a cursor program runs; the history records every cursor operation with the
   position and the value identity (supplying source) the specification predicts.  Used with `tlc -simulate`. *)
EXTENDS KevoIter, Json, Randomization

CONSTANTS BuildSteps, GenLen
VARIABLES phase, nb, h, done
gvars == <<vars, phase, nb, h, done>>

R(n) == RandomElement(1..(n + nb - nb))      \* mentions a variable: TLC must not fold it into a constant

GInit == /\ src = [s \in 1..NSrc |-> [k \in KeyPos |-> "-"]]
         /\ lo = 1 /\ hi = End /\ flt = KeyPos
         /\ cur = [s \in 1..NSrc |-> End] /\ at = End /\ val = <<0, "-">> /\ steps = 0
         /\ phase = "build" /\ nb = 0 /\ h = <<>> /\ done = FALSE

Build == /\ phase = "build" /\ nb < BuildSteps
         /\ \E s \in {R(NSrc)}, i \in {R(N)}, m \in {R(3)} :
              src' = [src EXCEPT ![s][2 * i] = IF m = 1 THEN "T" ELSE "V"]
         /\ nb' = nb + 1
         /\ UNCHANGED <<lo, hi, flt, cur, at, val, steps, phase, h, done>>

Shape == /\ phase = "build" /\ nb = BuildSteps
         /\ \E a \in {R(2 * N + 1)}, b \in {R(2 * N + 2)}, f \in {R(4)}, x \in {R(N)}, y \in {R(N)} :
              /\ lo' = IF R(3) = 1 THEN 1 ELSE a
              /\ hi' = IF R(3) = 1 THEN End ELSE b
              /\ flt' = IF f <= 2 THEN KeyPos
                        ELSE IF f = 3 THEN {2 * i : i \in (IF x <= y THEN x..y ELSE y..x)}        \* a contiguous block: a prefix
                        ELSE {2 * i : i \in {j \in 1..N : (j + x) % 2 = 0 \/ j = y}}                \* scattered: a suffix
         /\ phase' = "run"
         /\ UNCHANGED <<src, cur, at, val, steps, nb, h, done>>

Obs(op, t) == [op |-> op, t |-> t, at |-> at', src |-> val'[1], mark |-> val'[2]]
Run == /\ phase = "run" /\ Len(h) < GenLen
       /\ \/ SeekToFirst /\ h' = Append(h, Obs("first", 0))
          \/ \E t \in {R(2 * N + 1)} : Seek(t) /\ h' = Append(h, Obs("seek", t))
          \/ Next /\ h' = Append(h, Obs("next", 0))
          \/ Next /\ h' = Append(h, Obs("next", 0))
          \/ Next /\ h' = Append(h, Obs("next", 0))
          \/ SeekToLast /\ h' = Append(h, Obs("last", 0))
       /\ UNCHANGED <<phase, nb, done>>

GEmit == /\ phase = "run" /\ Len(h) = GenLen /\ ~done
         /\ PrintT(<<"BEHAVIOUR", ToJson([srcs |-> [s \in 1..NSrc |-> [i \in 1..N |-> src[s][2 * i]]], lo |-> lo, hi |-> hi,
                                         flt |-> [i \in 1..N |-> (2 * i) \in flt], n |-> N, prog |-> h])>>)
         /\ done' = TRUE /\ UNCHANGED <<vars, phase, nb, h>>

GNext == Build \/ Shape \/ Run \/ GEmit
GSpec == GInit /\ [][GNext]_gvars
=============================================================================
