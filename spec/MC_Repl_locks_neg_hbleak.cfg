SPECIFICATION Spec
CONSTANTS
  OldOrder = FALSE
  SyncNotify = FALSE
  UnregUnderRead = FALSE
  HbLeak = TRUE
  RetentionHoldsRead = FALSE
INVARIANTS LocksConsistent
PROPERTIES WriteReturns AllReturn
CHECK_DEADLOCK TRUE
