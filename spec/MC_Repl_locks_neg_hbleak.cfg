SPECIFICATION Spec
CONSTANTS
  OldOrder = FALSE
  SyncNotify = FALSE
  UnregUnderRead = FALSE
  HbLeak = TRUE
INVARIANTS LocksConsistent
PROPERTIES WriteReturns AllReturn
CHECK_DEADLOCK TRUE
