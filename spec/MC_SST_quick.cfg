SPECIFICATION Spec
CONSTANTS
  MaxBlocks = 3
  MaxLen = 5
  RIs = {1, 2, 3}
  Seeds = {1}
  Covered = {"data", "restart", "index", "footer"}
  Cors = {}
INVARIANT Inv
CHECK_DEADLOCK FALSE
