SPECIFICATION Spec
CONSTANTS
  Keys = {"k1", "k2", "k3"}
  Vals = {"v1"}
  SyncMode = "imm"
  MaxOps = 3
  MaxBatch = 1
  MaxImm = 1
  MaxFiles = 3
  MaxCrash = 0
  MaxLevel = 2
  DKeys = {"k1", "k2", "k3"}
  DVals = {"v1"}
  DSync = "imm"
  DMaxOps = 3
  DMaxBatch = 1
INVARIANT Inv
CONSTRAINT StateBound
CHECK_DEADLOCK FALSE
