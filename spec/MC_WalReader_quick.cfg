SPECIFICATION RSpec
CONSTANTS
  MaxEntries = 3
  Parts = {1, 2, 3}
  MaxPost = 2
INVARIANTS DeliveredIsSubSeq FirstReplayRecoversPrefix SecondReplay
PROPERTIES FilesKept
CHECK_DEADLOCK TRUE
