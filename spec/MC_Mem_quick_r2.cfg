SPECIFICATION Spec
CONSTANTS
  DataKeys = {2, 4}
  Targets = {4}
  SeqNums = {0, 2}
  Payloads = {"v1"}
  MaxIns = 2
  MaxH = 2
  Readers = {1, 2}
  RStartMin = 0
  ROps = {"find", "first"}
  ImmMidInsert = TRUE
  PublishFirst = FALSE
  TopDown = FALSE
  Reload = "recheck"
INVARIANTS TypeOK Level0Sorted LevelsAreSublists FindReturnsMaxSeq ReaderSeesAtLeastPrefix ImmutableNeverChanges
CHECK_DEADLOCK FALSE
