---------------------------- MODULE GEN_Retention ----------------------------
(* Behaviour generator for KevoRetention: random walks (tlc -simulate) through the specification's own actions with a
   history variable; every step records the action and the state the specification predicts after it (log files as
   lists of sequence numbers, readable entries, next sequence number, unflushedFrom).  The harness (kvh retention-replay)
   performs the same calls on a real primary - every "life" between Recover and Die is one child process that is
   killed without Close - and compares after every step. *)
EXTENDS KevoRetention, Json

CONSTANT GenLen
VARIABLES h, done
gvars == <<vars, h, done>>

SetSeq(S) == LET F[T \in SUBSET S] == IF T = {} THEN <<>> ELSE LET m == CHOOSE x \in T : \A y \in T : x <= y IN <<m>> \o F[T \ {m}] IN F[S]
Obs == [files |-> [i \in 1..Len(files') |-> SetSeq(files'[i])], readable |-> SetSeq(mem' \cup tab' \cup UNION {imq'[i].e : i \in 1..Len(imq')}), next |-> next', uf |-> uf', up |-> up', busy |-> busy']
Go == ~done /\ Len(h) < GenLen /\ done' = done

GInit == Init /\ h = <<>> /\ done = FALSE
GPut == Go /\ Put /\ h' = Append(h, [a |-> "put", s |-> next, torn |-> FALSE] @@ Obs)
GPutQ == Go /\ \E big \in BOOLEAN : PutQ(big) /\ h' = Append(h, [a |-> IF big THEN "putbig" ELSE "put", s |-> next, torn |-> FALSE] @@ Obs)
GBgRun == Go /\ BgRun /\ h' = Append(h, [a |-> "bgrun", s |-> 0, torn |-> FALSE] @@ Obs)
GRetainCount == Go /\ RetainCount /\ h' = Append(h, [a |-> "retaincount", s |-> 0, torn |-> FALSE] @@ Obs)
GFlush == Go /\ Flush /\ h' = Append(h, [a |-> "flush", s |-> 0, torn |-> FALSE] @@ Obs)
GAck == Go /\ \E n \in 1..MaxSeq : Ack(n) /\ h' = Append(h, [a |-> "ack", s |-> n, torn |-> FALSE] @@ Obs)
GDie == Go /\ \E t \in BOOLEAN : Die(t) /\ h' = Append(h, [a |-> "die", s |-> 0, torn |-> t] @@ Obs)
GRecover == Go /\ Recover /\ h' = Append(h, [a |-> "recover", s |-> 0, torn |-> FALSE] @@ Obs)
\* a walk is printed when it is complete and stands on a running node (the harness ends it with a last kill + reopen check)
GEmit == /\ Len(h) = GenLen /\ ~done /\ PrintT(<<"BEHAVIOUR", ToJson(h)>>)
         /\ done' = TRUE /\ UNCHANGED <<vars, h>>

GNext == GEmit \/ GPut \/ GPutQ \/ GBgRun \/ GRetainCount \/ GFlush \/ GAck \/ GDie \/ GRecover
GSpec == GInit /\ [][GNext]_gvars
=============================================================================
