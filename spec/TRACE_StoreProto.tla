-------------------------- MODULE TRACE_StoreProto --------------------------
(***************************************************************************)
(* Validation of the hook-event stream of the real storage engine against  *)
(* the ORDERING RULES that KevoStore's actions embody (C01/C02/C08/C12):   *)
(* what a crash test cannot see - e.g. an acknowledgement before the sync, *)
(* a table renamed before it was synced - is visible in the order of the   *)
(* events, which are numbered by one counter taken inside the hooks, i.e.  *)
(* under the lock that protects each step.                                 *)
(*                                                                         *)
(*  WLog      : a record enters the log with exactly the next number       *)
(*              (single operation or batch: ONE number); numbering is      *)
(*              handed over exactly at rotation and recovery               *)
(*  sync rule : with synchronous logging the append returns only after a   *)
(*              sync that covers its number                                *)
(*  WDone     : memtable insert only after the append returned, with the   *)
(*              operation's number; every entry of a batch with it         *)
(*  rotation  : begin -> marked -> old log safe -> new log -> counter      *)
(*              handed over -> created -> swapped -> closed                *)
(*  tables    : written -> synced -> renamed -> (flush) published          *)
(*  compaction: inputs are deleted only after all outputs are complete     *)
(***************************************************************************)
EXTENDS Integers, Sequences, FiniteSets, Json, TLC

VARIABLES l, mode, next, pend, synced, logged, rot, sst, renamed, tbl, cmp
Trace == ndJsonDeserialize("trace.ndjson")
vars == <<l, mode, next, pend, synced, logged, rot, sst, renamed, tbl, cmp>>
S == Trace[l].site
Ea == Trace[l].a
Eb == Trace[l].b
Ev == l <= Len(Trace) /\ l' = l + 1
Max(a, b) == IF a > b THEN a ELSE b

Init == /\ TLCSet(1, 0) /\ l = 1 /\ mode = 2 /\ next = 1 /\ pend = 0 /\ synced = 0 /\ logged = 0
        /\ rot = "idle" /\ sst = "idle" /\ renamed = FALSE /\ tbl = {} /\ cmp = "idle"

Reset == /\ Ev /\ S = "h.reset"
         /\ mode' = Trace[l].sync /\ next' = 1 /\ pend' = 0 /\ synced' = 0 /\ logged' = 0
         /\ rot' = "idle" /\ sst' = "idle" /\ renamed' = FALSE /\ tbl' = {} /\ cmp' = "idle"

\* the harness retired log files while the engine was closed: kevo keeps no persistent counter, the numbering may restart
\* (outside C08); next = 0 means "unknown until the next record"
Retired == /\ Ev /\ S = "h.retire" /\ next' = 0 /\ synced' = 0     \* (and with it what counts as synced)
           /\ UNCHANGED <<mode, pend, logged, rot, sst, renamed, tbl, cmp>>

\* ---- write path
Written == /\ Ev /\ S \in {"wal.append.written", "wal.batch.written"}
           /\ (next = 0 \/ Ea = next) /\ pend = 0
           /\ next' = Ea + 1 /\ pend' = Ea
           /\ UNCHANGED <<mode, synced, logged, rot, sst, renamed, tbl, cmp>>
BatchRec == /\ Ev /\ S = "wal.batch.rec" /\ (next = 0 \/ Ea = next) /\ pend = 0
            /\ UNCHANGED <<mode, next, pend, synced, logged, rot, sst, renamed, tbl, cmp>>
SyncDone == /\ Ev /\ S \in {"wal.sync.done", "wal.close.synced"}
            /\ synced' = Max(synced, Ea)
            /\ UNCHANGED <<mode, next, pend, logged, rot, sst, renamed, tbl, cmp>>
AppendDone == /\ Ev /\ S \in {"wal.append.done", "wal.batch.done"} /\ pend = Ea
              /\ mode = 2 => synced >= Ea                        \* acknowledged only after a sync that covers it
              /\ pend' = 0
              /\ UNCHANGED <<mode, next, synced, logged, rot, sst, renamed, tbl, cmp>>
Logged == /\ Ev /\ S \in {"sm.put.logged", "sm.del.logged", "sm.batch.logged"}
          /\ pend = 0 /\ Ea = next - 1 /\ logged = 0
          /\ logged' = Ea
          /\ UNCHANGED <<mode, next, pend, synced, rot, sst, renamed, tbl, cmp>>
\* an EMPTY batch (Manager.ApplyBatch with no entries): no record, no number - the log answers with the number it would give
\* next, and the last sequence number the engine reports stays the last one that was given
EmptyLogged == /\ Ev /\ S = "sm.batch.logged" /\ Eb = 0 /\ pend = 0 /\ logged = 0 /\ (next = 0 \/ Ea = next)
               /\ logged' = -1
               /\ UNCHANGED <<mode, next, pend, synced, rot, sst, renamed, tbl, cmp>>
EmptyApplied == /\ Ev /\ S = "sm.batch.applied" /\ Eb = 0 /\ logged = -1 /\ (next = 0 \/ Ea = next - 1)
                /\ logged' = 0
                /\ UNCHANGED <<mode, next, pend, synced, rot, sst, renamed, tbl, cmp>>
BatchEntry == /\ Ev /\ S = "sm.batch.entry" /\ logged = Ea
              /\ UNCHANGED <<mode, next, pend, synced, logged, rot, sst, renamed, tbl, cmp>>
Applied == /\ Ev /\ S \in {"sm.put.applied", "sm.del.applied", "sm.batch.applied"} /\ logged = Ea
           /\ logged' = 0
           /\ UNCHANGED <<mode, next, pend, synced, rot, sst, renamed, tbl, cmp>>

\* ---- rotation (and the creation / numbering of log objects)
RotStep(site, from, to) == Ev /\ S = site /\ rot = from /\ rot' = to
Rotation == /\ \/ RotStep("sm.rotate.begin", "idle", "begin") \/ RotStep("sm.rotate.marked", "begin", "marked")
               \/ RotStep("sm.rotate.oldsafe", "marked", "oldsafe")
               \/ RotStep("wal.new", "oldsafe", "newwal")              \* the new object only after the old one is safe
               \/ RotStep("wal.new", "idle", "idle")                   \* (at open: no rotation in progress)
               \/ RotStep("sm.rotate.created", "handed", "created") \/ RotStep("sm.rotate.swapped", "created", "swapped")
               \/ RotStep("sm.rotate.closed", "swapped", "idle")
            /\ UNCHANGED <<mode, next, pend, synced, logged, sst, renamed, tbl, cmp>>
\* UpdateNextSequence(old, new): at rotation the new object continues exactly where the old one stopped; at recovery the
\* reused object continues behind everything that was replayed
SetNext == /\ Ev /\ S = "wal.setnext" /\ (next = 0 \/ Eb = next)
           /\ rot' = IF rot = "newwal" THEN "handed" ELSE rot
           /\ UNCHANGED <<mode, next, pend, synced, logged, sst, renamed, tbl, cmp>>

\* ---- table files
SstStep == /\ \/ Ev /\ S = "sst.finish.presync" /\ sst = "idle" /\ sst' = "presync" /\ UNCHANGED renamed
              \/ Ev /\ S = "sst.finish.synced" /\ sst = "presync" /\ sst' = "synced" /\ UNCHANGED renamed
              \/ Ev /\ S = "sst.finish.renamed" /\ sst = "synced" /\ sst' = "idle" /\ renamed' = TRUE
           /\ UNCHANGED <<mode, next, pend, synced, logged, rot, tbl, cmp>>
TablePre == /\ Ev /\ S = "sm.flush.table.pre" /\ renamed' = FALSE
            /\ UNCHANGED <<mode, next, pend, synced, logged, rot, sst, tbl, cmp>>
TableRenamed == /\ Ev /\ S = "sm.flush.table.renamed" /\ renamed /\ tbl' = tbl \cup {Ea}
                /\ UNCHANGED <<mode, next, pend, synced, logged, rot, sst, renamed, cmp>>
TablePublished == /\ Ev /\ S = "sm.flush.table.published" /\ Ea \in tbl /\ tbl' = tbl \ {Ea}
                  /\ UNCHANGED <<mode, next, pend, synced, logged, rot, sst, renamed, cmp>>

\* ---- compaction
Compaction == /\ \/ Ev /\ S = "cmp.cycle.begin" /\ cmp' = "idle"
                 \/ Ev /\ S = "cmp.task" /\ cmp' = "task"
                 \/ Ev /\ S = "cmp.output.finished" /\ cmp = "task" /\ cmp' = cmp
                 \/ Ev /\ S = "cmp.outputs.done" /\ cmp = "task" /\ cmp' = "outputs"
                 \/ Ev /\ S \in {"cmp.input.delete.pre", "cmp.input.deleted"} /\ cmp = "outputs" /\ cmp' = cmp
                 \/ Ev /\ S = "cmp.cycle.end" /\ cmp' = "idle"
              /\ UNCHANGED <<mode, next, pend, synced, logged, rot, sst, renamed, tbl>>

Handled == {"h.reset", "h.retire", "h.error",    \* h.error: the harness could not stand for the stream (no action: rejected)
             "wal.append.written", "wal.batch.written", "wal.batch.rec", "wal.sync.done", "wal.close.synced",
            "wal.append.done", "wal.batch.done", "sm.put.logged", "sm.del.logged", "sm.batch.logged", "sm.batch.entry",
            "sm.put.applied", "sm.del.applied", "sm.batch.applied", "sm.rotate.begin", "sm.rotate.marked", "sm.rotate.oldsafe",
            "wal.new", "sm.rotate.created", "sm.rotate.swapped", "sm.rotate.closed", "wal.setnext", "sst.finish.presync",
            "sst.finish.synced", "sst.finish.renamed", "sm.flush.table.pre", "sm.flush.table.renamed", "sm.flush.table.published",
            "cmp.cycle.begin", "cmp.task", "cmp.output.finished", "cmp.outputs.done", "cmp.input.delete.pre", "cmp.input.deleted",
            "cmp.cycle.end"}
Other == Ev /\ S \notin Handled /\ UNCHANGED <<mode, next, pend, synced, logged, rot, sst, renamed, tbl, cmp>>

Next == Reset \/ Retired \/ Written \/ BatchRec \/ SyncDone \/ AppendDone \/ Logged \/ EmptyLogged \/ EmptyApplied \/ BatchEntry \/ Applied \/ Rotation \/ SetNext
        \/ SstStep \/ TablePre \/ TableRenamed \/ TablePublished \/ Compaction \/ Other
Spec == Init /\ [][Next]_vars
HighWater == IF l > TLCGet(1) THEN TLCSet(1, l) ELSE TRUE
Accepted == PrintT(<<"HIGHWATER", TLCGet(1)>>) /\ TLCGet(1) = Len(Trace) + 1
=============================================================================
