----------------------------- MODULE TRACE_Repl -----------------------------
(* Validation of system traces recorded from a real primary and real replicas (C13 system clause, C14, C15).
   The harness logs, in the order of its single driver:
     reset | w(op) wret | flush | join | rstop | rrestart(rcount) | cut | linkup | cwr(refused) | s(st, x, rep, cnt) | quiesce | conv(pst) | noconv
     fault(mode) | inv(c, op) ret(c, op) | ops(c, n) | hang(c, op) | topo(dropped) | hconv(ok) | end | error
   w is logged BEFORE the primary call (primary order = order of w events: one driver), s is one atomic sample of the
   replica's whole state (st), the number of keys outside the model (x) and the applied sequence number the replica
   reported just before the scan (rep).
   C13: every sample equals the state after SOME prefix of the primary's entries (entries of a batch counted one by
        one - the weaker reading, see DESIGN.md), the matched prefix never shrinks, reported never decreases and is
        covered by the matched prefix;
        at convergence the replica has been handed exactly as many entries as the primary logged (none skipped, none twice);
   C14: the trace must end in conv (equal full scans, held for three more samples, before the deadline) with the state
        the history defines;
   C15: every inv is followed by its ret (a hang has no action here), a replica that stopped reading is reported
        dropped, the healthy replica converges.
   What the replica does between samples is not logged; the prefix a sample has to equal is identified by the replica engine's own
   entry counter (cnt), read in the same quiet moment as the state.
   The KF_* constants enable the actions that describe the OPEN known findings; they are FALSE in the conformance
   configuration (TRACE_Repl.cfg) and TRUE only in the configuration that decides whether a rejected trace is an
   instance of a finding (TRACE_Repl_kf.cfg). *)
EXTENDS Integers, Sequences, FiniteSets, Json, TLC

CONSTANTS TKeys,
          KF_RestartFromOne,   \* a restarted replica re-applies the primary's log from sequence 1
          KF_StallBlocksWrite, \* a StreamWAL client that does not read blocks the primary's client operations
          KF_StallNotDropped   \* ... and is never dropped from the topology

VARIABLES l,       \* position in the trace
          ents,    \* primary history: Seq of [k, v, seq]
          nseq,    \* next sequence number of the primary
          base,    \* replica state the matched prefix is laid over (all NONE unless KF_RestartFromOne fired)
          lo,      \* number of entries of the last matched prefix
          rep,     \* last reported applied sequence number
          wr,      \* 1 while a primary write of a system scenario is outstanding (w ... wret)
          busy,    \* clients of a fault scenario with an operation outstanding (inv ... ret)
          stalled, \* number of attached clients that never read
          extra    \* entries the replica engine was handed in earlier lives and is handed AGAIN (0 unless it restarted from 1)

Trace == ndJsonDeserialize("trace.ndjson")
tvars == <<l, ents, nseq, base, lo, rep, wr, busy, stalled, extra>>

\* keys: the model keys plus whatever key a primary write has named (the many keys of a "long" batch)
Keys == TKeys \cup {ents[i].k : i \in DOMAIN ents}
None == [k \in TKeys |-> "NONE"]
Ev(e) == l <= Len(Trace) /\ Trace[l].e = e /\ l' = l + 1
SeqAt(n) == IF n = 0 THEN 0 ELSE ents[n].seq
Norm(v) == IF v = "TOMB" THEN "NONE" ELSE v
Was(b, k) == IF k \in DOMAIN b THEN b[k] ELSE "NONE"
\* what key k reads as in a store that held b and then applied the first n entries
ValAt(b, n, k) == LET is == {i \in 1..n : ents[i].k = k} IN
                  IF is = {} THEN Was(b, k) ELSE Norm(ents[CHOOSE i \in is : \A j \in is : j <= i].v)
Overlay(b, n) == [k \in Keys |-> ValAt(b, n, k)]

TInit == TLCSet(1, 0) /\ l = 1 /\ ents = <<>> /\ nseq = 1 /\ base = None /\ lo = 0 /\ rep = 0 /\ wr = 0 /\ busy = {} /\ stalled = 0 /\ extra = 0

TReset == /\ Ev("reset") /\ ents' = <<>> /\ nseq' = 1 /\ base' = None /\ lo' = 0 /\ rep' = 0 /\ wr' = 0 /\ busy' = {} /\ stalled' = 0 /\ extra' = 0
TW == /\ Ev("w") /\ wr = 0
      /\ ents' = ents \o [i \in 1..Len(Trace[l].op) |-> [k |-> Trace[l].op[i].k, v |-> Trace[l].op[i].v, seq |-> nseq]]
      /\ nseq' = nseq + 1 /\ wr' = 1 /\ UNCHANGED <<base, lo, rep, stalled, extra, busy>>
TWRet == Ev("wret") /\ wr = 1 /\ wr' = 0 /\ UNCHANGED <<ents, nseq, base, lo, rep, stalled, extra, busy>>
TPlain == (Ev("flush") \/ Ev("join") \/ Ev("rstop") \/ Ev("cut") \/ Ev("linkup")) /\ UNCHANGED <<ents, nseq, base, lo, rep, wr, stalled, extra, busy>>
\* intended design: a restarted replica keeps what it applied and its position
TRestart == Ev("rrestart") /\ UNCHANGED <<ents, nseq, base, lo, rep, wr, stalled, extra, busy>>
\* KNOWN FINDING KF_C13_restart_from_one: Manager.startReplica starts every replica at sequence 0, so after a restart
\* the primary's log is applied again from its first entry ON TOP of what the replica holds, and the reported
\* sequence starts again at 0; every entry it had been handed before (rcount at the restart) is handed to it once more.
\* The action describes exactly that: a replica that does NOT end up with the whole log - skips entries, does not converge -
\* is no instance of it (TConv counts the entries handed over: Len(ents) + extra)
TRestartFromOne == /\ KF_RestartFromOne /\ Ev("rrestart")
                   /\ base' = Overlay(base, lo) /\ lo' = 0 /\ rep' = 0 /\ extra' = Trace[l].rcount
                   /\ UNCHANGED <<ents, nseq, wr, stalled, busy>>
TCwr == Ev("cwr") /\ Trace[l].refused /\ UNCHANGED <<ents, nseq, base, lo, rep, wr, stalled, extra, busy>>
\* cnt is the replica engine's own sequence counter during the scan (it did not move): the number of entries the engine has been
\* handed since it was created.  That number identifies the prefix: the sample must be the state after exactly that many
\* entries of the primary's history (minus those of earlier lives that were handed over again, see TRestartFromOne)
TSample == /\ Ev("s") /\ Trace[l].x = 0
           /\ Trace[l].rep >= rep /\ rep' = Trace[l].rep
           /\ LET n == Trace[l].cnt - extra IN
                /\ n >= lo /\ n <= Len(ents)
                /\ \A k \in Keys : Trace[l].st[k] = ValAt(base, n, k)
                /\ SeqAt(n) >= Trace[l].rep
                /\ lo' = n
           /\ UNCHANGED <<ents, nseq, base, wr, stalled, extra, busy>>
TQuiesce == Ev("quiesce") /\ wr = 0 /\ UNCHANGED <<ents, nseq, base, lo, rep, wr, stalled, extra, busy>>
\* rcount is the replica engine's own sequence counter = how many entries it was handed since it was created: exactly once
\* each (a skipped entry that a later write covers, or an entry applied twice, is invisible in the state but not here)
TConv == /\ Ev("conv") /\ lo = Len(ents)
         /\ Trace[l].rcount = Len(ents) + extra
         /\ \A k \in Keys : Trace[l].pst[k] = ValAt(None, Len(ents), k)
         /\ UNCHANGED <<ents, nseq, base, lo, rep, wr, stalled, extra, busy>>

(* C15 *)
Cl == IF "c" \in DOMAIN Trace[l] THEN Trace[l].c ELSE "driver"     \* the sequential driver of repl-fault has no name
TFault == /\ Ev("fault") /\ busy = {} /\ stalled' = stalled + (IF Trace[l].mode = "norecv" THEN 1 ELSE 0)
          /\ UNCHANGED <<ents, nseq, base, lo, rep, wr, busy, extra>>
TInv == Ev("inv") /\ Cl \notin busy /\ busy' = busy \cup {Cl} /\ UNCHANGED <<ents, nseq, base, lo, rep, wr, stalled, extra>>
TRet == Ev("ret") /\ Cl \in busy /\ busy' = busy \ {Cl} /\ UNCHANGED <<ents, nseq, base, lo, rep, wr, stalled, extra>>
\* n operations of client c were invoked and returned in time (full-rate writers are not logged one by one)
TOps == Ev("ops") /\ Cl \notin busy /\ Trace[l].n >= 0 /\ UNCHANGED <<ents, nseq, base, lo, rep, wr, busy, stalled, extra>>
\* KNOWN FINDING KF_C15_stalled_reader_blocks_primary: while a client that never reads its stream is attached, a
\* primary operation does not return (stream.Send inside the log append path, under the storage write lock)
THangStalled == /\ KF_StallBlocksWrite /\ Ev("hang") /\ Cl \in busy /\ stalled > 0
                /\ UNCHANGED <<ents, nseq, base, lo, rep, wr, busy, stalled, extra>>
TTopo == Ev("topo") /\ busy = {} /\ Trace[l].dropped /\ UNCHANGED <<ents, nseq, base, lo, rep, wr, busy, stalled, extra>>
\* KNOWN FINDING KF_C15_stalled_reader_not_dropped: the session's activity time-stamp is refreshed by the primary's own
\* (buffered) sends, so a client that never reads is never timed out
TTopoStalledStays == /\ KF_StallNotDropped /\ Ev("topo") /\ ~Trace[l].dropped /\ stalled > 0
                     /\ UNCHANGED <<ents, nseq, base, lo, rep, wr, busy, stalled, extra>>
THConv == Ev("hconv") /\ busy = {} /\ Trace[l].ok /\ UNCHANGED <<ents, nseq, base, lo, rep, wr, busy, stalled, extra>>
\* normal end of a fault scenario: nothing is outstanding
TEnd == Ev("end") /\ busy = {} /\ UNCHANGED <<ents, nseq, base, lo, rep, wr, busy, stalled, extra>>

TNext == TReset \/ TW \/ TWRet \/ TPlain \/ TRestart \/ TRestartFromOne \/ TCwr \/ TSample \/ TQuiesce \/ TConv
         \/ TFault \/ TInv \/ TRet \/ TOps \/ THangStalled \/ TTopo \/ TTopoStalledStays \/ THConv \/ TEnd
TSpec == TInit /\ [][TNext]_tvars

HighWater == IF l > TLCGet(1) THEN TLCSet(1, l) ELSE TRUE
Accepted == /\ PrintT(<<"HIGHWATER", TLCGet(1)>>)
            /\ TLCGet(1) = Len(Trace) + 1
=============================================================================
