SPECIFICATION GSpec
CONSTANTS
  Keys = {"k1", "k2", "k3"}
  Vals = {"v1", "v2", "v3"}
  SyncMode = "imm"
  MaxOps = 9
  MaxBatch = 3
  MaxImm = 3
  MaxFiles = 8
  MaxCrash = 0
  MaxLevel = 2
  GenLen = 16
  AllowRetire = TRUE
CHECK_DEADLOCK FALSE
