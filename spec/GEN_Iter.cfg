SPECIFICATION GSpec
CONSTANTS
  N = 5
  NSrc = 3
  MaxSteps = 1000
  LoSet = {1}
  HiSet = {1}
  FltSet = {1}
  BuildSteps = 9
  GenLen = 8
CHECK_DEADLOCK FALSE
