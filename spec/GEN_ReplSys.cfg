SPECIFICATION GSpec
CONSTANTS
  Replicas = {"r1"}
  MaxLog = 30
  MaxBatch = 3
  Chunk = 4
  MaxNet = 3
  MaxQ = 30
  MaxFaults = 0
  MaxDown = 0
  MaxRot = 2
  MaxStall = 0
  RotateFollows = TRUE
  WholeBatches = TRUE
  PollRereads = TRUE
  GenLen = 40
  MinLen = 8
CHECK_DEADLOCK FALSE
