SPECIFICATION Spec
CONSTANTS
  KeyArgs <- MCKeys
  ValArgs = {"v1", "VOVER"}
  MaxTx = 3
  Role = "replica"
  MaxKeyLen = 4096
  MaxValLen = 10485760
  MaxBatch = 1000
  Vias = {"grpc", "emb"}
  WithApply = TRUE
  ScanAll = FALSE
VIEW StateView
INVARIANT Inv
PROPERTY RejectedHasNoEffect
PROPERTY LimitsEnforced
PROPERTY HandleUnusableAfterFinish
PROPERTY RefinesEmbedded
PROPERTY ReadOnlyRejectsMutators
PROPERTY ApplyWorks
PROPERTY NodeInfoTruthful
PROPERTY StopKeepsMode
CHECK_DEADLOCK FALSE
