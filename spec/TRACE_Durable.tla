---------------------------- MODULE TRACE_Durable ----------------------------
(* Validation of crash traces recorded from the real engine (C02, C03 crash form, C08 across recovery).
   The harness logs: reset(sync), issue(op), ack, fail, die, close, obs(state, lastseq).  What survives a
   stop is NOT logged - TLC has to find a surviving prefix that explains every later observation. *)
EXTENDS KevoDurable, Json, TLC

CONSTANT KF_TornBatch   \* TRUE only in the known-finding configuration (see below)

VARIABLES l,        \* position in the trace
          sync      \* sync mode of the current run (logged at reset)

Trace == ndJsonDeserialize("trace.ndjson")
tvars == <<dvars, l, sync>>

Ev(e) == l <= Len(Trace) /\ Trace[l].e = e /\ l' = l + 1

TInit == TLCSet(1, 0) /\ DInit /\ l = 1 /\ sync = "none"

TReset == /\ Ev("reset") /\ dIssued' = <<>> /\ dAcked' = 0 /\ dUp' = TRUE /\ sync' = Trace[l].sync
TIssue == /\ Ev("issue") /\ dUp /\ dAcked = Len(dIssued)
          /\ dIssued' = Append(dIssued, Trace[l].op) /\ UNCHANGED <<dAcked, dUp, sync>>
TAck   == Ev("ack") /\ DAck /\ UNCHANGED sync
TFail  == Ev("fail") /\ DFail /\ UNCHANGED sync
\* a stop while the engine is closed or still opening changes nothing
TDie   == /\ Ev("die")
          /\ IF dUp THEN \E n \in (IF sync = "imm" THEN dAcked ELSE 0)..Len(dIssued) :
                            dIssued' = SubSeq(dIssued, 1, n) /\ dAcked' = n
             ELSE UNCHANGED <<dIssued, dAcked>>
          /\ dUp' = FALSE /\ UNCHANGED sync
\* KNOWN FINDING C03/C02 "torn batch" (known_findings.json: KF_C03_torn_batch): the log has no batch framing, so a stop
\* INSIDE the write(2) of a multi-record batch can leave its first records without the rest, and recovery applies
\* them.  This action describes exactly that outcome; it is enabled only in the configuration that decides whether a
\* rejected trace is an instance of the finding, never in the configuration that decides conformance.
KeyRank(k) == CHOOSE i \in 1..9 : <<"k1", "k2", "k3", "k4", "k5", "k6", "k7", "k8", "k9">>[i] = k
InKeyOrder(b) == SortSeq(b, LAMBDA x, y : KeyRank(x.k) < KeyRank(y.k))
TDieTornPartial ==
          /\ KF_TornBatch /\ Ev("die") /\ "torn" \in DOMAIN Trace[l] /\ Trace[l].torn
          /\ dUp
          /\ \E n \in (IF sync = "imm" THEN dAcked ELSE 0)..(Len(dIssued) - 1) :      \* operations 1..n survive whole,
               /\ Len(dIssued[n + 1]) >= 2                                            \* the next one is a batch
               /\ \E j \in 1..(Len(dIssued[n + 1]) - 1) :                             \* of which only the first j records survive,
                    \E b \in {dIssued[n + 1], InKeyOrder(dIssued[n + 1])} :             \* in the order they are logged: as issued
                      dIssued' = Append(SubSeq(dIssued, 1, n), SubSeq(b, 1, j))         \* (ApplyBatch) or by key (a transaction's buffer)
               /\ dAcked' = n + 1                                                     \* and nothing behind it
          /\ dUp' = FALSE /\ UNCHANGED sync
TClose == Ev("close") /\ DClose /\ UNCHANGED sync
TOpen  == Ev("open") /\ DOpen /\ UNCHANGED sync
\* an observation of the open engine: every key reads as the surviving prefix says, and the last sequence
\* number equals the number of surviving operations (one number per operation, numbering continues)
TObs   == /\ Ev("obs") /\ dUp /\ dAcked = Len(dIssued)
          /\ \A k \in DKeys : Trace[l].st[k] = DView[k]
          /\ Trace[l].seq = dAcked
          /\ UNCHANGED <<dvars, sync>>

TNext == TReset \/ TIssue \/ TAck \/ TFail \/ TDie \/ TDieTornPartial \/ TClose \/ TOpen \/ TObs
TSpec == TInit /\ [][TNext]_tvars

HighWater == IF l > TLCGet(1) THEN TLCSet(1, l) ELSE TRUE
Accepted == /\ PrintT(<<"HIGHWATER", TLCGet(1)>>)
            /\ TLCGet(1) = Len(Trace) + 1
=============================================================================
