SPECIFICATION Spec
CONSTANTS
  Replicas = {"r1"}
  MaxLog = 4
  MaxBatch = 2
  Chunk = 2
  MaxNet = 2
  MaxQ = 5
  MaxFaults = 2
  MaxDown = 1
  MaxRot = 0
  MaxStall = 0
  RotateFollows = TRUE
  WholeBatches = FALSE
  PollRereads = TRUE
INVARIANTS TypeOK AppliedIsPrefix NoSplitBatch ExpectedFollowsApplied ReportedLeApplied AckLeApplied
PROPERTIES ReportedMonotone AppliedOnlyGrows
CHECK_DEADLOCK FALSE
