----------------------------- MODULE TRACE_Conc -----------------------------
(* C07: acceptance of one concurrent run of the real engine under the race detector.  The harness logs, per goroutine,
   "start" (which entry point of KevoConc!CallNames it loops on; MapsTo gives the correspondence for entry points that
   share a lock sequence) and "done" (how many calls returned) and, for the process, "exit" (status, race reports,
   panics).  A run is accepted iff every goroutine that started is done (every call returned), at least one call was
   made by each, the entry point is one the lock-protocol specification models, and the process ended cleanly. *)
EXTENDS Integers, Sequences, FiniteSets, Json, TLC

Modelled == {"put", "putfull", "get", "scan", "stats", "flush", "compact", "tombtrack", "txro", "txrw"}
MapsTo == [put |-> "put", delete |-> "put", batch |-> "putfull", get |-> "get", isdeleted |-> "get", scan |-> "scan",
           rangescan |-> "scan", stats |-> "stats", compstats |-> "stats", flush |-> "flush", compact |-> "compact",
           compactrange |-> "compact", tombtrack |-> "tombtrack", txro |-> "txro", txrw |-> "txrw"]

VARIABLES l, running, finished
Trace == ndJsonDeserialize("trace.ndjson")
vars == <<l, running, finished>>
Ev(e) == l <= Len(Trace) /\ Trace[l].e = e /\ l' = l + 1

Init == TLCSet(1, 0) /\ l = 1 /\ running = {} /\ finished = {}
Reset == Ev("reset") /\ running' = {} /\ finished' = {}
Start == /\ Ev("start") /\ Trace[l].call \in DOMAIN MapsTo /\ MapsTo[Trace[l].call] \in Modelled
         /\ running' = running \cup {Trace[l].g} /\ UNCHANGED finished
Done == /\ Ev("done") /\ Trace[l].g \in running /\ Trace[l].calls >= 1
        /\ running' = running \ {Trace[l].g} /\ finished' = finished \cup {Trace[l].g}
Exit == Ev("exit") /\ running = {} /\ Trace[l].status = 0 /\ Trace[l].races = 0 /\ Trace[l].panics = 0 /\ UNCHANGED <<running, finished>>
Next == Reset \/ Start \/ Done \/ Exit
Spec == Init /\ [][Next]_vars
HighWater == IF l > TLCGet(1) THEN TLCSet(1, l) ELSE TRUE
Accepted == PrintT(<<"HIGHWATER", TLCGet(1)>>) /\ TLCGet(1) = Len(Trace) + 1
=============================================================================
