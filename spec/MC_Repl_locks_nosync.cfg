SPECIFICATION Spec
CONSTANTS
  OldOrder = FALSE
  SyncNotify = FALSE
  UnregUnderRead = FALSE
  HbLeak = FALSE
  ResendHoldsSession = FALSE
  RetentionHoldsRead = FALSE
INVARIANTS LocksConsistent
PROPERTIES WriteReturns AllReturn
CHECK_DEADLOCK TRUE
