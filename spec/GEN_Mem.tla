------------------------------ MODULE GEN_Mem ------------------------------
(* Behaviour generation for C18 (tlc -simulate).  The ACTIVE table of a MemTablePool is the KevoMem skiplist, driven
   by KevoMem's own actions; tables that came to rest immutable are kept as their level-0 chain (a sorted sequence of
   entries - what ImmutableNeverChanges says they stay).  One history record per API call, with the observation the
   specification predicts.

   Mode "seq":   one sequential client: every insert runs to completion before the next call.
   Mode "gated": two-process behaviours at hook granularity (DESIGN 4.5): the writer is PARKED right after one of its
                 link steps (sl.insert.node_next(l) / sl.insert.pred_next(l)) while reader calls run - calls that need
                 the table's read lock are predicted "BLOCKED" and resolved at release; stepping an iterator created
                 earlier, and everything after SetImmutable, is lock-free and predicted from the parked state by
                 running the reader's pointer steps (KevoMem!Run).  A reader may in turn be parked between the descent of
                 Seek/Find and its landing (hook sl.seek.descended / sl.find.descended) while inserts complete.

   Readers 1..n of KevoMem serve as iterator slots (rd[r]). *)
EXTENDS KevoMem, Json, Randomization

CONSTANTS GenLen, Mode
VARIABLES h, emitted,
          imms,        \* Seq of [id, chain]: immutable tables of the pool, oldest first (as the code keeps them)
          actId, nTab, \* table ids in creation order
          born,        \* per slot: the inserts that had returned when the iterator was created (what it MUST show)
          parkAt, parked, releasing, needResolve, pend, nPend
gvars == <<vars, h, emitted, imms, actId, nTab, born, parkAt, parked, releasing, needResolve, pend, nPend>>
pvars == <<imms, actId, nTab>>
kvars == <<parkAt, parked, releasing, needResolve, pend, nPend>>

\* TLC folds constant-level expressions once at start-up, RandomElement(S) included: mention a variable (see GEN_Store)
RE(S) == RandomElement(IF Len(h) >= 0 THEN S ELSE {})
R(n)  == RE(1..n)
End  == [k |-> 0, s |-> 0, v |-> "END"]
PosOf(q)  == IF q.pc = "at" THEN ent[q.cur] ELSE End
Tok(x)    == IF x = Nil THEN "NONE" ELSE ent[x].v
Ents(sq)  == [i \in DOMAIN sq |-> ent[sq[i]]]
ChainEnts == Ents(Chain(0))
Go    == Len(h) < GenLen /\ ~emitted
Quiet == ~needResolve /\ (wpc = "idle" \/ (parked /\ ~releasing))      \* no insert is being run silently
Rest  == ~needResolve /\ wpc = "idle"
LockFree == imm \/ wpc = "idle"
Slots == Readers
\* Nothing was begun or finished since the iterator was created: then C18 itself fixes what it shows.  Otherwise the
\* prediction reflects the implementation's snapshot design (snapSeq); the property only demands that nothing of
\* Req(r) is skipped - the harness judges a deviation by that bound.
Strict(r) == born[r] = Nodes
Req(r)    == Ents(AbsSort(born[r]))

\* ---- abstract view of a table at rest (a sorted chain of entries) ----
ChGet(c, k)  == LET I == {i \in DOMAIN c : c[i].k = k} IN
                IF I = {} THEN "NONE" ELSE c[CHOOSE i \in I : \A j \in I : i <= j].v
ChFrom(c, t) == LET I == {i \in DOMAIN c : c[i].k >= t} IN
                IF I = {} THEN <<>> ELSE SubSeq(c, CHOOSE i \in I : \A j \in I : i <= j, Len(c))
RECURSIVE PoolGetImm(_, _)
PoolGetImm(i, k) == IF i = 0 THEN "NONE"
                    ELSE LET v == ChGet(imms[i].chain, k) IN IF v # "NONE" THEN v ELSE PoolGetImm(i - 1, k)
ActGet(k)  == Tok(Run(FindStart(k)).res)
PoolGet(k) == LET v == ActGet(k) IN IF v # "NONE" THEN v ELSE PoolGetImm(Len(imms), k)

GInit == /\ Init /\ h = <<>> /\ emitted = FALSE /\ imms = <<>> /\ actId = 1 /\ nTab = 1
         /\ born = [r \in Slots |-> {}]
         /\ parkAt = <<"none", 0>> /\ parked = FALSE /\ releasing = FALSE /\ needResolve = FALSE
         /\ pend = <<>> /\ nPend = 0

Rec(x) == h' = Append(h, x)

\* ---------------------------------------------------------------- the writer
RandIns == {<<RE(DataKeys), RE(SeqNums), RE(Payloads), hh>> :
              hh \in {IF r <= 4 THEN 1 ELSE IF r <= 6 \/ MaxH = 2 THEN 2 ELSE MaxH : r \in {R(8)}}}
GPutBegin == /\ Go /\ Rest /\ ~imm /\ Len(ent) < MaxIns
             /\ \E i \in RandIns : WBegin(i[1], i[2], i[3], i[4])
             /\ parkAt' = <<"none", 0>>
             /\ UNCHANGED <<h, emitted, pvars, born, parked, releasing, needResolve, pend, nPend>>
\* a write to a table that is immutable is ignored (the pool's active table after SetImmutable)
GPutIgnored == /\ Go /\ Rest /\ imm /\ R(3) = 1
               /\ \E i \in RandIns : Rec([a |-> "put", tab |-> actId, k |-> i[1], s |-> i[2], v |-> i[3], ign |-> TRUE, chain |-> ChainEnts])
               /\ WIgnored /\ UNCHANGED <<emitted, pvars, born, kvars>>
\* at most two park points per behaviour: heights are random in the code, every park point has to be hit by luck
NParks == Cardinality({i \in DOMAIN h : h[i].a = "park"})
GParkBegin == /\ Mode = "gated" /\ Go /\ Rest /\ ~imm /\ Len(ent) < MaxIns /\ Len(h) >= 2 /\ NParks < 2
              /\ \E i \in RandIns : /\ WBegin(i[1], i[2], i[3], i[4])
                                    /\ \E l \in {RE(0..(i[4] - 1))}, st \in {RE({"node_next", "pred_next"})} :
                                          parkAt' = <<st, l>>
              /\ UNCHANGED <<h, emitted, pvars, born, parked, releasing, needResolve, pend, nPend>>
Hit == /\ ~releasing /\ wlvl = parkAt[2]
       /\ (parkAt[1] = "node_next" /\ wpc = "nodeNext") \/ (parkAt[1] = "pred_next" /\ wpc = "predNext")
GWStep == /\ wpc # "idle" /\ (~parked \/ releasing)
          /\ WStep
          /\ IF Hit
             THEN /\ parked' = TRUE
                  /\ Rec([a |-> "park", tab |-> actId, k |-> ent[Cur].k, s |-> ent[Cur].s, v |-> ent[Cur].v,
                          site |-> parkAt[1], lvl |-> parkAt[2]])
                  /\ UNCHANGED <<releasing, needResolve>>
             ELSE IF wpc = "finish"
                  THEN IF releasing
                       THEN parked' = FALSE /\ releasing' = FALSE /\ needResolve' = TRUE /\ h' = h
                       ELSE /\ Rec([a |-> "put", tab |-> actId, k |-> ent[Cur].k, s |-> ent[Cur].s, v |-> ent[Cur].v, ign |-> FALSE,
                                 chain |-> ChainEnts])
                            /\ UNCHANGED <<parked, releasing, needResolve>>
                  ELSE h' = h /\ UNCHANGED <<parked, releasing, needResolve>>
          /\ UNCHANGED <<emitted, pvars, born, parkAt, pend, nPend>>
GRelease == /\ parked /\ ~releasing /\ (R(4) = 1 \/ ~Go) /\ ~emitted
            /\ releasing' = TRUE
            /\ UNCHANGED <<vars, h, emitted, pvars, born, parkAt, parked, needResolve, pend, nPend>>
\* the writer has returned: every call that waited for the lock completes against the state it finds now
GResolve == /\ needResolve /\ needResolve' = FALSE
            /\ Rec([a |-> "release", rets |-> [i \in DOMAIN pend |->
                      [p |-> pend[i].p, exp |-> IF pend[i].op = "tget" THEN ActGet(pend[i].k) ELSE "OK"]]])
            /\ rd' = [r \in Slots |-> IF rd[r].pc = "pending" THEN [NewIter EXCEPT !.snap = nextSeq] ELSE rd[r]]
            /\ born' = [r \in Slots |-> IF rd[r].pc = "pending" THEN done ELSE born[r]]
            /\ pend' = <<>>
            /\ UNCHANGED <<ent, hgt, nxt, maxH, imm, nextSeq, wpc, wlvl, preds, succs, done, frozen>>
            /\ UNCHANGED <<emitted, pvars, parkAt, parked, releasing, nPend>>

\* ---------------------------------------------------------------- reader calls on the active table
RUnchG == /\ UNCHANGED <<ent, hgt, nxt, maxH, imm, nextSeq, wpc, wlvl, preds, succs, done, frozen>>
          /\ UNCHANGED <<emitted, pvars, parkAt, parked, releasing, needResolve>>
GTGet == /\ Go /\ Quiet /\ R(IF parked THEN 2 ELSE 4) = 1
         /\ \E k \in {RE(Targets)} :
              IF LockFree
              THEN Rec([a |-> "tget", tab |-> actId, k |-> k, exp |-> ActGet(k)]) /\ UNCHANGED <<pend, nPend>>
              ELSE /\ Rec([a |-> "tget", tab |-> actId, k |-> k, exp |-> "BLOCKED", p |-> nPend + 1])
                   /\ pend' = Append(pend, [op |-> "tget", k |-> k, p |-> nPend + 1]) /\ nPend' = nPend + 1
         /\ UNCHANGED <<rd, born>> /\ RUnchG
GNewIter == /\ Go /\ Quiet /\ R(IF parked THEN 3 ELSE 4) = 1
            /\ \E r \in Slots : /\ rd[r].pc = "idle" /\ \A r2 \in Slots : r2 < r => rd[r2].pc # "idle"
                 /\ IF LockFree
                    THEN /\ rd' = [rd EXCEPT ![r] = NewIter] /\ born' = [born EXCEPT ![r] = done]
                         /\ Rec([a |-> "newiter", tab |-> actId, it |-> r, exp |-> "OK"]) /\ UNCHANGED <<pend, nPend>>
                    ELSE /\ rd' = [rd EXCEPT ![r] = [Q0 EXCEPT !.pc = "pending"]] /\ born' = born
                         /\ Rec([a |-> "newiter", tab |-> actId, it |-> r, exp |-> "BLOCKED", p |-> nPend + 1])
                         /\ pend' = Append(pend, [op |-> "newiter", k |-> 0, p |-> nPend + 1]) /\ nPend' = nPend + 1
            /\ RUnchG
NoIterParked == \A r \in Slots : rd[r].pc # "land"
Positioned(q) == q.pc \in {"iter", "at", "end"} /\ q.op \in {"iter", "seek", "first"}
GFirst == /\ Go /\ Quiet
          /\ \E r \in Slots : /\ Positioned(rd[r]) /\ R(2) = 1
               /\ LET q == Run(FirstStart(rd[r])) IN
                  rd' = [rd EXCEPT ![r] = q] /\ Rec([a |-> "first", it |-> r, exp |-> PosOf(q), strict |-> Strict(r), req |-> Req(r)])
          /\ UNCHANGED <<born, pend, nPend>> /\ RUnchG
GSeek == /\ Go /\ Quiet
         /\ \E r \in Slots, t \in {RE(Targets)} : /\ Positioned(rd[r]) /\ R(2) = 1
               /\ LET q == Run(SeekStart(rd[r], t)) IN
                  rd' = [rd EXCEPT ![r] = q] /\ Rec([a |-> "seek", it |-> r, t |-> t, exp |-> PosOf(q), strict |-> Strict(r), req |-> Req(r)])
         /\ UNCHANGED <<born, pend, nPend>> /\ RUnchG
GIterNext == /\ Go /\ Quiet
         /\ \E r \in Slots : /\ rd[r].pc = "at"
               /\ LET q == Run([rd[r] EXCEPT !.pc = "next"]) IN
                  rd' = [rd EXCEPT ![r] = q] /\ Rec([a |-> "next", it |-> r, exp |-> PosOf(q), strict |-> Strict(r), req |-> Req(r)])
         /\ UNCHANGED <<born, pend, nPend>> /\ RUnchG
GDropIter == /\ Go /\ Quiet /\ R(6) = 1
             /\ \E r \in Slots : Positioned(rd[r]) /\ rd' = [rd EXCEPT ![r] = Q0] /\ Rec([a |-> "dropiter", it |-> r])
             /\ UNCHANGED <<born, pend, nPend>> /\ RUnchG
\* the reader is parked after the descent of Seek, before it lands
RECURSIVE RunDesc(_)
RunDesc(q) == IF q.pc = "desc" THEN RunDesc(Step(q)) ELSE q
GSeekPark == /\ Mode = "gated" /\ Go /\ Quiet /\ R(2) = 1
             /\ NoIterParked          \* one reader is held at a time
             /\ \E r \in Slots, t \in {RE(Targets)} : /\ Positioned(rd[r])
                   /\ rd' = [rd EXCEPT ![r] = RunDesc(SeekStart(rd[r], t))]
                   /\ Rec([a |-> "rpark", op |-> "seek", it |-> r, t |-> t])
             /\ UNCHANGED <<born, pend, nPend>> /\ RUnchG
\* Both correct landings (KevoMem!Reload "keep" and "recheck") are admissible; if they differ the iterator is given up
\* afterwards, because the specification cannot know which of the two positions the implementation holds.
GSeekResume == /\ Quiet /\ ~emitted
               /\ \E r \in Slots : /\ rd[r].pc = "land" /\ rd[r].op = "seek" /\ (R(3) = 1 \/ ~Go)
                     /\ LET q1 == RunM(rd[r], "keep")
                            q2 == RunM(rd[r], "recheck")
                            same == q1.pc = q2.pc /\ q1.cur = q2.cur
                        IN /\ rd' = [rd EXCEPT ![r] = IF same THEN q1 ELSE Q0]
                           /\ Rec([a |-> "rresume", op |-> "seek", it |-> r, adm |-> <<PosOf(q1), PosOf(q2)>>, drop |-> ~same, req |-> Req(r)])
               /\ UNCHANGED <<born, pend, nPend>> /\ RUnchG
\* a lookup on an immutable table (no lock) parked after its descent while an insert that was in flight goes on
GFindPark == /\ Mode = "gated" /\ Go /\ Quiet /\ imm /\ wpc # "idle" /\ NoIterParked
             /\ \E r \in Slots, t \in {RE(Targets)} : /\ rd[r].pc = "idle" /\ \A r2 \in Slots : r2 < r => rd[r2].pc # "idle"
                   /\ rd' = [rd EXCEPT ![r] = RunDesc(FindStart(t))]
                   /\ Rec([a |-> "rpark", op |-> "get", it |-> r, t |-> t])
             /\ UNCHANGED <<born, pend, nPend>> /\ RUnchG
GFindResume == /\ Quiet /\ ~emitted
               /\ \E r \in Slots : /\ rd[r].pc = "land" /\ rd[r].op = "find" /\ (R(3) = 1 \/ ~Go)
                     /\ rd' = [rd EXCEPT ![r] = Q0]
                     /\ Rec([a |-> "rresume", op |-> "get", it |-> r,
                             adm |-> <<Tok(RunM(rd[r], "keep").res), Tok(RunM(rd[r], "recheck").res)>>])
               /\ UNCHANGED <<born, pend, nPend>> /\ RUnchG
\* a fresh iterator read to the end (from the start / from a target)
GScan == /\ Go /\ Quiet /\ LockFree /\ R(4) = 1
         /\ \/ Rec([a |-> "scan", tab |-> actId, exp |-> Ents(RunAll(FirstStart(NewIter)).seen)])
            \/ \E t \in {RE(Targets)} :
                 Rec([a |-> "seekscan", tab |-> actId, t |-> t, exp |-> Ents(RunAll(SeekStart(NewIter, t)).seen)])
         /\ UNCHANGED <<rd, born, pend, nPend>> /\ RUnchG
GSetImm == /\ Go /\ Quiet /\ ~imm /\ R(IF parked THEN 4 ELSE 30) = 1 /\ (Mode = "gated" \/ wpc = "idle")
           /\ SetImmutable /\ Rec([a |-> "setimm", tab |-> actId])
           /\ UNCHANGED <<emitted, pvars, born, kvars>>

\* ---------------------------------------------------------------- the pool (sequential client)
GGet == /\ Go /\ Rest /\ R(4) = 1
        /\ \E k \in {RE(Targets)} : Rec([a |-> "get", k |-> k, exp |-> PoolGet(k)])
        /\ UNCHANGED <<vars, emitted, pvars, born, kvars>>
ImmIx == {RE(DOMAIN imms)}
GImmObs == /\ Go /\ Rest /\ imms # <<>> /\ R(2) = 1
           /\ \E i \in ImmIx, t \in {RE(Targets)}, c \in {R(4)} :
                LET T == imms[i] IN
                CASE c = 1 -> Rec([a |-> "tget", tab |-> T.id, k |-> t, exp |-> ChGet(T.chain, t)])
                  [] c = 2 -> Rec([a |-> "scan", tab |-> T.id, exp |-> T.chain])
                  [] c = 3 -> Rec([a |-> "seekscan", tab |-> T.id, t |-> t, exp |-> ChFrom(T.chain, t)])
                  [] OTHER -> \E w \in RandIns : Rec([a |-> "put", tab |-> T.id, k |-> w[1], s |-> w[2], v |-> w[3], ign |-> TRUE, chain |-> T.chain])
           /\ UNCHANGED <<vars, emitted, pvars, born, kvars>>
ResetTable == /\ ent' = <<>> /\ hgt' = <<>> /\ nxt' = [x \in 0..MaxIns |-> [l \in Levels |-> Nil]] /\ maxH' = 1
              /\ imm' = FALSE /\ nextSeq' = 0 /\ done' = {} /\ frozen' = NoFrozen
              /\ rd' = [r \in Slots |-> Q0] /\ born' = [r \in Slots |-> {}]        \* iterators of the old table are dropped
              /\ UNCHANGED <<wpc, wlvl, preds, succs>>
Tabs == [act |-> actId', imms |-> [i \in DOMAIN imms' |-> imms'[i].id]]
\* SwitchToNewMemTable: the active table becomes the NEWEST immutable one
GSwitch == /\ Go /\ Rest /\ NoIterParked /\ R(5) = 1 /\ Len(imms) < 3
           /\ imms' = Append(imms, [id |-> actId, chain |-> ChainEnts]) /\ actId' = nTab + 1 /\ nTab' = nTab + 1
           /\ ResetTable /\ Rec([a |-> "switch", old |-> actId, tabs |-> Tabs])
           /\ UNCHANGED <<emitted, kvars>>
\* SetActiveMemTable(fresh table): the old active table is kept (as newest immutable) only if something was written to it
GSetActive == /\ Go /\ Rest /\ NoIterParked /\ R(8) = 1 /\ Len(imms) < 3
              /\ imms' = IF Len(ent) > 0 THEN Append(imms, [id |-> actId, chain |-> ChainEnts]) ELSE imms
              /\ actId' = nTab + 1 /\ nTab' = nTab + 1
              /\ ResetTable /\ Rec([a |-> "setactive", tabs |-> Tabs])
              /\ UNCHANGED <<emitted, kvars>>

GEmit == /\ Len(h) >= GenLen /\ ~emitted /\ Rest /\ PrintT(<<"BEHAVIOUR", ToJson(h)>>)
         /\ emitted' = TRUE
         /\ UNCHANGED <<vars, h, pvars, born, kvars>>

\* keeps a behaviour alive when every randomly guarded action happens to be disabled
GIdle == ~emitted /\ UNCHANGED gvars

GNext == \/ GIdle \/ GEmit \/ GPutBegin \/ GPutIgnored \/ GParkBegin \/ GWStep \/ GRelease \/ GResolve
         \/ GTGet \/ GNewIter \/ GFirst \/ GSeek \/ GIterNext \/ GDropIter \/ GSeekPark \/ GSeekResume \/ GFindPark \/ GFindResume
         \/ GScan \/ GSetImm \/ GGet \/ GImmObs \/ GSwitch \/ GSetActive
GSpec == GInit /\ [][GNext]_gvars
=============================================================================
