------------------------------ MODULE GEN_SST ------------------------------
(* Behaviour generation for the C11 conformance replay: the same writer, reader and cursor actions as KevoSST, with
   the restart interval the code has (16) and block lengths around the restart-interval boundaries; a behaviour is
   one table plus cursor programs of at most 6 calls each (fresh cursor between programs), every call recorded
   with the position the specification predicts after it.  When a behaviour is complete it is printed together
   with the complete prediction tables of the OPERATIONAL algorithms on that table (seek and get for every target,
   forward iteration, last), so that the harness needs no oracle of its own.  Used with `tlc -simulate`. *)
EXTENDS KevoSST, Json

CONSTANTS GenLen       \* recorded cursor calls per behaviour
VARIABLES h, seg, done
gvars == <<vars, h, seg, done>>

\* NB: TLC folds constant-level expressions once at start-up, RandomElement included: mention a variable
R(n) == RandomElement(1..(n + Len(h) - Len(h)))

Single == <<1, 2, 3, 15, 16, 17, 18, 31, 32, 33, 34, 47, 48, 49, 50>>
Pool   == <<1, 2, 3, 16, 17, 33>>
Tiny   == <<1, 2, 17>>
Many   == <<17, 18, 33, 34>>
\* blocks of many small entries: 9 to 19 restart points, so that the binary search has depth
Deep   == << <<130>>, <<257>>, <<300, 17>>, <<2, 290>> >>
ShapeOf(fam, sd) ==
  IF fam = 11 THEN Deep[(sd % 4) + 1]
  ELSE IF fam <= 3 THEN <<Single[(sd % 15) + 1]>>
  ELSE IF fam <= 8 THEN [b \in 1..(2 + (sd % 2)) |-> Pool[(((sd \div 2) + b * (1 + sd \div 12)) % 6) + 1]]
  ELSE IF fam = 9 THEN [b \in 1..(4 + (sd % 3)) |-> Tiny[((sd + b * b) % 3) + 1]]
  ELSE [b \in 1..Many[(sd % 4) + 1] |-> 1 + (((sd \div 4) + b * b) % 2)]

GInit == /\ plan = [lens |-> <<1>>, R |-> 16, seed |-> 0] /\ w = WInit /\ file = NoFile /\ cor = NoCor /\ rd = "plan"
         /\ cur = Fresh /\ apos = 0 /\ ainit = FALSE /\ obs = NoObs
         /\ h = <<>> /\ seg = 0 /\ done = FALSE

GPlan == /\ rd = "plan"
         /\ \E fam \in {R(11)}, sd \in {R(5000)} : plan' = [lens |-> ShapeOf(fam, sd), R |-> 16, seed |-> sd]
         /\ rd' = "write"
         /\ UNCHANGED <<w, file, cor, cur, apos, ainit, obs, h, seg, done>>

GWrite == (Add \/ CutBlock \/ Finish \/ Open) /\ UNCHANGED <<h, seg, done>>

\* targets: half of them at the first/last key of a block or right next to it
First(b) == SumTo(plan.lens, b - 1) + 1
Last(b) == SumTo(plan.lens, b)
Clip(t) == IF t < 1 THEN 1 ELSE IF t > 2 * N(plan) + 1 THEN 2 * N(plan) + 1 ELSE t
TargetPick == IF R(2) = 1 THEN R(2 * N(plan) + 1)
              ELSE LET b == R(Len(plan.lens)) IN Clip(2 * (IF R(2) = 1 THEN First(b) ELSE Last(b)) + R(3) - 2)

Rec(a, t) == [a |-> a, t |-> t, pos |-> FlatPos(file, cur'), k |-> obs'.e.k]
Go == rd = "open" /\ Len(h) < GenLen /\ done' = done

GCall == /\ Go /\ seg < 6
         /\ \E r \in {R(10)} :
              IF r <= 4 THEN \E t \in {TargetPick} : Seek(t) /\ h' = Append(h, Rec("seek", t))
              ELSE IF r <= 8 THEN Next /\ h' = Append(h, Rec("next", 0))
              ELSE IF r = 9 THEN SeekToFirst /\ h' = Append(h, Rec("first", 0))
              ELSE SeekToLast /\ h' = Append(h, Rec("last", 0))
         /\ seg' = seg + 1
GNewIter == /\ Go /\ seg > 0 /\ (seg >= 6 \/ R(4) = 1)
            /\ NewIter /\ h' = Append(h, [a |-> "newiter", t |-> 0, pos |-> 0, k |-> 0]) /\ seg' = 0

\* flat position of what Get returns (0 = not found, -1 = anything else); a bloom false positive must not matter
GetPos(t) == LET g0 == GetImpl(file, t, FALSE) g1 == GetImpl(file, t, TRUE) IN
             IF g0 # g1 \/ g0.r = "err" THEN 0 - 1 ELSE IF g0.r = "notfound" THEN 0 ELSE g0.e.k \div 2
Tables == [lens |-> plan.lens, R |-> plan.R, seed |-> plan.seed,
           ents |-> Flat(plan),
           seek |-> [t \in Targets(plan) |-> SeekImpl(file, t)],
           get  |-> [t \in Targets(plan) |-> GetPos(t)],
           iter |-> LET ia == IterAll(file) IN [i \in 1..Len(ia) |-> ia[i].k \div 2],
           last |-> FlatPos(file, CSeekToLast(file, Fresh)),
           prog |-> h]

\* evaluated once per generated behaviour: print it
GEmit == /\ rd = "open" /\ Len(h) = GenLen /\ ~done /\ PrintT(<<"BEHAVIOUR", ToJson(Tables)>>)
         /\ done' = TRUE /\ UNCHANGED <<vars, h, seg>>

GNext == GPlan \/ GWrite \/ GCall \/ GNewIter \/ GEmit
GSpec == GInit /\ [][GNext]_gvars
=============================================================================
