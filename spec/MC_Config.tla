---- MODULE MC_Config ----
(* Exhaustive check of KevoConfig (C20).  Two configurations of the constants are used:
   MC_Config_fields.cfg  every candidate that differs from the default configuration in at most 2 fields, each with the
                         whole MANIFEST life-cycle (the candidate stays the same during a behaviour);
   MC_Config_life.cfg    three base configurations and their 1-field neighbours, the client may switch candidates, so
                         that a database created with one configuration meets saves / edits of another one. *)
EXTENDS KevoConfig

\* the candidate set really spans valid and invalid configurations, and every base is valid under both policies
ASSUME /\ \A b \in Bases : Constraints(b, FALSE) /\ ValidateAlg(b, FALSE) = 0
       /\ \E c \in Cands : ~Constraints(c, TRUE)
       /\ PrintT(<<"CANDIDATES", Cardinality(Cands), "valid", Cardinality({c \in Cands : Constraints(c, FALSE)})>>)
====
