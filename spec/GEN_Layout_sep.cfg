SPECIFICATION Spec
CONSTANTS
  NLayers = 2
  Separate = TRUE
CHECK_DEADLOCK FALSE
