SPECIFICATION LiveSpec
CONSTANTS
  Replicas = {"r1"}
  MaxLog = 3
  MaxBatch = 2
  Chunk = 2
  MaxNet = 2
  MaxQ = 2
  MaxFaults = 1
  MaxDown = 1
  MaxRot = 1
  MaxStall = 0
  RotateFollows = TRUE
  WholeBatches = TRUE
  PollRereads = FALSE
INVARIANTS AppliedIsPrefix NoSplitBatch
PROPERTIES Converges
CHECK_DEADLOCK FALSE
