SPECIFICATION Spec
CONSTANTS
  DataKeys = {2, 4}
  Targets = {2, 3}
  SeqNums = {1, 3}
  Payloads = {"v1"}
  MaxIns = 4
  MaxH = 2
  Readers = {1}
  RStartMin = 2
  ROps = {"first"}
  ImmMidInsert = FALSE
  PublishFirst = FALSE
  TopDown = FALSE
  Reload = "keep"
INVARIANTS TypeOK Level0Sorted LevelsAreSublists FindReturnsMaxSeq ReaderSeesAtLeastPrefix ImmutableNeverChanges
CHECK_DEADLOCK FALSE
