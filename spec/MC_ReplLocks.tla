---------------------------- MODULE MC_ReplLocks ----------------------------
(* C15, lock structure of the replication primary at the grain of the code (pkg/replication/primary.go, heartbeat.go,
   pkg/wal/wal.go).  KevoRepl states that a primary write never waits for a replica (PWriteNeverWaits); this module
   looks below that: which locks the goroutines of the primary take, in which order, with Go's lock semantics -
   sync.Mutex for the WAL lock (wal.mu) and the session lock (session.mu), sync.RWMutex for the sessions lock (p.mu),
   where a PENDING Lock() blocks every new RLock().

   Goroutines (each loops for ever):
     W  a client write: wal.Append takes the WAL lock and, still holding it, notifies the primary:
        [OnWALSync: p.mu.Lock .. Unlock]  broadcastToReplicas: p.mu.RLock; sendToReplica: session.mu.Lock; Send;
        Unlock; RUnlock; WAL unlock.
     C  the StreamWAL handler of a session catching up (initial send / 100 ms poll / resend):
        getWALEntriesFromSequence reads the WAL (WAL lock), then session.mu.Lock; Send; Unlock.
        OldOrder = TRUE is the code before fix 11: the WAL is read while p.mu is held for reading.
     R  registration / removal of some other session: p.mu.Lock .. Unlock.
     H  the heartbeat check: p.mu.RLock .. RUnlock (snapshot), session.mu.Lock; Send; Unlock; on a failed send
        p.mu.Lock .. Unlock (removal).
     A  the Acknowledge handler: updateSessionAck (p.mu.Lock; session.mu.Lock; Unlock; Unlock), then
        maybeManageWALRetention: p.mu.RLock .. RUnlock (minimum over the sessions), then WAL.ManageRetention, which takes
        the WAL lock.  RetentionHoldsRead = TRUE is the seeded variant in which the read lock is still held there.
     N  the NegativeAcknowledge handler (resendEntries): reads the WAL (WAL lock), then session.mu.Lock; Send; Unlock.
        ResendHoldsSession = TRUE is the seeded variant that takes session.mu first and holds it across the WAL read.
   The session's stream may break at any moment (`broken`); sends on it then fail (they never block here: blocking
   sends are the open finding KF_C15_stalled_reader_blocks_primary and are not the subject of this module).

   Seeded variants (sensitivity, see /verif/seeded): UnregUnderRead - W removes the session after a failed push while it
   still holds p.mu for reading; HbLeak - H leaves session.mu locked when its send fails.

   Property: a client write that has started returns (WriteReturns) under strong fairness of every goroutine, and no
   state is a deadlock. *)
EXTENDS Naturals, FiniteSets

CONSTANTS OldOrder,        \* catch-up reads the WAL under p.mu.RLock (before fix 11)
          SyncNotify,      \* the WAL also notifies OnWALSync (p.mu.Lock) inside Append (SyncImmediate)
          UnregUnderRead,  \* seeded: W unregisters after a failed push under its own read lock
          HbLeak,          \* seeded: H leaks session.mu after a failed heartbeat send
          ResendHoldsSession, \* seeded: the NegativeAcknowledge handler takes session.mu BEFORE it reads the WAL and keeps it
          RetentionHoldsRead  \* seeded: A still holds p.mu for reading while WAL.ManageRetention takes the WAL lock

VARIABLES pc,       \* program counter per goroutine
          wal,      \* holder of the WAL lock ("" = free)
          smu,      \* holder of the session lock
          readers,  \* goroutines holding p.mu for reading
          writer,   \* goroutine holding p.mu for writing
          pending,  \* goroutines that called p.mu.Lock and wait
          broken    \* the session's stream is broken

vars == <<pc, wal, smu, readers, writer, pending, broken>>
G == {"W", "C", "R", "H", "A", "N"}

Init == pc = [g \in G |-> "idle"] /\ wal = "" /\ smu = "" /\ readers = {} /\ writer = "" /\ pending = {} /\ broken = FALSE

Goto(g, l) == pc' = [pc EXCEPT ![g] = l]
\* sync.Mutex
Acq(m, g) == m = ""
\* sync.RWMutex: RLock waits while a writer holds the lock or a Lock() is pending; Lock() first announces itself
CanRLock == writer = "" /\ pending = {}
CanLock(g) == g \in pending /\ writer = "" /\ readers = {}

(* W: client write *)
W1 == pc["W"] = "idle" /\ Acq(wal, "W") /\ wal' = "W" /\ Goto("W", IF SyncNotify THEN "sync" ELSE "bcast")
      /\ UNCHANGED <<smu, readers, writer, pending, broken>>
W2 == pc["W"] = "sync" /\ pending' = pending \cup {"W"} /\ Goto("W", "synclock") /\ UNCHANGED <<wal, smu, readers, writer, broken>>
W3 == pc["W"] = "synclock" /\ CanLock("W") /\ writer' = "W" /\ pending' = pending \ {"W"} /\ Goto("W", "syncunlock")
      /\ UNCHANGED <<wal, smu, readers, broken>>
W4 == pc["W"] = "syncunlock" /\ writer' = "" /\ Goto("W", "bcast") /\ UNCHANGED <<wal, smu, readers, pending, broken>>
W5 == pc["W"] = "bcast" /\ CanRLock /\ readers' = readers \cup {"W"} /\ Goto("W", "slock") /\ UNCHANGED <<wal, smu, writer, pending, broken>>
W6 == pc["W"] = "slock" /\ Acq(smu, "W") /\ smu' = "W" /\ Goto("W", "send") /\ UNCHANGED <<wal, readers, writer, pending, broken>>
\* Send: fails on a broken stream; the seeded variant then removes the session right here
W7 == /\ pc["W"] = "send"
      /\ IF broken /\ UnregUnderRead THEN Goto("W", "unreg") /\ pending' = pending \cup {"W"} ELSE Goto("W", "sunlock") /\ UNCHANGED pending
      /\ UNCHANGED <<wal, smu, readers, writer, broken>>
W7a == pc["W"] = "unreg" /\ CanLock("W") /\ writer' = "W" /\ pending' = pending \ {"W"} /\ Goto("W", "unregdone")
       /\ UNCHANGED <<wal, smu, readers, broken>>
W7b == pc["W"] = "unregdone" /\ writer' = "" /\ Goto("W", "sunlock") /\ UNCHANGED <<wal, smu, readers, pending, broken>>
W8 == pc["W"] = "sunlock" /\ smu' = "" /\ Goto("W", "runlock") /\ UNCHANGED <<wal, readers, writer, pending, broken>>
W9 == pc["W"] = "runlock" /\ readers' = readers \ {"W"} /\ Goto("W", "walunlock") /\ UNCHANGED <<wal, smu, writer, pending, broken>>
W10 == pc["W"] = "walunlock" /\ wal' = "" /\ Goto("W", "idle") /\ UNCHANGED <<smu, readers, writer, pending, broken>>
WNext == W1 \/ W2 \/ W3 \/ W4 \/ W5 \/ W6 \/ W7 \/ W7a \/ W7b \/ W8 \/ W9 \/ W10

(* C: catch-up of the session's StreamWAL handler *)
C1 == /\ pc["C"] = "idle"
      /\ IF OldOrder THEN CanRLock /\ readers' = readers \cup {"C"} /\ Goto("C", "read") ELSE Goto("C", "read") /\ UNCHANGED readers
      /\ UNCHANGED <<wal, smu, writer, pending, broken>>
C2 == pc["C"] = "read" /\ Acq(wal, "C") /\ wal' = "C" /\ Goto("C", "readdone") /\ UNCHANGED <<smu, readers, writer, pending, broken>>
C3 == pc["C"] = "readdone" /\ wal' = "" /\ readers' = readers \ {"C"} /\ Goto("C", "slock") /\ UNCHANGED <<smu, writer, pending, broken>>
C4 == pc["C"] = "slock" /\ Acq(smu, "C") /\ smu' = "C" /\ Goto("C", "send") /\ UNCHANGED <<wal, readers, writer, pending, broken>>
C5 == pc["C"] = "send" /\ smu' = "" /\ Goto("C", "idle") /\ UNCHANGED <<wal, readers, writer, pending, broken>>
CNext == C1 \/ C2 \/ C3 \/ C4 \/ C5

(* R: another session registers / is removed *)
R1 == pc["R"] = "idle" /\ pending' = pending \cup {"R"} /\ Goto("R", "lock") /\ UNCHANGED <<wal, smu, readers, writer, broken>>
R2 == pc["R"] = "lock" /\ CanLock("R") /\ writer' = "R" /\ pending' = pending \ {"R"} /\ Goto("R", "unlock") /\ UNCHANGED <<wal, smu, readers, broken>>
R3 == pc["R"] = "unlock" /\ writer' = "" /\ Goto("R", "idle") /\ UNCHANGED <<wal, smu, readers, pending, broken>>
RNext == R1 \/ R2 \/ R3

(* H: heartbeat check *)
H1 == pc["H"] = "idle" /\ CanRLock /\ readers' = readers \cup {"H"} /\ Goto("H", "snap") /\ UNCHANGED <<wal, smu, writer, pending, broken>>
H2 == pc["H"] = "snap" /\ readers' = readers \ {"H"} /\ Goto("H", "slock") /\ UNCHANGED <<wal, smu, writer, pending, broken>>
H3 == pc["H"] = "slock" /\ Acq(smu, "H") /\ smu' = "H" /\ Goto("H", "send") /\ UNCHANGED <<wal, readers, writer, pending, broken>>
H4 == /\ pc["H"] = "send"
      /\ IF broken THEN /\ (IF HbLeak THEN UNCHANGED smu ELSE smu' = "")
                        /\ Goto("H", "remove") /\ pending' = pending \cup {"H"}
                   ELSE smu' = "" /\ Goto("H", "idle") /\ UNCHANGED pending
      /\ UNCHANGED <<wal, readers, writer, broken>>
H5 == pc["H"] = "remove" /\ CanLock("H") /\ writer' = "H" /\ pending' = pending \ {"H"} /\ Goto("H", "removed") /\ UNCHANGED <<wal, smu, readers, broken>>
H6 == pc["H"] = "removed" /\ writer' = "" /\ Goto("H", "idle") /\ UNCHANGED <<wal, smu, readers, pending, broken>>
HNext == H1 \/ H2 \/ H3 \/ H4 \/ H5 \/ H6

(* A: Acknowledge handler with retention *)
A1 == pc["A"] = "idle" /\ pending' = pending \cup {"A"} /\ Goto("A", "acklock") /\ UNCHANGED <<wal, smu, readers, writer, broken>>
A2 == pc["A"] = "acklock" /\ CanLock("A") /\ writer' = "A" /\ pending' = pending \ {"A"} /\ Goto("A", "slock") /\ UNCHANGED <<wal, smu, readers, broken>>
A3 == pc["A"] = "slock" /\ Acq(smu, "A") /\ smu' = "A" /\ Goto("A", "ackdone") /\ UNCHANGED <<wal, readers, writer, pending, broken>>
A4 == pc["A"] = "ackdone" /\ smu' = "" /\ writer' = "" /\ Goto("A", "min") /\ UNCHANGED <<wal, readers, pending, broken>>
A5 == pc["A"] = "min" /\ CanRLock /\ readers' = readers \cup {"A"} /\ Goto("A", "mindone") /\ UNCHANGED <<wal, smu, writer, pending, broken>>
A6 == /\ pc["A"] = "mindone" /\ Goto("A", "retain")
      /\ readers' = IF RetentionHoldsRead THEN readers ELSE readers \ {"A"}
      /\ UNCHANGED <<wal, smu, writer, pending, broken>>
A7 == pc["A"] = "retain" /\ Acq(wal, "A") /\ wal' = "A" /\ Goto("A", "retained") /\ UNCHANGED <<smu, readers, writer, pending, broken>>
A8 == pc["A"] = "retained" /\ wal' = "" /\ readers' = readers \ {"A"} /\ Goto("A", "idle") /\ UNCHANGED <<smu, writer, pending, broken>>
ANext == A1 \/ A2 \/ A3 \/ A4 \/ A5 \/ A6 \/ A7 \/ A8

(* N: NegativeAcknowledge handler (resendEntries): reads the WAL, then session.mu.Lock; Send; Unlock *)
N1 == /\ pc["N"] = "idle"
      /\ IF ResendHoldsSession THEN Acq(smu, "N") /\ smu' = "N" ELSE UNCHANGED smu
      /\ Goto("N", "read") /\ UNCHANGED <<wal, readers, writer, pending, broken>>
N2 == pc["N"] = "read" /\ Acq(wal, "N") /\ wal' = "N" /\ Goto("N", "readdone") /\ UNCHANGED <<smu, readers, writer, pending, broken>>
N3 == pc["N"] = "readdone" /\ wal' = "" /\ Goto("N", "slock") /\ UNCHANGED <<smu, readers, writer, pending, broken>>
N4 == /\ pc["N"] = "slock"
      /\ IF ResendHoldsSession THEN UNCHANGED smu ELSE Acq(smu, "N") /\ smu' = "N"
      /\ Goto("N", "send") /\ UNCHANGED <<wal, readers, writer, pending, broken>>
N5 == pc["N"] = "send" /\ smu' = "" /\ Goto("N", "idle") /\ UNCHANGED <<wal, readers, writer, pending, broken>>
NNext == N1 \/ N2 \/ N3 \/ N4 \/ N5

Break == ~broken /\ broken' = TRUE /\ UNCHANGED <<pc, wal, smu, readers, writer, pending>>

Next == WNext \/ CNext \/ RNext \/ HNext \/ ANext \/ NNext \/ Break
Spec == Init /\ [][Next]_vars /\ SF_vars(WNext) /\ SF_vars(CNext) /\ SF_vars(RNext) /\ SF_vars(HNext) /\ SF_vars(ANext) /\ SF_vars(NNext)

LocksConsistent == /\ (writer # "" => readers = {})
                   /\ (wal = "W" <=> pc["W"] \notin {"idle"})
WriteReturns == (pc["W"] # "idle") ~> (pc["W"] = "idle")
AllReturn == \A g \in G : (pc[g] # "idle") ~> (pc[g] = "idle")
=============================================================================
