SPECIFICATION Spec
CONSTANTS
  Keys = {"k1", "k2"}
  Vals = {"v1"}
  SyncMode = "none"
  MaxOps = 3
  MaxBatch = 1
  MaxImm = 2
  MaxFiles = 3
  MaxCrash = 1
  MaxLevel = 2
INVARIANT Inv
PROPERTY LastSeqMonotone
CONSTRAINT StateBound
CHECK_DEADLOCK FALSE
