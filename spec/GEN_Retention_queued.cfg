SPECIFICATION GSpec
CONSTANTS
  MaxSeq = 6
  MaxCrash = 3
  Guard = TRUE
  Tiny = FALSE
  Queued = TRUE
  GenLen = 14
CHECK_DEADLOCK FALSE
