SPECIFICATION Spec
CONSTANTS
  N = 3
  NSrc = 2
  MaxSteps = 2
  LoSet <- LoSetAll
  HiSet <- HiSetAll
  FltSet <- FltSetAll
INVARIANT PositionIsEntry
INVARIANT CursorsConsistent
PROPERTY SeekToFirstOK
PROPERTY SeekOK
PROPERTY NextOK
PROPERTY SeekToLastOK
CHECK_DEADLOCK FALSE
