------------------------------- MODULE KevoMem -------------------------------
(* The memtable of KevoDB/kevo (pkg/memtable): ONE skiplist-backed table, written at the grain of the code.

   skiplist.go   SkipList.Insert  = PickHeight (randomHeight/newNode) ; RaiseMax (CAS on maxHeight) ; FindPreds
                                    (top-down search with compareWithEntry: key ascending, sequence descending, the
                                    new entry goes BEFORE entries that compare equal) ; then per level, bottom-up,
                                    LinkNodeNext(l) (node.next[l] := pred.next[l]) and LinkPredNext(l) (pred.next[l] := node)
                 SkipList.Find    = top-down descent on the key, then a scan of the entries with that key keeping the
                                    one with the highest sequence number (strict >, so ties keep the first met = the
                                    latest inserted)
                 Iterator         = Seek (the same descent), SeekToFirst, Next, all skipping entries whose sequence
                                    number exceeds snapshotSeq (0 = no filtering)
   memtable.go   Put/Delete hold the table's write lock from before the immutability test until nextSeqNum is updated;
                 Get takes the read lock on a mutable table and NO lock on an immutable one; NewIterator on a mutable
                 table reads nextSeqNum under the read lock (the snapshot), on an immutable table it takes no lock;
                 SetImmutable is a plain atomic store (no lock).

   Readers advance one pointer load per step (Step below is the single transcription of Find / Seek / Next; Run
   iterates it to completion and is what the generators use to predict observations).

   Keys, targets and sequence numbers are naturals; node ids are 1..Len(ent) in insertion order, the head is 0 and
   the nil pointer is -1 (TLC: function domains must not mix strings and integers). *)
EXTENDS Integers, Sequences, FiniteSets, TLC

CONSTANTS DataKeys,       \* keys that inserts may carry
          Targets,        \* lookup / seek targets (a superset of DataKeys: gaps and both ends)
          SeqNums,        \* sequence numbers an insert may carry (any order, repeats allowed)
          Payloads,       \* value tokens; "TOMB" = delete marker
          MaxIns,         \* bound on the number of inserts
          MaxH,           \* bound on node height
          Readers,        \* reader process ids
          RStartMin,      \* a reader operation may start only after this many inserts have begun (splits big configurations)
          ROps,           \* which reader operations a configuration explores: subset of {"find", "seek", "first"}
          ImmMidInsert,   \* TRUE: SetImmutable may hit while an insert is in flight (MemTable API level)
          PublishFirst,   \* FALSE = the code; TRUE = mutant: pred.next[l] is stored before node.next[l]
          TopDown,        \* FALSE = the code; TRUE = mutant: levels are linked from the top down
          Reload          \* what Find/Seek do after the descent: "keep" = land on the node the descent saw last;
                          \* "recheck" = load pred.next[0] again and keep walking while it is smaller than the
                          \* target (both are correct designs); "blind" = load again and take whatever is there
                          \* (the pinned code - a node linked in between may be smaller than the target)

VARIABLES ent,       \* Seq of [k, s, v]: entry of node i (written before the node is reachable)
          hgt,       \* Seq of heights
          nxt,       \* [node -> [level -> node]]: the atomic next pointers
          maxH,      \* SkipList.maxHeight
          imm,       \* MemTable.immutable
          nextSeq,   \* MemTable.nextSeqNum
          wpc, wlvl, preds, succs,   \* the single writer: program counter, level, prev[] and the successors read there
          done,      \* ghost: nodes whose Put/Delete has returned
          frozen,    \* ghost: the structure as it was when the table came to rest immutable
          rd         \* readers

vars == <<ent, hgt, nxt, maxH, imm, nextSeq, wpc, wlvl, preds, succs, done, frozen, rd>>

Nil    == -1
HeadN   == 0
Levels == 0..(MaxH - 1)
Nodes  == 1..Len(ent)
Cur    == Len(ent)          \* the node being inserted while wpc # "idle"
NoFrozen == [n |-> -1]

Range(s) == {s[i] : i \in DOMAIN s}

(* ---- order ---- *)
Less(a, b)    == a.k < b.k \/ (a.k = b.k /\ a.s > b.s)                    \* compareWithEntry(a, b) < 0
Ordered(x, y) == Less(ent[x], ent[y]) \/ (ent[x].k = ent[y].k /\ ent[x].s = ent[y].s /\ x > y)
                                                                           \* required chain order: ties -> later insert first
Beats(x, y)   == x = y \/ ent[x].s > ent[y].s \/ (ent[x].s = ent[y].s /\ x > y)
Vis(x, snap)  == snap = 0 \/ ent[x].s <= snap                              \* Iterator.isVisible

(* ---- the abstract multi-version map that the table implements ---- *)
AbsGet(S, k) == LET C == {x \in S : ent[x].k = k}
                IN IF C = {} THEN Nil ELSE CHOOSE x \in C : \A y \in C : Beats(x, y)
RECURSIVE AbsSort(_)
AbsSort(S) == IF S = {} THEN <<>>
              ELSE LET m == CHOOSE x \in S : \A y \in S \ {x} : Ordered(x, y) IN <<m>> \o AbsSort(S \ {m})
AbsFrom(S, t, snap) == AbsSort({x \in S : ent[x].k >= t /\ Vis(x, snap)})

(* ---- structure ---- *)
RECURSIVE ChainFrom(_, _, _)
ChainFrom(x, l, fuel) == IF x = Nil THEN <<>>
                         ELSE IF fuel = 0 THEN <<Nil>>               \* cycle marker
                         ELSE <<x>> \o ChainFrom(nxt[x][l], l, fuel - 1)
Chain(l) == ChainFrom(nxt[HeadN][l], l, MaxIns + 1)
SortedSeq(c) == \A i \in 1..(Len(c) - 1) : Ordered(c[i], c[i + 1])

(* ---- writer ---- *)
RECURSIVE Walk(_, _, _)
Walk(x, l, e) == LET y == nxt[x][l] IN IF y # Nil /\ Less(ent[y], e) THEN Walk(y, l, e) ELSE x
RECURSIVE PredsFrom(_, _, _, _)
PredsFrom(x, l, e, acc) == LET p == Walk(x, l, e)
                               a2 == [acc EXCEPT ![l] = p]
                           IN IF l = 0 THEN a2 ELSE PredsFrom(p, l - 1, e, a2)

NoReaderLock == \A r \in Readers : ~rd[r].lock
FirstLvl  == IF TopDown THEN hgt[Cur] - 1 ELSE 0
LastLvl   == IF TopDown THEN 0 ELSE hgt[Cur] - 1
NextLvl   == IF TopDown THEN wlvl - 1 ELSE wlvl + 1
FirstStep == IF PublishFirst THEN "predNext" ELSE "nodeNext"

\* MemTable.Put/Delete: take the write lock, test the flag; SkipList.Insert: randomHeight, newNode
WBegin(k, s, v, h) ==
    /\ wpc = "idle" /\ ~imm /\ NoReaderLock /\ Len(ent) < MaxIns
    /\ ent' = Append(ent, [k |-> k, s |-> s, v |-> v]) /\ hgt' = Append(hgt, h)
    /\ wpc' = "raise"
    /\ UNCHANGED <<nxt, maxH, imm, nextSeq, wlvl, preds, succs, done, frozen, rd>>
WRaiseMax ==
    /\ wpc = "raise" /\ maxH' = (IF hgt[Cur] > maxH THEN hgt[Cur] ELSE maxH) /\ wpc' = "find"
    /\ UNCHANGED <<ent, hgt, nxt, imm, nextSeq, wlvl, preds, succs, done, frozen, rd>>
WFindPreds ==
    /\ wpc = "find"
    /\ LET p == PredsFrom(HeadN, maxH - 1, ent[Cur], [l \in Levels |-> HeadN])
       IN preds' = p /\ succs' = [l \in Levels |-> nxt[p[l]][l]]
    /\ wlvl' = FirstLvl /\ wpc' = FirstStep
    /\ UNCHANGED <<ent, hgt, nxt, maxH, imm, nextSeq, done, frozen, rd>>
AfterLevel == IF wlvl = LastLvl THEN wpc' = "finish" /\ wlvl' = wlvl
              ELSE wpc' = FirstStep /\ wlvl' = NextLvl
WLinkNodeNext ==
    /\ wpc = "nodeNext"
    /\ nxt' = [nxt EXCEPT ![Cur][wlvl] = IF PublishFirst THEN succs[wlvl] ELSE nxt[preds[wlvl]][wlvl]]
    /\ IF PublishFirst THEN AfterLevel ELSE wpc' = "predNext" /\ wlvl' = wlvl
    /\ UNCHANGED <<ent, hgt, maxH, imm, nextSeq, preds, succs, done, frozen, rd>>
WLinkPredNext ==
    /\ wpc = "predNext"
    /\ nxt' = [nxt EXCEPT ![preds[wlvl]][wlvl] = Cur]
    /\ IF PublishFirst THEN wpc' = "nodeNext" /\ wlvl' = wlvl ELSE AfterLevel
    /\ UNCHANGED <<ent, hgt, maxH, imm, nextSeq, preds, succs, done, frozen, rd>>
Snapshot == [n |-> Len(ent), nxt |-> nxt, maxH |-> maxH]
\* nextSeqNum update and unlock: the call returns
WFinish ==
    /\ wpc = "finish"
    /\ nextSeq' = (IF ent[Cur].s > nextSeq THEN ent[Cur].s + 1 ELSE nextSeq)
    /\ done' = done \cup {Cur} /\ wpc' = "idle"
    /\ frozen' = (IF imm THEN Snapshot ELSE frozen)
    /\ wlvl' = 0 /\ preds' = [l \in Levels |-> HeadN] /\ succs' = [l \in Levels |-> Nil]     \* locals die with the call
    /\ UNCHANGED <<ent, hgt, nxt, maxH, imm, rd>>
\* a write to an immutable table is ignored
WIgnored == wpc = "idle" /\ imm /\ NoReaderLock /\ UNCHANGED vars

SetImmutable ==
    /\ ~imm /\ (ImmMidInsert \/ wpc = "idle")
    /\ imm' = TRUE /\ frozen' = (IF wpc = "idle" THEN Snapshot ELSE frozen)
    /\ UNCHANGED <<ent, hgt, nxt, maxH, nextSeq, wpc, wlvl, preds, succs, done, rd>>

(* ---- readers ---- *)
Q0 == [pc |-> "idle", op |-> "none", t |-> 0, pos |-> HeadN, lvl |-> 0, cur |-> Nil, res |-> Nil,
       seen |-> <<>>, start |-> {}, snap |-> 0, lock |-> FALSE]

\* the operation is over: locals die, the read lock (if any) is released
Fin(q) == [q EXCEPT !.pc = "end", !.lock = FALSE, !.pos = HeadN, !.lvl = 0, !.cur = Nil]
\* one pointer load of SkipList.Find / Iterator.Seek / SeekToFirst / Next; m = landing mode (see Reload)
StepM(q, m) ==
    CASE q.pc = "desc" ->
           LET y == nxt[q.pos][q.lvl] IN
           IF y # Nil /\ ent[y].k < q.t THEN [q EXCEPT !.pos = y]
           ELSE IF q.lvl > 0 THEN [q EXCEPT !.lvl = q.lvl - 1]
           ELSE [q EXCEPT !.pc = "land", !.cur = y]          \* y = the first node >= target seen by the descent
      [] q.pc = "land" ->
           \* SeekToFirst has no descent: it loads head.next[0] here
           LET c == IF m = "keep" /\ q.op # "first" THEN q.cur ELSE nxt[q.pos][0] IN
           IF m = "recheck" /\ q.op # "first" /\ c # Nil /\ ent[c].k < q.t THEN [q EXCEPT !.pos = c]
           ELSE IF q.op = "find"
           THEN IF c = Nil \/ ent[c].k # q.t THEN Fin([q EXCEPT !.res = Nil])
                ELSE [q EXCEPT !.pc = "scan", !.res = c, !.cur = c]
           ELSE [q EXCEPT !.pc = "skip", !.cur = c]
      [] q.pc = "scan" ->
           IF q.cur = Nil \/ ent[q.cur].k # q.t THEN Fin(q)
           ELSE [q EXCEPT !.res = IF ent[q.cur].s > ent[q.res].s THEN q.cur ELSE q.res, !.cur = nxt[q.cur][0]]
      [] q.pc = "skip" ->
           IF q.cur # Nil /\ ~Vis(q.cur, q.snap) THEN [q EXCEPT !.cur = nxt[q.cur][0]]
           ELSE IF q.cur = Nil THEN Fin(q)
           ELSE [q EXCEPT !.pc = "at", !.seen = Append(q.seen, q.cur)]
      [] q.pc = "next" -> [q EXCEPT !.pc = "skip", !.cur = nxt[q.cur][0]]
      [] OTHER -> q
Step(q) == StepM(q, Reload)
Running(q) == q.pc \in {"desc", "land", "scan", "skip", "next"}
RECURSIVE RunM(_, _)
RunM(q, m) == IF Running(q) THEN RunM(StepM(q, m), m) ELSE q    \* to the next resting point ("at" / "end")
Run(q) == RunM(q, Reload)
RECURSIVE RunAll(_)
RunAll(q) == LET p == Run(q) IN IF p.pc = "at" THEN RunAll([p EXCEPT !.pc = "next"]) ELSE p   \* iterate to the end

CanRLock == wpc = "idle"          \* RWMutex: a reader waits while the writer holds the lock
FindStart(t)    == [Q0 EXCEPT !.pc = "desc", !.op = "find", !.t = t, !.lvl = maxH - 1, !.start = done, !.lock = ~imm]
SeekStart(q, t) == [q EXCEPT !.pc = "desc", !.op = "seek", !.t = t, !.pos = HeadN, !.lvl = maxH - 1, !.start = done,
                             !.seen = <<>>, !.cur = Nil]
FirstStart(q)   == [q EXCEPT !.pc = "land", !.op = "first", !.t = 0, !.pos = HeadN, !.start = done, !.seen = <<>>, !.cur = Nil]
NewIter         == [Q0 EXCEPT !.pc = "iter", !.op = "iter", !.snap = IF imm THEN 0 ELSE nextSeq]

RUnch == UNCHANGED <<ent, hgt, nxt, maxH, imm, nextSeq, wpc, wlvl, preds, succs, done, frozen>>
RFind(r, t)  == "find" \in ROps /\ Len(ent) >= RStartMin /\ rd[r].pc = "idle" /\ (imm \/ CanRLock) /\ rd' = [rd EXCEPT ![r] = FindStart(t)] /\ RUnch
RNewIter(r)  == ROps \cap {"seek", "first"} # {} /\ Len(ent) >= RStartMin /\ rd[r].pc = "idle" /\ (imm \/ CanRLock) /\ rd' = [rd EXCEPT ![r] = NewIter] /\ RUnch
RSeek(r, t)  == "seek" \in ROps /\ rd[r].pc = "iter" /\ rd' = [rd EXCEPT ![r] = SeekStart(rd[r], t)] /\ RUnch
RFirst(r)    == "first" \in ROps /\ rd[r].pc = "iter" /\ rd' = [rd EXCEPT ![r] = FirstStart(rd[r])] /\ RUnch
RNext(r)     == rd[r].pc = "at" /\ rd' = [rd EXCEPT ![r] = Step([rd[r] EXCEPT !.pc = "next"])] /\ RUnch
RStep(r)     == Running(rd[r]) /\ rd' = [rd EXCEPT ![r] = Step(rd[r])] /\ RUnch

Init == /\ ent = <<>> /\ hgt = <<>> /\ nxt = [x \in 0..MaxIns |-> [l \in Levels |-> Nil]]
        /\ maxH = 1 /\ imm = FALSE /\ nextSeq = 0
        /\ wpc = "idle" /\ wlvl = 0 /\ preds = [l \in Levels |-> HeadN] /\ succs = [l \in Levels |-> Nil]
        /\ done = {} /\ frozen = NoFrozen /\ rd = [r \in Readers |-> Q0]

WStep == WRaiseMax \/ WFindPreds \/ WLinkNodeNext \/ WLinkPredNext \/ WFinish
Next == \/ \E k \in DataKeys, s \in SeqNums, v \in Payloads, h \in 1..MaxH : WBegin(k, s, v, h)
        \/ WStep \/ SetImmutable
        \/ \E r \in Readers : \/ \E t \in Targets : RFind(r, t) \/ RSeek(r, t)
                              \/ RNewIter(r) \/ RFirst(r) \/ RNext(r) \/ RStep(r)
Spec == Init /\ [][Next]_vars

(* ---- C18 ---- *)
TypeOK == /\ maxH \in 1..MaxH /\ Len(ent) = Len(hgt) /\ Len(ent) <= MaxIns
          /\ done \subseteq Nodes /\ (wpc = "idle" => done = Nodes) /\ (wpc # "idle" => done = Nodes \ {Cur})
\* level 0 is sorted at every instant (key ascending, sequence descending, ties by insertion recency), acyclic, holds
\* only created nodes and every node whose insert has returned
Level0Sorted == LET c == Chain(0) IN
    /\ Nil \notin Range(c) /\ Range(c) \subseteq Nodes /\ SortedSeq(c) /\ done \subseteq Range(c)
\* every level is a sorted sublist of the level below, made of nodes that are tall enough; at rest level l holds
\* exactly the nodes taller than l
LevelsAreSublists == \A l \in 1..(MaxH - 1) : LET c == Chain(l) IN
    /\ Nil \notin Range(c) /\ SortedSeq(c) /\ Range(c) \subseteq Range(Chain(l - 1))
    /\ \A x \in Range(c) : hgt[x] > l
    /\ (l >= maxH => c = <<>>)
    /\ (wpc = "idle" => Range(c) = {x \in Nodes : hgt[x] > l})
\* a finished lookup returns an entry of its key that beats (higher sequence; equal sequence: inserted later) every
\* entry of that key whose insert had returned when the lookup started; none only if there was none
FindOK(q) == q.op = "find" /\ q.pc = "end" =>
    LET A == {x \in q.start : ent[x].k = q.t} IN
    /\ (A # {} => q.res # Nil)
    /\ (q.res # Nil => q.res \in Nodes /\ ent[q.res].k = q.t /\ \A a \in A : Beats(q.res, a))
FindReturnsMaxSeq ==
    /\ \A r \in Readers : FindOK(rd[r])
    \* at rest the operational lookup IS the abstract map, for every target
    /\ (wpc = "idle" => \A t \in Targets : Run(FindStart(t)).res = AbsGet(done, t))
\* what an iterator has yielded is sorted, duplicate-free, made of entries >= target that its snapshot admits and
\* whose insert has started, and it has skipped nothing that was complete when the positioning call started
ObsOK(seen, t, snap, start, atEnd) ==
    /\ SortedSeq(seen)
    /\ \A i \in DOMAIN seen : seen[i] \in Nodes /\ ent[seen[i]].k >= t /\ Vis(seen[i], snap)
    /\ \A x \in start : ent[x].k >= t /\ Vis(x, snap) /\ x \notin Range(seen)
                        => ~atEnd /\ (seen # <<>> => Ordered(seen[Len(seen)], x))
IterOK(q) == q.op \in {"seek", "first"} => ObsOK(q.seen, q.t, q.snap, q.start, q.pc = "end")
ReaderSeesAtLeastPrefix ==
    /\ \A r \in Readers : IterOK(rd[r])
    \* an iterator never hides what was inserted before it was created: the snapshot admits every finished insert
    /\ (wpc = "idle" /\ nextSeq # 0 => \A x \in done : ent[x].s <= nextSeq)
    /\ (wpc = "idle" => \A t \in Targets : RunAll(SeekStart(NewIter, t)).seen = AbsFrom(done, t, 0))
    /\ (wpc = "idle" => RunAll(FirstStart(NewIter)).seen = AbsSort(done))
\* once the table rests immutable nothing changes any more; no insert starts on an immutable table
ImmutableNeverChanges ==
    /\ (imm /\ wpc = "idle" => frozen # NoFrozen)
    /\ (frozen # NoFrozen => frozen = Snapshot /\ wpc = "idle")
=============================================================================
