SPECIFICATION GSpec
CONSTANTS
  MaxDiff = 2
  BaseNames = {"default", "edge"}
  PolSet = {TRUE, FALSE}
  Acts = {"choose"}
  Mode = "life"
  GenLen = 14
CHECK_DEADLOCK FALSE
