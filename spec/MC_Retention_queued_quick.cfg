SPECIFICATION Spec
CONSTANTS
  MaxSeq = 4
  MaxCrash = 2
  Guard = TRUE
  Tiny = FALSE
  Queued = TRUE
INVARIANTS ReadableWhileUp Recoverable NextAbove GuardSound
CHECK_DEADLOCK FALSE
CONSTRAINT Bound
