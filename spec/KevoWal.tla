------------------------------- MODULE KevoWal -------------------------------
(***************************************************************************)
(* The write-ahead log of kevo (pkg/wal) at the grain of PHYSICAL RECORDS  *)
(* (C09: replaying the log yields exactly what was appended, in order).    *)
(*                                                                         *)
(* A logical entry  op(1) | seq(8) | keylen(4) | key | [vallen(4) | value] *)
(* is written as ONE record of type FULL if it fits MaxRec bytes, else as  *)
(* FIRST (entry header + as much of the key as fits), MIDDLE* (full-sized  *)
(* chunks of the rest) and LAST - transcribed from wal.Append /            *)
(* writeFragmentedRecord.  The reader (Reader.ReadEntry) re-assembles them *)
(* record by record - transcribed in ReadRecs.  Files are replayed in name *)
(* (= creation) order.  Keys and values are not modelled as bytes: an entry*)
(* is [id, shape, seq]; a SHAPE fixes operation type, key length and value *)
(* length; the conformance harness turns (id, shape) into bytes.           *)
(***************************************************************************)
EXTENDS Integers, Sequences, FiniteSets

CONSTANTS ShapeNames,     \* the shape classes used in this configuration (subset of DOMAIN ShapeDef)
          Batches,        \* the batches (sequences of shape names) that AppendBatch may write
          MaxEntries,     \* bound: logical entries appended in one behaviour
          MaxFiles        \* bound: log files

MaxRec   == 32768         \* wal.MaxRecordSize: largest record payload
EntryHdr == 13            \* op(1) + seq(8) + keylen(4)
RecHdr   == 7             \* crc(4) + len(2) + type(1)
LenField == 65535         \* the record length is stored in 2 bytes
BufSize  == 65536         \* bufio buffer of the writer

Min(a, b) == IF a < b THEN a ELSE b

(* Shape classes: operation, key length, value length.  The names say which boundary each one sits on. *)
Sh(op, k, v) == [op |-> op, k |-> k, v |-> v]
ShapeDef == [
  del0     |-> Sh("del", 0, 0),                 \* payload 13: the smallest record there is
  put00    |-> Sh("put", 0, 0),                 \* empty key and empty value
  put11    |-> Sh("put", 1, 1),
  small    |-> Sh("put", 8, 24),
  merge    |-> Sh("merge", 8, 8),               \* third operation type the log accepts
  fit      |-> Sh("put", 8, 32743),             \* payload exactly MaxRec: the largest FULL record
  frag1    |-> Sh("put", 8, 32744),             \* payload MaxRec+1: the first size that fragments (FIRST + LAST)
  lastfull |-> Sh("put", 8, 32764),             \* rest after FIRST exactly MaxRec: LAST is a full-sized record
  three    |-> Sh("put", 8, 32765),             \* rest MaxRec+1: FIRST + MIDDLE + LAST(1)
  four     |-> Sh("put", 8, 70000),             \* FIRST + 2 MIDDLE + LAST
  midfull  |-> Sh("put", 8, 65532),             \* rest exactly 2*MaxRec: FIRST + MIDDLE + full-sized LAST
  keyfit   |-> Sh("put", 32755, 0),             \* key exactly fills FIRST; LAST holds only the value length
  bigkey   |-> Sh("put", 40000, 100),           \* fragmented KEY: the key continues in LAST
  delfit   |-> Sh("del", 32755, 0),             \* delete whose payload is exactly MaxRec (FULL)
  delbig   |-> Sh("del", 32756, 0),             \* delete with a large key: FIRST + LAST(1)
  delhuge  |-> Sh("del", 70000, 0) ]            \* delete whose key needs FIRST + MIDDLE + LAST

\* a shape as the entries carry it: the name plus what the name stands for (the boundary sweep builds such records
\* for every payload length of a range, see GEN_Wal)
S(name) == [n |-> name, op |-> ShapeDef[name].op, k |-> ShapeDef[name].k, v |-> ShapeDef[name].v]
Shapes == {S(nm) : nm \in ShapeNames}
ShapeSeq(names) == [i \in 1..Len(names) |-> S(names[i])]

Payload(d) == EntryHdr + d.k + (IF d.op # "del" THEN 4 + d.v ELSE 0)

(* ---- writer: wal.Append -> writeRecord | writeFragmentedRecord ---- *)
Rec(t, n, id, p) == [t |-> t, len |-> n, e |-> id, part |-> p]

\* "for len(remaining) > MaxRecordSize { MIDDLE chunk }; if len(remaining) > 0 { LAST }"
RECURSIVE Chunks(_)
Chunks(rem) == IF rem > MaxRec THEN <<MaxRec>> \o Chunks(rem - MaxRec)
               ELSE IF rem > 0 THEN <<rem>> ELSE <<>>

Records(id, sh) ==
  LET d == sh
      pay == Payload(sh)
  IN IF pay <= MaxRec THEN << Rec("FULL", pay, id, 1) >>
     ELSE LET keyInFirst == Min(d.k, MaxRec - EntryHdr)
              first == EntryHdr + keyInFirst
              ch == Chunks(pay - first)
          IN << Rec("FIRST", first, id, 1) >> \o
             [i \in 1..Len(ch) |-> Rec(IF i = Len(ch) THEN "LAST" ELSE "MIDDLE", ch[i], id, i + 1)]

NumRecords(sh) == Len(Records(0, sh))
Bytes(recs) == LET RECURSIVE Sum(_) Sum(i) == IF i = 0 THEN 0 ELSE Sum(i - 1) + RecHdr + recs[i].len IN Sum(Len(recs))

(* ---- state ---- *)
VARIABLES files,      \* Seq of files in name order; a file is the Seq of physical records appended to it
          next,       \* the writer's next sequence number
          live,       \* index of the file open for appending, 0 = log closed
          appended    \* history: every logical entry appended, [id, sh, seq], in append order

wvars == <<files, next, live, appended>>

Entry(id, sh, seq) == [id |-> id, sh |-> sh, seq |-> seq]

(* ---- reader: Reader.ReadEntry over the records of one file ---- *)
\* parseEntryData on the concatenated fragments succeeds with entry e iff the pieces are exactly the records the
\* writer produced for e, in order (then the lengths inside the data are consistent with the amount of data).
IsWholeEntry(parts) ==
  /\ Len(parts) >= 1
  /\ \A i \in 1..Len(parts) : parts[i].e = parts[1].e /\ parts[i].part = i
  /\ \/ Len(parts) = 1 /\ parts[1].t = "FULL"
     \/ /\ Len(parts) >= 2 /\ parts[1].t = "FIRST" /\ parts[Len(parts)].t = "LAST"
        /\ \A i \in 2..(Len(parts) - 1) : parts[i].t = "MIDDLE"

\* the entry the pieces belong to (its shape and number are looked up in the history)
EntryOf(id) == appended[id]
SumLen(parts) == LET RECURSIVE Sum(_) Sum(i) == IF i = 0 THEN 0 ELSE Sum(i - 1) + parts[i].len IN Sum(Len(parts))

\* result of reading records recs[i..]: [out: entries delivered, ok: FALSE if the reader reported an error]
RECURSIVE ReadRecs(_, _, _, _)
ReadRecs(recs, i, frags, out) ==
  IF i > Len(recs) THEN [out |-> out, ok |-> frags = <<>>]          \* EOF with pending fragments = error
  ELSE LET r == recs[i] IN
    CASE r.t = "FULL"   -> IF IsWholeEntry(<<r>>) /\ r.len = Payload(EntryOf(r.e).sh)
                           THEN ReadRecs(recs, i + 1, frags, Append(out, EntryOf(r.e)))
                           ELSE [out |-> out, ok |-> FALSE]
      [] r.t = "FIRST"  -> ReadRecs(recs, i + 1, Append(frags, r), out)
      [] r.t = "MIDDLE" -> IF frags = <<>> THEN [out |-> out, ok |-> FALSE]
                           ELSE ReadRecs(recs, i + 1, Append(frags, r), out)
      [] r.t = "LAST"   -> IF frags = <<>> THEN [out |-> out, ok |-> FALSE]
                           ELSE LET parts == Append(frags, r) IN
                                IF IsWholeEntry(parts) /\ SumLen(parts) = Payload(EntryOf(r.e).sh)
                                THEN ReadRecs(recs, i + 1, <<>>, Append(out, EntryOf(r.e)))
                                ELSE [out |-> out, ok |-> FALSE]

ReadFile(f) == ReadRecs(files[f], 1, <<>>, <<>>)

\* wal.ReplayWALDir: every file in name order
RECURSIVE ReplayUpTo(_)
ReplayUpTo(n) == IF n = 0 THEN <<>> ELSE ReplayUpTo(n - 1) \o ReadFile(n).out
Replay == ReplayUpTo(Len(files))
ReplayOk == \A f \in 1..Len(files) : ReadFile(f).ok

\* WAL.GetEntriesFrom(s): nothing for s >= next, else the older files in name order, then the current file,
\* keeping the entries with seq >= s
AtOrAfter(es, s) == SelectSeq(es, LAMBDA e : e.seq >= s)
RECURSIVE FromUpTo(_, _)
FromUpTo(n, s) == IF n = 0 THEN <<>> ELSE FromUpTo(n - 1, s) \o AtOrAfter(ReadFile(n).out, s)
EntriesFrom(s) == IF s >= next THEN <<>> ELSE FromUpTo(Len(files), s)

MaxSeqOf(es) == LET RECURSIVE M(_) M(i) == IF i = 0 THEN 0 ELSE IF es[i].seq > M(i - 1) THEN es[i].seq ELSE M(i - 1)
                IN M(Len(es))
\* what a caller hands to ReuseWAL / UpdateNextSequence after a replay (storage.Manager.recoverFromWAL)
NextFromLog == MaxSeqOf(Replay) + 1

(* ---- actions ---- *)
Init == files = << <<>> >> /\ next = 1 /\ live = 1 /\ appended = <<>>

\* wal.Append(type, key, value)
AppendOne(sh) ==
  /\ live # 0 /\ Len(appended) < MaxEntries
  /\ LET id == Len(appended) + 1 IN
       /\ appended' = Append(appended, Entry(id, sh, next))
       /\ files' = [files EXCEPT ![live] = @ \o Records(id, sh)]
  /\ next' = next + 1 /\ UNCHANGED live

\* wal.AppendBatch(entries): every entry written like a single append, ONE sequence number for the whole batch;
\* the empty batch writes nothing and consumes no number
RECURSIVE BatchRecords(_, _, _)
BatchRecords(shs, i, id0) == IF i > Len(shs) THEN <<>> ELSE Records(id0 + i, shs[i]) \o BatchRecords(shs, i + 1, id0)
AppendBatch(shs) ==
  /\ live # 0 /\ Len(appended) + Len(shs) <= MaxEntries
  /\ LET id0 == Len(appended) IN
       /\ appended' = appended \o [i \in 1..Len(shs) |-> Entry(id0 + i, shs[i], next)]
       /\ files' = [files EXCEPT ![live] = @ \o BatchRecords(shs, 1, id0)]
  /\ next' = IF shs = <<>> THEN next ELSE next + 1
  /\ UNCHANGED live

\* rotation as storage.Manager does it: close the file, wal.NewWAL, UpdateNextSequence(old next)
NewFile == /\ live # 0 /\ Len(files) < MaxFiles
           /\ files' = Append(files, <<>>) /\ live' = Len(files) + 1
           /\ UNCHANGED <<next, appended>>

\* WAL.Sync: buffered records reach the file; no abstract change (what is on disk matters for C02, not here)
Sync == live # 0 /\ UNCHANGED wvars

Close == live # 0 /\ live' = 0 /\ UNCHANGED <<files, next, appended>>

\* reopening: wal.ReuseWAL(cfg, dir, next) appends to the newest file ...
Reuse == /\ live = 0 /\ Len(files) > 0
         /\ live' = Len(files) /\ next' = NextFromLog /\ UNCHANGED <<files, appended>>
\* ... or a new file is started (wal.NewWAL + UpdateNextSequence)
ReopenNew == /\ live = 0 /\ Len(files) < MaxFiles
             /\ files' = Append(files, <<>>) /\ live' = Len(files) + 1 /\ next' = NextFromLog
             /\ UNCHANGED appended

Next == \/ \E sh \in Shapes : AppendOne(sh)
        \/ \E b \in Batches : AppendBatch(ShapeSeq(b))
        \/ NewFile \/ Close \/ Reuse \/ ReopenNew
Spec == Init /\ [][Next]_wvars

(* ---- properties (C09; the C08 part that lives in the log) ---- *)
\* replaying the directory yields exactly the appended entries - same shape (type, key, value), same number, same order
ReplayIsAppended == ReplayOk /\ Replay = appended
\* reading from s yields exactly the stored entries at or after s, in order
FromIsSuffix == \A s \in 0..(next + 1) : EntriesFrom(s) = AtOrAfter(appended, s)
\* numbers never go down along the log and are equal only inside one batch; the counter is above all of them
SeqUp == /\ \A i \in 1..(Len(appended) - 1) : appended[i].seq <= appended[i + 1].seq
         /\ \A i \in 1..Len(appended) : appended[i].seq < next
NextMatchesLog == next = NextFromLog
\* the writer's fragmentation obeys the record format and loses / invents no byte
WellFormed(sh) == LET rs == Records(1, sh) IN
  /\ \A i \in 1..Len(rs) : rs[i].len >= 1 /\ rs[i].len <= MaxRec /\ rs[i].len <= LenField
  /\ SumLen(rs) = Payload(sh)
  /\ IsWholeEntry(rs)
  /\ rs[1].len >= Min(Payload(sh), EntryHdr)       \* the entry header is never split (the reader needs it in one piece)
RoundTrip == \A sh \in Shapes : WellFormed(sh)
=============================================================================
