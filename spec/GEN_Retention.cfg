SPECIFICATION GSpec
CONSTANTS
  MaxSeq = 6
  MaxCrash = 3
  Guard = TRUE
  Tiny = FALSE
  Queued = FALSE
  GenLen = 12
CHECK_DEADLOCK FALSE
