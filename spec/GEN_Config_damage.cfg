SPECIFICATION GSpec
CONSTANTS
  MaxDiff = 0
  BaseNames = {"default", "edge", "top"}
  PolSet = {FALSE}
  Acts = {}
  Mode = "damage"
  GenLen = 0
INVARIANT Inv
CHECK_DEADLOCK FALSE
