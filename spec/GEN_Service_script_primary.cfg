SPECIFICATION GSpec
CONSTANTS
  KeyArgs <- AllKeyArgs
  ValArgs = {"v1", "v2", "v3", "VEMPTY", "VMAX", "VOVER"}
  SpecialVals = {}
  MaxTx = 4
  Role = "primary"
  MaxKeyLen = 4096
  MaxValLen = 10485760
  MaxBatch = 1000
  GenLen = 0
  Flavour = "script"
CHECK_DEADLOCK FALSE
