----------------------------- MODULE KevoConfig -----------------------------
(***************************************************************************)
(* C20 - the configuration of a kevo database is validated and persists    *)
(* with the database (pkg/config/config.go, manifest.go; the load-or-create*)
(* step of engine.NewEngineFacade).                                        *)
(*                                                                         *)
(* A configuration is a record that gives, for every field of              *)
(* config.Config, the BOUNDARY CLASS of its value (the harness turns a     *)
(* class into real values: several per class).  The constraints are those  *)
(* config.Validate documents in its error messages ("must be positive",    *)
(* "must be greater than 1.0", "between 1 and 99", "between warning        *)
(* threshold and 99"); docs/config.md and docs/CONFIG_GUIDE.md add no hard *)
(* constraint (their "Range" column is a recommendation).                  *)
(*                                                                         *)
(* The MANIFEST life-cycle: disk is absent, stored(c), torn(class of the   *)
(* truncation point) or garbage(class); Save = validate, write MANIFEST.tmp,*)
(* rename; Load = read, parse, validate; Open = load, or create the default*)
(* configuration if (and only if) there is no MANIFEST; the environment    *)
(* may truncate the file, replace it by garbage or edit it while the       *)
(* database is closed.                                                     *)
(***************************************************************************)
EXTENDS Integers, Sequences, FiniteSets, TLC

CONSTANTS MaxDiff,     \* a candidate differs from a base configuration in at most MaxDiff fields
          BaseNames,   \* which base configurations: subset of {"default", "edge", "top"}
          PolSet,      \* what Validate may say about a +Inf ratio (see RatioOK below): subset of BOOLEAN
          Acts         \* the calls / environment steps of this model: subset of AllActs ("choose": the client may switch
                       \* to another base configuration in the middle of a behaviour)
AllActs == {"choose", "validate", "save", "load", "open", "put", "close", "truncate", "garbage", "tamper"}

\* -------------------------------------------------------------------------------- fields and classes
IntC  == {"neg", "zero", "min", "typ", "big"}     \* -1 (or less), 0, 1, the default value, huge
VerC  == {"neg", "zero", "min", "big"}            \* the format version: 1 is the current one and the minimum
FreeC == {"neg", "zero", "typ", "big"}            \* fields Validate does not constrain
DirC  == {"empty", "dflt", "custom"}
\* the float: -Inf, a finite value <= 1.0, the smallest values > 1.0, the default 10, huge finite, NaN, +Inf
RatioC == {"ninf", "le1", "min", "typ", "big", "nan", "pinf"}
WarnC == {"neg", "zero", "one", "typ", "n98", "n99", "n100", "big"}
\* the critical threshold is described RELATIVE to the warning threshold: below it, equal, one above, 90, 99, 100, huge
CritC == {"ltw", "eqw", "gtw", "typ", "n99", "n100", "big"}

Classes == [
  Version |-> VerC, WALDir |-> DirC, WALSyncMode |-> {"none", "batch", "imm"}, WALSyncBytes |-> FreeC, WALMaxSize |-> FreeC,
  MemTableSize |-> IntC, MaxMemTables |-> IntC, MaxMemTableAge |-> FreeC, MemTablePoolCap |-> FreeC,
  SSTDir |-> DirC, SSTableBlockSize |-> IntC, SSTableIndexSize |-> IntC, SSTableMaxSize |-> FreeC, SSTableRestartSize |-> FreeC,
  CompactionLevels |-> IntC, CompactionRatio |-> RatioC, CompactionThreads |-> FreeC, CompactionInterval |-> FreeC,
  MaxLevelWithTombstones |-> FreeC,
  ReadOnlyTxTTL |-> IntC, ReadWriteTxTTL |-> IntC, IdleTxTimeout |-> IntC, TxCleanupInterval |-> IntC,
  TxWarningThreshold |-> WarnC, TxCriticalThreshold |-> CritC ]
Fields == DOMAIN Classes

\* config.NewDefaultConfig(dir): every field in its "typ"/"dflt" class (the harness maps these classes to exactly the default values)
Default == [
  Version |-> "min", WALDir |-> "dflt", WALSyncMode |-> "imm", WALSyncBytes |-> "typ", WALMaxSize |-> "zero",
  MemTableSize |-> "typ", MaxMemTables |-> "typ", MaxMemTableAge |-> "typ", MemTablePoolCap |-> "typ",
  SSTDir |-> "dflt", SSTableBlockSize |-> "typ", SSTableIndexSize |-> "typ", SSTableMaxSize |-> "typ", SSTableRestartSize |-> "typ",
  CompactionLevels |-> "typ", CompactionRatio |-> "typ", CompactionThreads |-> "typ", CompactionInterval |-> "typ",
  MaxLevelWithTombstones |-> "typ",
  ReadOnlyTxTTL |-> "typ", ReadWriteTxTTL |-> "typ", IdleTxTimeout |-> "typ", TxCleanupInterval |-> "typ",
  TxWarningThreshold |-> "typ", TxCriticalThreshold |-> "typ" ]

\* two more valid base configurations: every constrained field ON its boundary resp. at the far end
Edge == [f \in Fields |->
           CASE Classes[f] \in {IntC, VerC} -> "min"
             [] Classes[f] = FreeC -> "zero"
             [] Classes[f] = DirC -> "custom"
             [] f = "WALSyncMode" -> "none"
             [] f = "CompactionRatio" -> "min"
             [] f = "TxWarningThreshold" -> "one"
             [] f = "TxCriticalThreshold" -> "gtw"]
Top  == [f \in Fields |->
           CASE Classes[f] \in {IntC, VerC} -> "big"
             [] Classes[f] = FreeC -> "big"
             [] Classes[f] = DirC -> "custom"
             [] f = "WALSyncMode" -> "batch"
             [] f = "CompactionRatio" -> "big"
             [] f = "TxWarningThreshold" -> "n98"
             [] f = "TxCriticalThreshold" -> "n99"]
Bases == {b \in {Default, Edge, Top} :
            \/ b = Default /\ "default" \in BaseNames
            \/ b = Edge /\ "edge" \in BaseNames
            \/ b = Top /\ "top" \in BaseNames}

\* every (field, class) pair; Near(B, n): the configurations that differ from one in B in at most n fields
FieldClass == UNION { {<<f, v>> : v \in Classes[f]} : f \in Fields }
RECURSIVE Near(_, _)
Near(B, n) == IF n = 0 THEN B
              ELSE {[d EXCEPT ![p[1]] = p[2]] : d \in Near(B, n - 1), p \in FieldClass}
Cands == Near(Bases, MaxDiff)

\* -------------------------------------------------------------------------------- the documented constraints
\* representative numbers of the classes (only their position relative to the bounds 0, 1, 99, 100 matters)
Num(cl) == CASE cl = "neg" -> -1 [] cl = "zero" -> 0 [] cl = "min" -> 1 [] cl = "one" -> 1 [] cl = "typ" -> 50
             [] cl = "n98" -> 98 [] cl = "n99" -> 99 [] cl = "n100" -> 100 [] cl = "big" -> 1000000
Warn(c) == IF c.TxWarningThreshold = "typ" THEN 75 ELSE Num(c.TxWarningThreshold)
Crit(c) == CASE c.TxCriticalThreshold = "ltw" -> Warn(c) - 1
             [] c.TxCriticalThreshold = "eqw" -> Warn(c)
             [] c.TxCriticalThreshold = "gtw" -> Warn(c) + 1
             [] c.TxCriticalThreshold = "typ" -> 90
             [] OTHER -> Num(c.TxCriticalThreshold)

PositiveFields == {f \in Fields : Classes[f] \in {IntC, VerC}}
\* "must be greater than 1.0": a real number above one.  NaN is not greater than anything; -Inf is below.  +Inf is
\* greater than 1.0 by the letter but is no size ratio: the specification leaves it to the implementation (acceptInf)
\* whether Validate accepts it - if it does, every other clause (stored, loaded back unchanged) applies to it.
RatioOK(c, acceptInf) == \/ c.CompactionRatio \in {"min", "typ", "big"}
                         \/ c.CompactionRatio = "pinf" /\ acceptInf

Constraints(c, acceptInf) ==
  /\ \A f \in PositiveFields : Num(c[f]) > 0
  /\ c.WALDir # "empty" /\ c.SSTDir # "empty"
  /\ RatioOK(c, acceptInf)
  /\ Warn(c) >= 1 /\ Warn(c) <= 99
  /\ Crit(c) > Warn(c) /\ Crit(c) <= 99

\* config.Validate transcribed: the chain of tests in source order; the result is the number of the first test
\* that fails (0 = nil error).  Pos works on the class NAMES as the code works on the values.
Pos(cl) == cl \in {"min", "typ", "big"}
ValidateChain(c, acceptInf) ==
  << Pos(c.Version), c.WALDir # "empty", c.SSTDir # "empty", Pos(c.MemTableSize), Pos(c.MaxMemTables),
     Pos(c.SSTableBlockSize), Pos(c.SSTableIndexSize), Pos(c.CompactionLevels), RatioOK(c, acceptInf),
     Pos(c.ReadOnlyTxTTL), Pos(c.ReadWriteTxTTL), Pos(c.IdleTxTimeout), Pos(c.TxCleanupInterval),
     ~(Warn(c) <= 0 \/ Warn(c) >= 100), ~(Crit(c) <= Warn(c) \/ Crit(c) >= 100) >>
ValidateAlg(c, acceptInf) ==
  LET ch == ValidateChain(c, acceptInf)
      bad == {i \in 1..Len(ch) : ~ch[i]}
  IN  IF bad = {} THEN 0 ELSE CHOOSE i \in bad : \A j \in bad : i <= j

\* can the configuration be written down in the MANIFEST's format at all (JSON has no NaN / Infinity)
Representable(c) == c.CompactionRatio \notin {"nan", "pinf", "ninf"}

\* -------------------------------------------------------------------------------- state
VARIABLES pol,      \* the implementation's choice for +Inf (fixed for a behaviour)
          cand,     \* the configuration object the client holds
          disk,     \* the MANIFEST file: [k: kind, c: configuration, cls: class of damage, by: who wrote it]
          tmp,      \* MANIFEST.tmp: [has: BOOLEAN, c]
          data,     \* the directory holds user data written through an open engine
          eng,      \* [up: BOOLEAN, c: the configuration the running engine uses]
          created,  \* ghost: the configuration the database was created with / last saved with by its owner
          pc,       \* "idle" or the position inside Save
          out       \* the observation made by the last completed call

vars == <<pol, cand, disk, tmp, data, eng, created, pc, out>>

TornC == {"empty", "instring", "innumber", "between"}      \* where a truncation cut the file (0 bytes ... len-1 bytes)
GarbC == {"nonjson", "null", "emptyobj", "entries", "wrongtype", "partial"}
Absent == [k |-> "absent", c |-> Default, cls |-> "-", by |-> "-"]
Stored(c, who) == [k |-> "stored", c |-> c, cls |-> "-", by |-> who]
Torn(cls) == [k |-> "torn", c |-> Default, cls |-> cls, by |-> "env"]
Garbage(cls) == [k |-> "garbage", c |-> Default, cls |-> cls, by |-> "env"]
NoTmp == [has |-> FALSE, c |-> Default]
Down == [up |-> FALSE, c |-> Default]
NoOut == [a |-> "none"]

Valid(c) == ValidateAlg(c, pol) = 0

\* the policy matters only if a +Inf ratio can occur in the behaviour
HasInf(c) == c.CompactionRatio = "pinf"
Init == /\ cand \in Cands
        /\ pol \in PolSet
        /\ HasInf(cand) \/ "choose" \in Acts \/ pol = (CHOOSE p \in PolSet : TRUE)
        /\ disk = Absent /\ tmp = NoTmp /\ data = FALSE /\ eng = Down /\ created = Default
        /\ pc = "idle" /\ out = NoOut

\* -------------------------------------------------------------------------------- client calls
Choose(c) == /\ pc = "idle" /\ c # cand
             /\ cand' = c /\ out' = NoOut
             /\ UNCHANGED <<pol, disk, tmp, data, eng, created, pc>>

\* c.Validate()
Validate == /\ pc = "idle"
            /\ out' = [a |-> "validate", ok |-> Valid(cand)]
            /\ UNCHANGED <<pol, cand, disk, tmp, data, eng, created, pc>>

\* c.SaveManifest(dir): validate first - a rejected configuration leaves no trace
SaveBegin == /\ pc = "idle" /\ ~eng.up
             /\ IF Valid(cand)
                  THEN pc' = "save.tmp" /\ out' = out
                  ELSE pc' = "idle" /\ out' = [a |-> "save", ok |-> FALSE]
             /\ UNCHANGED <<pol, cand, disk, tmp, data, eng, created>>
SaveTmp == /\ pc = "save.tmp"
           /\ tmp' = [has |-> TRUE, c |-> cand] /\ pc' = "save.rename"
           /\ UNCHANGED <<pol, cand, disk, data, eng, created, out>>
SaveRename == /\ pc = "save.rename"
              /\ disk' = Stored(tmp.c, "save") /\ tmp' = NoTmp /\ created' = tmp.c
              /\ pc' = "idle" /\ out' = [a |-> "save", ok |-> TRUE]
              /\ UNCHANGED <<pol, cand, data, eng>>

\* config.LoadConfigFromManifest(dir): read, parse, validate
LoadResult(d) == IF d.k = "stored" /\ Valid(d.c)
                   THEN [ok |-> TRUE, nf |-> FALSE, c |-> d.c]
                   ELSE [ok |-> FALSE, nf |-> d.k = "absent", c |-> Default]
Load == /\ pc = "idle"
        /\ out' = [a |-> "load"] @@ LoadResult(disk)
        /\ UNCHANGED <<pol, cand, disk, tmp, data, eng, created, pc>>

\* engine.NewEngineFacade(dir): load; only "there is no MANIFEST" leads to the default configuration, which is
\* then stored; every other failure to load makes opening fail and changes nothing on disk
OpenBody(name) ==
        /\ LET r == LoadResult(disk) IN
             IF r.ok
               THEN /\ eng' = [up |-> TRUE, c |-> r.c]
                    /\ out' = [a |-> name, ok |-> TRUE, c |-> r.c]
                    /\ UNCHANGED <<disk, created>>
             ELSE IF r.nf
               THEN /\ disk' = Stored(Default, "save") /\ created' = Default
                    /\ eng' = [up |-> TRUE, c |-> Default]
                    /\ out' = [a |-> name, ok |-> TRUE, c |-> Default]
             ELSE /\ out' = [a |-> name, ok |-> FALSE, c |-> Default]
                  /\ eng' = Down
                  /\ UNCHANGED <<disk, created>>
        /\ UNCHANGED <<pol, cand, tmp, data, pc>>
Open == pc = "idle" /\ ~eng.up /\ OpenBody("open")
\* Close followed by NewEngineFacade on the same directory
Reopen == pc = "idle" /\ eng.up /\ OpenBody("reopen")

Put == /\ pc = "idle" /\ eng.up
       /\ data' = TRUE /\ out' = [a |-> "put"]
       /\ UNCHANGED <<pol, cand, disk, tmp, eng, created, pc>>
Close == /\ pc = "idle" /\ eng.up
         /\ eng' = Down /\ out' = [a |-> "close"]
         /\ UNCHANGED <<pol, cand, disk, tmp, data, created, pc>>

\* -------------------------------------------------------------------------------- the environment (database closed)
\* the file is cut to n bytes: class "complete" (n = its length) changes nothing
Truncate(cls) == /\ pc = "idle" /\ ~eng.up /\ disk.k = "stored"
                 /\ disk' = IF cls = "complete" THEN disk ELSE Torn(cls)
                 /\ out' = [a |-> "truncate"]
                 /\ UNCHANGED <<pol, cand, tmp, data, eng, created, pc>>
Corrupt(cls) == /\ pc = "idle" /\ ~eng.up /\ disk.k # "absent"
                /\ disk' = Garbage(cls) /\ out' = [a |-> "garbage"]
                /\ UNCHANGED <<pol, cand, tmp, data, eng, created, pc>>
\* somebody edits the stored configuration by hand: well-formed file, any field values (also invalid ones)
Tamper(c) == /\ pc = "idle" /\ ~eng.up /\ Representable(c)
             /\ disk' = Stored(c, "env") /\ out' = [a |-> "tamper"]
             /\ UNCHANGED <<pol, cand, tmp, data, eng, created, pc>>

Next == \/ "choose" \in Acts /\ \E c \in Bases : Choose(c)
        \/ "validate" \in Acts /\ Validate
        \/ "save" \in Acts /\ (SaveBegin \/ SaveTmp \/ SaveRename)
        \/ "load" \in Acts /\ Load
        \/ "open" \in Acts /\ (Open \/ Reopen)
        \/ "put" \in Acts /\ Put
        \/ "close" \in Acts /\ Close
        \/ "truncate" \in Acts /\ \E cls \in TornC \cup {"complete"} : Truncate(cls)
        \/ "garbage" \in Acts /\ \E cls \in GarbC : Corrupt(cls)
        \/ "tamper" \in Acts /\ (Tamper(cand) \/ Tamper(Default))
Spec == Init /\ [][Next]_vars

\* -------------------------------------------------------------------------------- properties (C20)
TypeOK == /\ pol \in BOOLEAN /\ cand \in Cands /\ data \in BOOLEAN
          /\ disk.k \in {"absent", "stored", "torn", "garbage"}
          /\ pc \in {"idle", "save.tmp", "save.rename"}

\* Validate accepts exactly the configurations that meet every documented constraint
ValidIffConstraints ==
  /\ \A c \in {cand, disk.c, tmp.c, eng.c} : Valid(c) <=> Constraints(c, pol)
  /\ out.a = "validate" => (out.ok <=> Constraints(cand, pol))

\* every configuration that passes validation is stored, and what is stored loads back unchanged
SaveLoadIdentity ==
  /\ out.a = "save" => (out.ok <=> Constraints(cand, pol))
  /\ out.a = "save" /\ out.ok => /\ disk = Stored(cand, "save")
                                 /\ LoadResult(disk).ok /\ LoadResult(disk).c = cand
  /\ out.a = "load" /\ out.ok => disk.k = "stored" /\ out.c = disk.c

\* a configuration that violates a constraint is rejected before anything is written
InvalidNeverWritten ==
  /\ tmp.has => Constraints(tmp.c, pol)
  /\ disk.k = "stored" /\ disk.by = "save" => Constraints(disk.c, pol)
RejectedSaveWritesNothing ==
  [][(out'.a = "save" /\ ~out'.ok /\ out' # out) => (disk' = disk /\ tmp' = tmp)]_vars

\* an unreadable or invalid stored configuration makes opening fail - no fall-back to the defaults;
\* the defaults are used only where there is no MANIFEST, and then there is no data either
BadManifestFailsOpen ==
  [][(eng'.up /\ out'.a \in {"open", "reopen"} /\ out' # out) =>
        \/ disk.k = "absent" /\ ~data /\ eng'.c = Default /\ disk' = Stored(Default, "save")
        \/ disk.k = "stored" /\ Constraints(disk.c, pol) /\ eng'.c = disk.c /\ disk' = disk]_vars
FailedOpenChangesNothing ==
  [][(out'.a \in {"open", "reopen"} /\ ~out'.ok /\ out' # out) => (disk' = disk /\ ~eng'.up /\ data' = data)]_vars
NoDataWithoutManifest == data => disk.k # "absent"

\* a running engine uses the stored configuration: the one the database was created / last saved with
ReopenUsesStored ==
  eng.up => /\ disk.k = "stored" /\ eng.c = disk.c
            /\ disk.by = "save" => eng.c = created

Inv == TypeOK /\ ValidIffConstraints /\ SaveLoadIdentity /\ InvalidNeverWritten /\ NoDataWithoutManifest /\ ReopenUsesStored
=============================================================================
