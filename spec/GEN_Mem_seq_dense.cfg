SPECIFICATION GSpec
CONSTANTS
  DataKeys = {4}
  Targets = {3, 4, 5}
  SeqNums = {0, 1, 2, 3, 4, 5, 6}
  Payloads = {"v1", "v2", "v3", "TOMB"}
  MaxIns = 10
  MaxH = 3
  Readers = {1, 2, 3}
  RStartMin = 0
  ROps = {"find", "seek", "first"}
  ImmMidInsert = TRUE
  PublishFirst = FALSE
  TopDown = FALSE
  Reload = "keep"
  GenLen = 24
  Mode = "seq"
CHECK_DEADLOCK FALSE
