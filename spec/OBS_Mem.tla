------------------------------ MODULE OBS_Mem ------------------------------
(* EXTRA (free-running stress, C18): observations recorded from lock-free iterators running against a live writer
   are judged with KevoMem's own predicate ObsOK.  stress.ndjson holds ONE object:
     ents: the inserts in issue order [k, s];  obs: [r, t, lo, hi, seen] - seen = insert indexes in the order yielded,
     lo = inserts that had returned when the call started, hi = inserts that had begun when the iteration ended.
   Iterators are created on the empty table, so nothing is hidden by a snapshot (snap = 0). *)
EXTENDS KevoMem, Json

Data == ndJsonDeserialize("stress.ndjson")[1]
OInit == /\ ent = [i \in 1..Len(Data.ents) |-> [k |-> Data.ents[i].k, s |-> Data.ents[i].s, v |-> "v1"]]
         /\ hgt = <<>> /\ nxt = [x \in 0..MaxIns |-> [l \in Levels |-> Nil]] /\ maxH = 1 /\ imm = FALSE /\ nextSeq = 0
         /\ wpc = "idle" /\ wlvl = 0 /\ preds = [l \in Levels |-> HeadN] /\ succs = [l \in Levels |-> Nil]
         /\ done = {} /\ frozen = NoFrozen /\ rd = [r \in Readers |-> Q0]
OSpec == OInit /\ [][UNCHANGED vars]_vars
OneOK(o) == /\ \A i \in DOMAIN o.seen : o.seen[i] \in 1..o.hi                 \* nothing that had not even begun
            /\ ObsOK(o.seen, o.t, 0, 1..o.lo, TRUE)
StressOK == \A j \in DOMAIN Data.obs : OneOK(Data.obs[j])
=============================================================================
