SPECIFICATION GSpec
CONSTANTS
  KeyArgs <- AllKeyArgs
  ValArgs = {"v1", "v2", "v3"}
  SpecialVals = {}
  MaxTx = 7
  Role = "standalone"
  MaxKeyLen = 4096
  MaxValLen = 10485760
  MaxBatch = 1000
  GenLen = 24
  Flavour = "c16"
CHECK_DEADLOCK FALSE
