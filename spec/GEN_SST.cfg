SPECIFICATION GSpec
CONSTANTS
  MaxBlocks = 34
  MaxLen = 300
  RIs = {16}
  Seeds = {0}
  Covered = {"data", "restart", "index", "footer"}
  Cors = {}
  GenLen = 24
INVARIANT Inv
CHECK_DEADLOCK FALSE
