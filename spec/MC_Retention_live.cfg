SPECIFICATION Spec
CONSTANTS
  MaxSeq = 5
  MaxCrash = 2
  Guard = TRUE
  Tiny = FALSE
  Queued = FALSE
INVARIANTS NothingEverDeleted
CHECK_DEADLOCK FALSE
CONSTRAINT Bound
