------------------------------- MODULE KevoConc -------------------------------
(***************************************************************************)
(* C07 (hang part): the lock protocol of kevo's public entry points.  Each *)
(* entry point is the sequence of lock acquisitions and releases its code  *)
(* performs (storage.Manager.mu RW, flushMu, MemTablePool.mu RW, the WAL   *)
(* mutex, the active memtable's RW lock, the transaction lock txLock RW,   *)
(* the per-transaction mutex, the compactor's mutex).  Locks follow Go's   *)
(* sync.RWMutex: a pending writer blocks NEW readers.  TLC checks that no  *)
(* interleaving of concurrent calls (plus the background flush and         *)
(* compaction workers, which are just more callers of the same entry       *)
(* points) deadlocks and that, under weak fairness, every call returns.    *)
(* The data-race half of C07 is decided by Go's race detector compiled     *)
(* into the replay harness, with this module supplying the call mixes.     *)
(***************************************************************************)
EXTENDS Integers, Sequences, FiniteSets, TLC

CONSTANTS Procs,        \* concurrent callers
          MaxCalls      \* calls per caller

Locks == {"tx", "txmu", "flush", "mu", "wal", "pool", "mt", "comp"}
A(lk, m) == <<"A", lk, m>>           \* m: "W" exclusive / "R" shared
Rl(lk) == <<"R", lk, "-">>

WritePath == <<A("mu", "W"), A("wal", "W"), Rl("wal"), A("pool", "R"), A("mt", "W"), Rl("mt"), Rl("pool")>>
SwitchPart == <<A("pool", "W"), Rl("pool")>>
ReadPath == <<A("mu", "R"), A("pool", "R"), A("mt", "R"), Rl("mt"), Rl("pool"), Rl("mu")>>
Rotate == <<A("wal", "W"), Rl("wal"), A("wal", "W"), Rl("wal"), A("wal", "W"), Rl("wal"), A("wal", "W"), Rl("wal")>>
FlushCall == <<A("flush", "W"), A("mu", "R"), Rl("mu")>> \o Rotate \o <<A("mt", "R"), Rl("mt"), A("mu", "W"), Rl("mu"), A("mu", "W"), Rl("mu"), Rl("flush")>>

Calls == [
  put      |-> WritePath \o <<Rl("mu")>>,
  putfull  |-> WritePath \o SwitchPart \o <<Rl("mu")>>,                    \* the write that fills the memtable also switches it
  get      |-> ReadPath,
  scan     |-> <<A("mu", "R"), A("pool", "R"), Rl("pool"), Rl("mu"), A("mt", "R"), Rl("mt")>>,
  stats    |-> <<A("mu", "R"), A("pool", "R"), Rl("pool"), Rl("mu")>>,
  flush    |-> FlushCall,
  compact  |-> <<A("comp", "W"), Rl("comp")>>,
  tombtrack |-> <<>>,
  txro     |-> <<A("tx", "R"), A("txmu", "W")>> \o ReadPath \o <<Rl("txmu"), A("txmu", "W"), Rl("tx"), Rl("txmu")>>,
  txrw     |-> <<A("tx", "W"), A("txmu", "W")>> \o ReadPath \o <<Rl("txmu"), A("txmu", "W")>> \o WritePath \o <<Rl("mu"), Rl("tx"), Rl("txmu")>>
]
CallNames == DOMAIN Calls

VARIABLES pc,      \* per caller: <<call name, next step index>> or <<"idle", 0>>
          held,    \* lock -> set of <<proc, mode>> holders
          wait,    \* lock -> set of procs blocked asking for it exclusively (pending writers)
          ncalls
vars == <<pc, held, wait, ncalls>>

Init == /\ pc = [p \in Procs |-> <<"idle", 0>>]
        /\ held = [lk \in Locks |-> {}] /\ wait = [lk \in Locks |-> {}]
        /\ ncalls = [p \in Procs |-> 0]

\* txmu is per transaction = per caller: callers never contend for it
Shared(lk) == lk # "txmu"

Start(p, c) == /\ pc[p][1] = "idle" /\ ncalls[p] < MaxCalls
               /\ pc' = [pc EXCEPT ![p] = IF Calls[c] = <<>> THEN <<"idle", 0>> ELSE <<c, 1>>]
               /\ ncalls' = [ncalls EXCEPT ![p] = @ + 1]
               /\ UNCHANGED <<held, wait>>

CanTake(p, lk, m) == IF ~Shared(lk) THEN TRUE
                     ELSE IF m = "W" THEN held[lk] = {}
                     ELSE (\A h \in held[lk] : h[2] = "R") /\ wait[lk] \ {p} = {}      \* pending writers go first

Step(p) ==
  /\ pc[p][1] # "idle"
  /\ LET c == pc[p][1]
         i == pc[p][2]
         op == Calls[c][i]
         nxt == IF i = Len(Calls[c]) THEN <<"idle", 0>> ELSE <<c, i + 1>>
     IN IF op[1] = "A"
        THEN IF CanTake(p, op[2], op[3])
             THEN /\ held' = [held EXCEPT ![op[2]] = @ \cup {<<p, op[3]>>}]
                  /\ wait' = [wait EXCEPT ![op[2]] = @ \ {p}]
                  /\ pc' = [pc EXCEPT ![p] = nxt]
             ELSE /\ op[3] = "W" /\ p \notin wait[op[2]]          \* announce the pending writer, keep waiting
                  /\ wait' = [wait EXCEPT ![op[2]] = @ \cup {p}]
                  /\ UNCHANGED <<held, pc>>
        ELSE /\ held' = [held EXCEPT ![op[2]] = {h \in @ : h[1] # p}]
             /\ pc' = [pc EXCEPT ![p] = nxt]
             /\ UNCHANGED wait
  /\ UNCHANGED ncalls

Next == \E p \in Procs : Step(p) \/ \E c \in CallNames : Start(p, c)
Spec == Init /\ [][Next]_vars /\ \A p \in Procs : WF_vars(Step(p))

\* no caller is stuck: whenever some call is in flight, some step is possible (TLC's deadlock check covers the all-idle end state
\* through Done below); every call eventually returns
NoStuck == (\E p \in Procs : pc[p][1] # "idle") => \E p \in Procs : ENABLED Step(p)
EveryCallReturns == \A p \in Procs : (pc[p][1] # "idle") ~> (pc[p][1] = "idle")
ExclusiveIsExclusive == \A lk \in Locks : Shared(lk) => \A h1, h2 \in held[lk] : h1 # h2 => h1[2] = "R" /\ h2[2] = "R"
=============================================================================
