SPECIFICATION PrimaryOnlySpec
CONSTANTS
  Replicas = {"r1"}
  MaxLog = 2
  MaxBatch = 2
  Chunk = 2
  MaxNet = 2
  MaxQ = 1
  MaxFaults = 0
  MaxDown = 1
  MaxRot = 0
  MaxStall = 1
  RotateFollows = TRUE
  WholeBatches = TRUE
  PollRereads = TRUE
INVARIANTS AppliedIsPrefix NoSplitBatch PWriteNeverWaits
PROPERTIES PWriteReturns StalledIsDropped StalledStaysOut
CHECK_DEADLOCK FALSE
