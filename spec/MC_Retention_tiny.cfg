SPECIFICATION Spec
CONSTANTS
  MaxSeq = 5
  MaxCrash = 2
  Guard = TRUE
  Tiny = TRUE
  Queued = FALSE
INVARIANTS ReadableWhileUp Recoverable NextAbove GuardSound
CHECK_DEADLOCK FALSE
CONSTRAINT Bound
