SPECIFICATION TSpec
CONSTRAINT HighWater
POSTCONDITION Accepted
CHECK_DEADLOCK FALSE
