SPECIFICATION TSpec
CONSTANTS
  DKeys = {"k1", "k2", "k3"}
  DVals = {"v1", "v2", "v3"}
  DSync = "none"
  DMaxOps = 100
  DMaxBatch = 3
  KF_TornBatch = TRUE
CONSTRAINT HighWater
POSTCONDITION Accepted
CHECK_DEADLOCK FALSE
