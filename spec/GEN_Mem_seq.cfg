SPECIFICATION GSpec
CONSTANTS
  DataKeys = {2, 4, 6}
  Targets = {1, 2, 3, 4, 5, 6, 7}
  SeqNums = {0, 1, 2, 3, 4}
  Payloads = {"v1", "v2", "v3", "TOMB"}
  MaxIns = 8
  MaxH = 3
  Readers = {1, 2, 3}
  RStartMin = 0
  ROps = {"find", "seek", "first"}
  ImmMidInsert = TRUE
  PublishFirst = FALSE
  TopDown = FALSE
  Reload = "keep"
  GenLen = 24
  Mode = "seq"
CHECK_DEADLOCK FALSE
