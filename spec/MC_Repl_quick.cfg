SPECIFICATION Spec
CONSTANTS
  Replicas = {"r1"}
  MaxLog = 3
  MaxBatch = 2
  Chunk = 1
  MaxNet = 2
  MaxQ = 3
  MaxFaults = 1
  MaxDown = 1
  MaxRot = 1
  MaxStall = 1
  RotateFollows = TRUE
  WholeBatches = TRUE
  PollRereads = TRUE
INVARIANTS TypeOK AppliedIsPrefix NoSplitBatch ExpectedFollowsApplied ReportedLeApplied AckLeApplied PWriteNeverWaits
PROPERTIES ReportedMonotone AppliedOnlyGrows StalledStaysOut
CHECK_DEADLOCK FALSE
