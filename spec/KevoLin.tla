------------------------------- MODULE KevoLin -------------------------------
(***************************************************************************)
(* C06: concurrent gets, puts and deletes on the engine are linearisable.  *)
(* The specification is the sequential key-value map; a recorded history   *)
(* (invocation logged before the call, response after it, through one      *)
(* appender - so recorded intervals contain the true ones) is accepted iff *)
(* TLC can place one silent linearisation step Lin(c) between each         *)
(* invocation and its response such that every response is what the map    *)
(* returns there.  A write that reports an error linearises as a no-op     *)
(* (it must have taken no effect); one that reports success takes effect   *)
(* exactly once.  The history ends with the state observed after           *)
(* quiescence and after a reopen: it must be the state the linearisation   *)
(* produced (an errored write that resurfaces at recovery is caught here). *)
(***************************************************************************)
EXTENDS Integers, Sequences, FiniteSets, Json, TLC

CONSTANTS Clients, Keys

VARIABLES l, kv, pend
Trace == ndJsonDeserialize("trace.ndjson")
vars == <<l, kv, pend>>
Idle == [st |-> "idle", op |-> "-", k |-> "-", v |-> "-", res |-> "-"]
Ev(e) == l <= Len(Trace) /\ Trace[l].e = e /\ l' = l + 1
C == Trace[l].c

Init == TLCSet(1, 0) /\ l = 1 /\ kv = [k \in Keys |-> "NONE"] /\ pend = [c \in Clients |-> Idle]

Reset == Ev("reset") /\ kv' = [k \in Keys |-> "NONE"] /\ pend' = [c \in Clients |-> Idle]

Invoke == /\ Ev("inv") /\ pend[C].st = "idle"
          /\ pend' = [pend EXCEPT ![C] = [st |-> "inv", op |-> Trace[l].op, k |-> Trace[l].k, v |-> Trace[l].v, res |-> "-"]]
          /\ UNCHANGED kv

\* the silent linearisation point of client c's pending operation; a write may fail, in which case it has no effect
Lin(c, works) ==
  /\ pend[c].st = "inv"
  /\ \/ /\ pend[c].op = "get" /\ works
        /\ pend' = [pend EXCEPT ![c].st = "lin", ![c].res = kv[pend[c].k]] /\ UNCHANGED kv
     \/ /\ pend[c].op = "put"
        /\ kv' = IF works THEN [kv EXCEPT ![pend[c].k] = pend[c].v] ELSE kv
        /\ pend' = [pend EXCEPT ![c].st = "lin", ![c].res = IF works THEN "ok" ELSE "err"]
     \/ /\ pend[c].op = "del"
        /\ kv' = IF works THEN [kv EXCEPT ![pend[c].k] = "NONE"] ELSE kv
        /\ pend' = [pend EXCEPT ![c].st = "lin", ![c].res = IF works THEN "ok" ELSE "err"]
  /\ UNCHANGED l

Return == /\ Ev("ret") /\ pend[C].st = "lin" /\ pend[C].res = Trace[l].res
          /\ pend' = [pend EXCEPT ![C] = Idle] /\ UNCHANGED kv

\* state observed when nothing is in flight (after quiescence, and again after close + reopen)
Final == /\ Ev("final") /\ \A c \in Clients : pend[c].st = "idle"
         /\ \A k \in Keys : Trace[l].st[k] = kv[k]
         /\ UNCHANGED <<kv, pend>>

Next == Reset \/ Invoke \/ Return \/ Final \/ \E c \in Clients, w \in BOOLEAN : Lin(c, w)
Spec == Init /\ [][Next]_vars
\* listed as an INVARIANT: its violation = the whole history has been explained (lets the depth-first search stop there)
NotDone == l <= Len(Trace)
HighWater == IF l > TLCGet(1) THEN TLCSet(1, l) ELSE TRUE
Accepted == PrintT(<<"HIGHWATER", TLCGet(1)>>) /\ TLCGet(1) = Len(Trace) + 1
=============================================================================
