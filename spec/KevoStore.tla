------------------------------ MODULE KevoStore ------------------------------
(***************************************************************************)
(* The storage engine of kevo (pkg/engine/storage.Manager + pkg/wal +      *)
(* pkg/memtable pool + SSTable directory + pkg/compaction) as a state      *)
(* machine at the grain of the implementation's critical sections.         *)
(*                                                                         *)
(* One client issues writes (single put/delete or a transactional batch);  *)
(* the flush path (FlushMemTables: rotate the log, write tables, publish)  *)
(* and the compactor run concurrently with it; the process may die between *)
(* any two steps and is then recovered from what reached the OS.           *)
(*                                                                         *)
(* Properties stated here: C01 ReadLatest / DirView (maintenance is        *)
(* invisible), C02 DiskIsPrefix + recovery, C03 NoPartialBatch (crash      *)
(* form), C08 sequence numbers, C12 compaction preserves the view.         *)
(***************************************************************************)
EXTENDS Integers, Sequences, FiniteSets, TLC

CONSTANTS Keys,        \* set of key tokens (strings)
          Vals,        \* set of value tokens (strings)
          SyncMode,    \* "imm": every write is flushed+synced before it is acknowledged; "none": only at spill/close/rotation
          MaxOps,      \* bound on issued write operations
          MaxBatch,    \* largest batch (entries)
          MaxImm,      \* bound on unflushed immutable tables
          MaxFiles,    \* bound on table files ever created
          MaxCrash,    \* bound on Die steps
          MaxLevel     \* deepest level used by the compactor

\* the key tokens in ascending byte order (TLC cannot compare strings; tokens are named k1..k6 by convention)
KeySeq == SelectSeq(<<"k1", "k2", "k3", "k4", "k5", "k6">>, LAMBDA k : k \in Keys)
Tomb == "TOMB"          \* deletion marker / "never written" in abstract maps
None == "NONE"          \* what a read reports for a deleted or absent key
NoEnt == [v |-> "NOENT", s |-> 0]

VARIABLES
  logs,      \* Seq of [ops: Seq([b, s]), os, st]: b = index in `issued`, s = sequence number; ops[1..os] reached the OS
  live,      \* index of the log object the write path uses (Manager.wal)
  next,      \* next sequence number of the live log object
  act,       \* active memtable: Seq of [k, v, s] in insertion order
  imms,      \* immutable tables waiting for flush, oldest first
  ret,       \* flushed tables the pool still holds (kevo never drops them; harmless while order is kept)
  ssts,      \* table ids the read path consults, oldest first (Manager.sstables; may name unlinked files it still has open)
  dir,       \* table files: id -> [lvl, num, run, del]; run: key -> [v, s] or NoEnt; del = unlinked by the compactor
  nfile,     \* next table id
  lastSeq,   \* Manager.lastSeqNum (statistics / replication "last sequence")
  up,        \* process alive and engine open
  wpc,       \* client write path: "idle" | "logged"
  fpc,       \* flush path: "idle" | "marked" | "oldsafe" | "tables" | "renamed"
  fq,        \* tables the running flush still has to write
  fact,      \* TRUE when the running flush writes the active table in place
  fn,        \* how many immutable tables the running flush took (its snapshot of the list)
  retired,   \* ghost: number of operations whose log file has been retired
  issued,    \* ghost: write operations in issue order; an op is a Seq of [k, v]
  hist,      \* ghost: hist[n+1] = abstract map after the first n operations
  crashes

vars == <<logs, live, next, act, imms, ret, ssts, dir, nfile, lastSeq, up, wpc, fpc, fq, fact, fn,
          retired, issued, hist, crashes>>

-----------------------------------------------------------------------------
Max(S) == CHOOSE x \in S : \A y \in S : y <= x
Min(S) == CHOOSE x \in S : \A y \in S : y >= x
Last(s) == s[Len(s)]
Rev(s) == [i \in 1..Len(s) |-> s[Len(s) + 1 - i]]
RECURSIVE Flat(_)
Flat(ss) == IF ss = <<>> THEN <<>> ELSE Head(ss) \o Flat(Tail(ss))

Entry == [k : Keys, v : Vals \cup {Tomb}]
Ops == UNION {[1..n -> Entry] : n \in 1..MaxBatch}
EmptyMap == [k \in Keys |-> Tomb]

\* abstract effect of one operation: inside a batch the last entry of a key wins
ApplyOp(m, op) == [k \in Keys |->
                     LET idx == {i \in 1..Len(op) : op[i].k = k}
                     IN IF idx = {} THEN m[k] ELSE op[Max(idx)].v]

Acked == IF wpc = "logged" THEN Len(issued) - 1 ELSE Len(issued)
Abs == hist[Acked + 1]                \* what a reader must see now
Norm(v) == IF v = Tomb \/ v = "NOENT" THEN None ELSE v

\* ---- memtables: highest sequence wins, ties resolved by latest insertion (SkipList.Insert/Find)
Has(t, k) == \E i \in 1..Len(t) : t[i].k = k
MemBest(t, k) == LET idx == {i \in 1..Len(t) : t[i].k = k}
                 IN CHOOSE i \in idx : \A j \in idx : t[j].s < t[i].s \/ (t[j].s = t[i].s /\ j <= i)
MemGet(t, k) == t[MemBest(t, k)]
RunOf(t) == [k \in Keys |-> IF Has(t, k) THEN [v |-> MemGet(t, k).v, s |-> MemGet(t, k).s] ELSE NoEnt]

\* ---- layered lookup: active, immutables new->old, retained new->old, then tables new->old
MemLayers == <<act>> \o Rev(imms) \o Rev(ret)
RECURSIVE FirstMem(_, _)
FirstMem(ls, k) == IF ls = <<>> THEN "MISS"
                   ELSE IF Has(Head(ls), k) THEN MemGet(Head(ls), k).v ELSE FirstMem(Tail(ls), k)
RECURSIVE FirstRun(_, _)
FirstRun(ids, k) == IF ids = <<>> THEN "NOENT"
                    ELSE IF dir[Head(ids)].run[k] # NoEnt THEN dir[Head(ids)].run[k].v ELSE FirstRun(Tail(ids), k)
LookupWith(ids, k) == LET m == FirstMem(MemLayers, k) IN IF m # "MISS" THEN m ELSE FirstRun(Rev(ids), k)
Lookup(k) == LookupWith(ssts, k)

\* ---- recency of table files as the design defines it: deeper level = older; inside one level the
\* ---- higher file number is newer (files of one deeper level never overlap, so there it is irrelevant)
Files == {f \in DOMAIN dir : ~dir[f].del}
Older(a, b) == \/ dir[a].lvl > dir[b].lvl
               \/ dir[a].lvl = dir[b].lvl /\ dir[a].num < dir[b].num
RECURSIVE SortIds(_)
SortIds(S) == IF S = {} THEN <<>>
              ELSE LET o == CHOOSE a \in S : \A b \in S \ {a} : Older(a, b) IN <<o>> \o SortIds(S \ {o})
DirOrder == SortIds(Files)        \* oldest first: what Manager.loadSSTables must produce

\* ---- log contents
LogRecs(l) == Flat([i \in 1..Len(l.ops) |->
                     [j \in 1..Len(issued[l.ops[i].b]) |->
                        [k |-> issued[l.ops[i].b][j].k, v |-> issued[l.ops[i].b][j].v, s |-> l.ops[i].s]]])
AllOps == Flat([i \in 1..Len(logs) |-> logs[i].ops])
DiskOps == Flat([i \in 1..Len(logs) |-> SubSeq(logs[i].ops, 1, logs[i].os)])
MaxSeqIn(os) == IF os = <<>> THEN 0 ELSE Max({os[i].s : i \in 1..Len(os)})
DirMaxSeq == Max({0} \cup {dir[f].run[k].s : f \in Files, k \in Keys})

-----------------------------------------------------------------------------
Init == /\ logs = <<[ops |-> <<>>, os |-> 0, st |-> "active"]>>
        /\ live = 1 /\ next = 1
        /\ act = <<>> /\ imms = <<>> /\ ret = <<>> /\ ssts = <<>>
        /\ dir = <<>> /\ nfile = 1
        /\ lastSeq = 0 /\ up = TRUE
        /\ wpc = "idle" /\ fpc = "idle" /\ fq = <<>> /\ fact = FALSE /\ fn = 0
        /\ retired = 0 /\ issued = <<>> /\ hist = <<EmptyMap>> /\ crashes = 0

-----------------------------------------------------------------------------
(* Write path: Manager.Put / Delete / ApplyBatch hold Manager.mu for both steps. *)

\* wal.Append / AppendBatch: the whole operation enters the log buffer under ONE sequence number
\* (a batch is one buffered write); with synchronous logging it is flushed and synced before return.
WLog(op) ==
  /\ up /\ wpc = "idle" /\ Len(issued) < MaxOps
  /\ logs[live].st = "active"
  /\ logs' = [logs EXCEPT ![live].ops = Append(@, [b |-> Len(issued) + 1, s |-> next]),
                          ![live].os = IF SyncMode = "imm" THEN Len(logs[live].ops) + 1 ELSE @]
  /\ next' = next + 1
  /\ issued' = Append(issued, op)
  /\ hist' = Append(hist, ApplyOp(Last(hist), op))
  /\ wpc' = "logged"
  /\ UNCHANGED <<live, act, imms, ret, ssts, dir, nfile, lastSeq, up, fpc, fq, fact, fn, retired, crashes>>

\* memtable insert of every entry with the operation's number, then acknowledgement
WDone ==
  /\ up /\ wpc = "logged"
  /\ LET op == Last(issued)
         s == next - 1
     IN /\ act' = act \o [j \in 1..Len(op) |-> [k |-> op[j].k, v |-> op[j].v, s |-> s]]
        /\ lastSeq' = s
  /\ wpc' = "idle"
  /\ UNCHANGED <<logs, live, next, imms, ret, ssts, dir, nfile, up, fpc, fq, fact, fn, retired, issued, hist, crashes>>

\* Manager.scheduleFlush -> MemTablePool.SwitchToNewMemTable (inside the writer's critical section)
Switch ==
  /\ up /\ wpc = "idle" /\ act # <<>> /\ Len(imms) < MaxImm
  /\ imms' = Append(imms, act) /\ act' = <<>>
  /\ UNCHANGED <<logs, live, next, ret, ssts, dir, nfile, lastSeq, up, wpc, fpc, fq, fact, fn, retired, issued, hist, crashes>>

\* the bufio buffer spills (or SyncBatch reaches its threshold): more operations reach the OS, in order
Spill ==
  /\ up /\ SyncMode # "imm"
  /\ \E n \in (logs[live].os + 1)..Len(logs[live].ops) :
        logs' = [logs EXCEPT ![live].os = n]
  /\ UNCHANGED <<live, next, act, imms, ret, ssts, dir, nfile, lastSeq, up, wpc, fpc, fq, fact, fn, retired, issued, hist, crashes>>

-----------------------------------------------------------------------------
(* Flush path: Manager.FlushMemTables under flushMu (explicit call or background goroutine). *)

\* snapshot of the work + SetRotating on the live log (writers now get "rotating" and retry)
FBegin ==
  /\ up /\ fpc = "idle"
  /\ \/ imms # <<>> /\ fq' = imms /\ fact' = FALSE /\ fn' = Len(imms)
     \/ imms = <<>> /\ act # <<>> /\ fq' = <<act>> /\ fact' = TRUE /\ fn' = 0   \* FlushActiveInPlace
  /\ logs' = [logs EXCEPT ![live].st = "rotating"]
  /\ fpc' = "marked"
  /\ UNCHANGED <<live, next, act, imms, ret, ssts, dir, nfile, lastSeq, up, wpc, retired, issued, hist, crashes>>

\* everything buffered in the old log object reaches the OS BEFORE writers can reach the new one:
\* otherwise a record of the new log could be durable while an older record of the old log is not (C02).
FOldSafe ==
  /\ up /\ fpc = "marked"
  /\ logs' = [logs EXCEPT ![live].os = Len(logs[live].ops)]
  /\ fpc' = "oldsafe"
  /\ UNCHANGED <<live, next, act, imms, ret, ssts, dir, nfile, lastSeq, up, wpc, fq, fact, fn, retired, issued, hist, crashes>>

\* wal.NewWAL + hand-over of the counter + atomic pointer swap; the old object is then closed
FSwap ==
  /\ up /\ fpc = "oldsafe"
  /\ logs' = Append([logs EXCEPT ![live].st = "closed"], [ops |-> <<>>, os |-> 0, st |-> "active"])
  /\ live' = Len(logs) + 1
  /\ fpc' = "tables"
  /\ UNCHANGED <<next, act, imms, ret, ssts, dir, nfile, lastSeq, up, wpc, fq, fact, fn, retired, issued, hist, crashes>>

\* flushMemTable: newest version per key incl. deletion markers -> tmp file -> sync -> rename
FWrite ==
  /\ up /\ fpc = "tables" /\ fq # <<>> /\ nfile <= MaxFiles
  /\ dir' = [f \in (DOMAIN dir) \cup {nfile} |->
               IF f = nfile THEN [lvl |-> 0, num |-> nfile, run |-> RunOf(Head(fq)), del |-> FALSE] ELSE dir[f]]
  /\ nfile' = nfile + 1
  /\ fpc' = "renamed"
  /\ UNCHANGED <<logs, live, next, act, imms, ret, ssts, lastSeq, up, wpc, fq, fact, fn, retired, issued, hist, crashes>>

\* reader opened and appended to Manager.sstables under mu
FPublish ==
  /\ up /\ fpc = "renamed"
  /\ ssts' = Append(ssts, nfile - 1)
  /\ fq' = Tail(fq)
  /\ fpc' = "tables"
  /\ UNCHANGED <<logs, live, next, act, imms, ret, dir, nfile, lastSeq, up, wpc, fact, fn, retired, issued, hist, crashes>>

\* all tables written: the flushed immutables leave the flush list (the pool keeps them: `ret`)
FEnd ==
  /\ up /\ fpc = "tables" /\ fq = <<>>
  /\ ret' = ret \o SubSeq(imms, 1, fn)
  /\ imms' = SubSeq(imms, fn + 1, Len(imms))
  /\ fpc' = "idle" /\ fact' = FALSE /\ fn' = 0
  /\ UNCHANGED <<logs, live, next, act, ssts, dir, nfile, lastSeq, up, wpc, fq, retired, issued, hist, crashes>>

-----------------------------------------------------------------------------
(* Compaction works on the directory only; the running engine keeps reading the files it has open
   (Manager.sstables is not touched), the result becomes visible at the next open. *)

AtLevel(l) == {f \in Files : dir[f].lvl = l}
KeysOf(f) == {k \in Keys : dir[f].run[k] # NoEnt}
Idx(k) == CHOOSE i \in 1..Len(KeySeq) : KeySeq[i] = k
FirstIdx(f) == Min({Idx(k) : k \in KeysOf(f)})
LastIdx(f) == Max({Idx(k) : k \in KeysOf(f)})
\* the compactor reasons about key RANGES [first key, last key] of files, not about key sets
Overlap(f, g) == FirstIdx(f) <= LastIdx(g) /\ FirstIdx(g) <= LastIdx(f)
InRange(f, lo, hi) == FirstIdx(f) <= hi /\ LastIdx(f) >= lo
\* everything that overlaps a selected file has to go with it (range compaction puts its output below every level)
RECURSIVE Closure(_)
Closure(S) == LET more == {g \in Files \ S : \E f \in S : Overlap(f, g)}
              IN IF more = {} THEN S ELSE Closure(S \cup more)

\* merge of the chosen inputs, newest first, into ONE output file at `lvl`; a deletion marker is kept
\* while any file outside the inputs at the same or a deeper level still holds the key
Merge(S, lvl) ==
  LET order == SortIds(S)
      newest(k) == LET has == {i \in 1..Len(order) : dir[order[i]].run[k] # NoEnt}
                   IN IF has = {} THEN NoEnt ELSE dir[order[Max(has)]].run[k]
      below(k) == \E g \in Files \ S : dir[g].lvl >= lvl /\ dir[g].run[k] # NoEnt
  IN [k \in Keys |-> IF newest(k) # NoEnt /\ newest(k).v = Tomb /\ ~below(k) THEN NoEnt ELSE newest(k)]

CompactTo(S, lvl) ==
  /\ nfile <= MaxFiles /\ lvl <= MaxLevel
  /\ LET out == Merge(S, lvl)
         nonempty == \E k \in Keys : out[k] # NoEnt
     IN dir' = [f \in (DOMAIN dir) \cup (IF nonempty THEN {nfile} ELSE {}) |->
                   IF f = nfile /\ f \notin DOMAIN dir THEN [lvl |-> lvl, num |-> nfile, run |-> out, del |-> FALSE]
                   ELSE IF f \in S THEN [dir[f] EXCEPT !.del = TRUE] ELSE dir[f]]
  /\ nfile' = nfile + 1

\* the strategy's selections (TieredCompactionStrategy): the oldest level-0 files plus every overlapping
\* file of level 1; or the oldest file of a level plus the overlapping files of the next level
Compact ==
  /\ up /\ fpc # "renamed"          \* a table being published is not yet known to be complete to the flush path
  /\ \/ \E n \in 2..Cardinality(AtLevel(0)) :
          LET chosen == {SortIds(AtLevel(0))[i] : i \in 1..n}
              l1 == {g \in AtLevel(1) : \E f \in chosen : Overlap(f, g)}
          IN CompactTo(chosen \cup l1, 1)
     \/ \E l \in 0..(MaxLevel - 1) :
          /\ AtLevel(l) # {}
          /\ LET f == SortIds(AtLevel(l))[1]
                 nxt == {g \in AtLevel(l + 1) : Overlap(f, g)}
             IN CompactTo({f} \cup nxt, l + 1)
     \* CompactRange(lo, hi): every file whose range meets [lo, hi], closed under overlap, into a new deepest level
     \/ \E lo \in 1..Len(KeySeq) : \E hi \in lo..Len(KeySeq) :
          LET sel == Closure({f \in Files : InRange(f, lo, hi)})
          IN /\ sel # {}
             /\ CompactTo(sel, 1 + Max({dir[f].lvl : f \in Files}))
  /\ UNCHANGED <<logs, live, next, act, imms, ret, ssts, lastSeq, up, wpc, fpc, fq, fact, fn, retired, issued, hist, crashes>>

-----------------------------------------------------------------------------
(* Stop and start *)

DiskN == retired + Len(DiskOps)     \* number of operations that survive a stop now (a prefix: DiskIsPrefix)
Unlinked == [f \in Files |-> dir[f]]

\* the process dies: everything in memory is gone, log buffers included
Die ==
  /\ up /\ crashes < MaxCrash
  /\ up' = FALSE /\ crashes' = crashes + 1
  /\ logs' = [i \in 1..Len(logs) |-> [ops |-> SubSeq(logs[i].ops, 1, logs[i].os), os |-> logs[i].os, st |-> "closed"]]
  /\ act' = <<>> /\ imms' = <<>> /\ ret' = <<>> /\ ssts' = <<>> /\ dir' = Unlinked
  /\ wpc' = "idle" /\ fpc' = "idle" /\ fq' = <<>> /\ fact' = FALSE /\ fn' = 0
  /\ issued' = SubSeq(issued, 1, DiskN) /\ hist' = SubSeq(hist, 1, DiskN + 1)
  /\ lastSeq' = Max({MaxSeqIn(DiskOps), DirMaxSeq})      \* not observable while down; what recovery will compute
  /\ UNCHANGED <<live, next, nfile, retired>>

\* Commit of a read-write transaction that wrote nothing (Manager.ApplyBatch with an empty batch): nothing is logged, no
\* sequence number is consumed, the reported last sequence number stays what it is
EmptyCommit == up /\ wpc = "idle" /\ fpc = "idle" /\ UNCHANGED vars

\* EngineFacade.Close with no call in flight and no flush running: the live log is flushed and synced
Close ==
  /\ up /\ wpc = "idle" /\ fpc = "idle"
  /\ up' = FALSE
  /\ logs' = [i \in 1..Len(logs) |-> [ops |-> logs[i].ops, os |-> Len(logs[i].ops), st |-> "closed"]]
  /\ act' = <<>> /\ imms' = <<>> /\ ret' = <<>> /\ ssts' = <<>> /\ dir' = Unlinked
  /\ UNCHANGED <<live, next, nfile, lastSeq, wpc, fpc, fq, fact, fn, retired, issued, hist, crashes>>

\* NewManager: reuse the newest log file for appending, load the table files in recency order,
\* replay every log file in name order into memtables, continue the numbering
Recover ==
  /\ ~up
  /\ up' = TRUE
  /\ logs' = [logs EXCEPT ![Len(logs)].st = "active"]
  /\ live' = Len(logs)
  /\ act' = Flat([i \in 1..Len(logs) |-> LogRecs(logs[i])])
  /\ ssts' = DirOrder
  /\ next' = 1 + Max({MaxSeqIn(AllOps), DirMaxSeq})
  /\ lastSeq' = Max({MaxSeqIn(AllOps), DirMaxSeq})
  /\ UNCHANGED <<imms, ret, dir, nfile, wpc, fpc, fq, fact, fn, retired, issued, hist, crashes>>

\* a log file whose every record is covered by a table file may be retired (wal retention) while closed
Retire ==
  /\ ~up /\ Len(logs) > 1
  /\ \A i \in 1..Len(logs[1].ops) :
        \A j \in 1..Len(issued[logs[1].ops[i].b]) :
           LET e == issued[logs[1].ops[i].b][j]
           IN \E f \in Files : dir[f].run[e.k] # NoEnt /\ dir[f].run[e.k].s >= logs[1].ops[i].s
  /\ logs' = Tail(logs) /\ live' = live - 1
  /\ retired' = retired + Len(logs[1].ops)
  /\ UNCHANGED <<next, act, imms, ret, ssts, dir, nfile, lastSeq, up, wpc, fpc, fq, fact, fn, issued, hist, crashes>>

-----------------------------------------------------------------------------
Next == \/ \E op \in Ops : WLog(op)
        \/ WDone \/ Switch \/ Spill
        \/ FBegin \/ FOldSafe \/ FSwap \/ FWrite \/ FPublish \/ FEnd
        \/ Compact
        \/ Die \/ Close \/ Recover \/ Retire

Spec == Init /\ [][Next]_vars

-----------------------------------------------------------------------------
(* Properties *)

TypeOK == /\ live \in 1..Len(logs)
          /\ Len(hist) = Len(issued) + 1
          /\ wpc \in {"idle", "logged"}

\* C01: every key reads as its latest acknowledged write, whatever maintenance has done so far
ReadLatest == up => \A k \in Keys : Norm(Lookup(k)) = Norm(Abs[k])

\* C01/C12: the same through the table files in the order a fresh open would load them - compaction,
\* flush and retirement never change what the directory (plus the memtables) says
DirView == up => \A k \in Keys : Norm(LookupWith(DirOrder, k)) = Norm(Abs[k])

\* C12: files of one deeper level never overlap (so their mutual order cannot matter)
DeepLevelsDisjoint == \A f, g \in Files : f # g /\ dir[f].lvl = dir[g].lvl /\ dir[f].lvl > 0 => ~Overlap(f, g)

\* C02: what reached the OS is, at every instant, a prefix of the issue order (so a stop at ANY instant
\* recovers a prefix state) and, with synchronous logging, it holds every acknowledged write.
\* C03 (crash form): an operation is ONE log element, so a batch survives as a whole or not at all.
DiskIsPrefix == \A i \in 1..Len(DiskOps) : DiskOps[i].b = retired + i
AckedDurable == up /\ SyncMode = "imm" => DiskN >= Acked

\* C08: numbers strictly increase in issue order across files, restarts and recoveries
SeqStrictlyUp == \A i \in 1..(Len(AllOps) - 1) : AllOps[i].s < AllOps[i + 1].s
NextAboveAll == up => next > MaxSeqIn(AllOps) /\ next > DirMaxSeq
LastSeqTruthful == up /\ wpc = "idle" => lastSeq = next - 1
\* (a stop that loses unsynced writes may legitimately take the counter back with them)
\* (kevo keeps no persistent counter: once a log file is retired AND compaction has dropped the last table
\*  entry carrying its numbers nothing remembers them - outside C08, which names rotation, flush, restart, recovery)
LastSeqMonotone == [][Len(issued') >= Len(issued) /\ retired' = 0 => lastSeq' >= lastSeq]_vars

Inv == /\ TypeOK /\ ReadLatest /\ DirView /\ DeepLevelsDisjoint /\ DiskIsPrefix /\ AckedDurable
       /\ SeqStrictlyUp /\ NextAboveAll /\ LastSeqTruthful
=============================================================================
