SPECIFICATION Spec
CONSTANTS
  Procs = {"p1", "p2", "p3"}
  MaxCalls = 1
INVARIANT NoStuck
INVARIANT ExclusiveIsExclusive
PROPERTY EveryCallReturns
CHECK_DEADLOCK FALSE
