SPECIFICATION Spec
CONSTANTS
  OldOrder = FALSE
  SyncNotify = TRUE
  UnregUnderRead = FALSE
  HbLeak = FALSE
  RetentionHoldsRead = TRUE
INVARIANTS LocksConsistent
PROPERTIES WriteReturns AllReturn
CHECK_DEADLOCK TRUE
