SPECIFICATION LiveSpec
CONSTANTS
  Replicas = {"r1", "r2"}
  MaxLog = 1
  MaxBatch = 1
  Chunk = 1
  MaxNet = 1
  MaxQ = 1
  MaxFaults = 0
  MaxDown = 0
  MaxRot = 0
  MaxStall = 1
  RotateFollows = TRUE
  WholeBatches = TRUE
  PollRereads = TRUE
INVARIANTS AppliedIsPrefix NoSplitBatch ExpectedFollowsApplied ReportedLeApplied AckLeApplied
PROPERTIES Converges StalledIsDropped
CHECK_DEADLOCK FALSE
