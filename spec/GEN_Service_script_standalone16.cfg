SPECIFICATION GSpec
CONSTANTS
  KeyArgs <- AllKeyArgs
  ValArgs = {"v1", "v2", "v3", "VEMPTY", "VMAX", "VOVER"}
  SpecialVals = {}
  MaxTx = 4
  Role = "standalone"
  MaxKeyLen = 4096
  MaxValLen = 10485760
  MaxBatch = 1000
  GenLen = 0
  Flavour = "script16"
CHECK_DEADLOCK FALSE
