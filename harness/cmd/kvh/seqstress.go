package main

import (
	"encoding/binary"
	"flag"
	"fmt"
	"os"
	"path/filepath"
	"sync"
	"sync/atomic"
	"time"

	"github.com/KevoDB/kevo/pkg/wal"
)

func init() { register("seq-stress", seqStressCmd) }

// seq-stress: C08 where no hook can stand.  Some windows of the log hand-over are two lock acquisitions in a row; the only
// way in is real parallelism at full speed, so nothing is traced while it runs.  Writers put their own keys in tight loops
// (the value carries writer and counter), one goroutine flushes - and so rotates the log - as fast as it can.  Afterwards
// the log directory is read back and written out as the stream of append events it stands for (wal.append.written /
// wal.append.done with the record's number, in log order, h.reset in front): TRACE_StoreProto's numbering rule (every
// record carries exactly the next number) decides.  A second stream per writer is not needed: a writer's puts are
// sequential, so they are in the log in issue order or the harness reports it as an error event.
func seqStressCmd(args []string) int {
	fs := flag.NewFlagSet("seq-stress", flag.ExitOnError)
	dir := fs.String("dir", "", "database directory")
	out := fs.String("out", "", "event stream (ndjson)")
	ms := fs.Int("ms", 1500, "duration")
	writers := fs.Int("writers", 6, "writer goroutines")
	mem := fs.Int64("mem", 2048, "memtable size")
	syncMode := fs.Int("sync", 0, "sync mode")
	hist := fs.String("hist", "", "C06: every writer reads its key back after each put; the first -histops operations of each writer are written here as a history (ndjson)")
	histOps := fs.Int("histops", 1500, "operations per writer in the history")
	fs.Parse(args)
	if *hist != "" && *writers > 4 {
		*writers = 4
	}
	type hop struct {
		op, v, res string
	}
	hops := make([][]hop, *writers)
	ring := make([][]hop, *writers)
	segs := make([][][]hop, *writers)
	lastAck := make([]string, *writers)
	muteStdout()
	wal.DisableRecoveryLogs = true
	eng, err := openEngine(*dir, &CfgClass{MemTableSize: *mem, MaxMemTables: 4, SyncMode: *syncMode, CompactSec: 3600})
	if err != nil {
		fmt.Fprintln(os.Stderr, err)
		return 2
	}
	var stop atomic.Bool
	var wg sync.WaitGroup
	acked := make([]uint64, *writers)
	for w := 0; w < *writers; w++ {
		wg.Add(1)
		go func(w int) {
			defer wg.Done()
			key := []byte(fmt.Sprintf("writer-%02d", w))
			val := make([]byte, 16)
			for n := uint64(1); !stop.Load(); n++ {
				binary.BigEndian.PutUint64(val[0:8], uint64(w))
				binary.BigEndian.PutUint64(val[8:16], n)
				err := eng.Put(key, val)
				if *hist != "" {
					// a failed write is recorded as failed: it must have taken no effect (the same value is never written again,
					// the retry below uses the next counter)
					hp := hop{"put", fmt.Sprintf("w%d-%d", w, n), okErr(err)}
					got, gerr := eng.Get(key)
					res := "NONE"
					if gerr == nil && len(got) == 16 {
						res = fmt.Sprintf("w%d-%d", binary.BigEndian.Uint64(got[0:8]), binary.BigEndian.Uint64(got[8:16]))
					} else if gerr != nil && !isNotFound(gerr) {
						res = "ERR:" + gerr.Error()
					}
					hg := hop{"get", "-", res}
					if len(hops[w]) < *histOps {
						hops[w] = append(hops[w], hp, hg)
					}
					// beyond the recorded head: the last operations are kept, and a read that does not show the last acknowledged
					// write makes them a history of their own (it starts with a put, which fixes the key's state) for TLC to judge
					if err == nil {
						lastAck[w] = hp.v
					}
					ring[w] = append(ring[w], hp, hg)
					if len(ring[w]) > 12 {
						ring[w] = ring[w][2:]
					}
					if res != lastAck[w] && lastAck[w] != "" && len(segs[w]) < 3 {
						seg := append([]hop(nil), ring[w]...)
						for len(seg) > 0 && !(seg[0].op == "put" && seg[0].res == "ok") {
							seg = seg[1:]
						}
						segs[w] = append(segs[w], seg)
					}
				}
				if err != nil {
					if isRotating(err) {
						continue
					}
					return
				}
				acked[w] = n
			}
		}(w)
	}
	wg.Add(1)
	go func() {
		defer wg.Done()
		for !stop.Load() {
			eng.FlushImMemTables()
			time.Sleep(200 * time.Microsecond)
		}
	}()
	time.Sleep(time.Duration(*ms) * time.Millisecond)
	stop.Store(true)
	wg.Wait()
	quiesce(5 * time.Second)
	eng.Close()
	if *hist != "" {
		// keys are disjoint and every writer is sequential: the histories of the writers, one after the other, are a history
		// with the same per-key projections (linearisability is decided per key)
		hf, err := os.Create(*hist)
		if err != nil {
			fmt.Fprintln(os.Stderr, err)
			return 2
		}
		dump := func(w int, hs []hop) {
			for _, h := range hs {
				fmt.Fprintf(hf, "{\"e\":\"inv\",\"c\":\"c%d\",\"op\":%q,\"k\":\"k%d\",\"v\":%q}\n", w+1, h.op, w+1, h.v)
				fmt.Fprintf(hf, "{\"e\":\"ret\",\"c\":\"c%d\",\"res\":%q}\n", w+1, h.res)
			}
		}
		fmt.Fprintln(hf, `{"e":"reset"}`)
		for w := range hops {
			dump(w, hops[w])
		}
		for w := range segs {
			for _, seg := range segs[w] {
				fmt.Fprintln(hf, `{"e":"reset"}`)
				dump(w, seg)
			}
		}
		hf.Close()
	}
	f, err := os.Create(*out)
	if err != nil {
		fmt.Fprintln(os.Stderr, err)
		return 2
	}
	defer f.Close()
	n := 0
	emit := func(site string, a uint64) {
		n++
		fmt.Fprintf(f, "{\"n\":%d,\"site\":%q,\"a\":%d,\"b\":0}\n", n, site, a)
	}
	n++
	fmt.Fprintf(f, "{\"n\":%d,\"site\":\"h.reset\",\"a\":0,\"b\":0,\"sync\":0}\n", n)
	last := make([]uint64, *writers)
	entries := 0
	_, err = wal.ReplayWALDir(filepath.Join(*dir, "wal"), func(e *wal.Entry) error {
		entries++
		emit("wal.append.written", e.SequenceNumber)
		emit("wal.append.done", e.SequenceNumber)
		if len(e.Value) == 16 {
			w, c := binary.BigEndian.Uint64(e.Value[0:8]), binary.BigEndian.Uint64(e.Value[8:16])
			if int(w) < len(last) {
				// (the same write twice is a retried write that had taken effect - C06's subject, not an ordering matter)
				if c <= last[w] && c != last[w] {
					n++
					fmt.Fprintf(f, "{\"n\":%d,\"site\":\"h.error\",\"a\":%d,\"b\":%d,\"msg\":\"writer %d: write %d follows write %d in the log\"}\n", n, c, last[w], w, c, last[w])
				}
				last[w] = c
			}
		}
		return nil
	})
	if err != nil {
		n++
		fmt.Fprintf(f, "{\"n\":%d,\"site\":\"h.error\",\"a\":0,\"b\":0,\"msg\":%q}\n", n, "reading the log back: "+err.Error())
	}
	for w := range last {
		if last[w] < acked[w] {
			n++
			fmt.Fprintf(f, "{\"n\":%d,\"site\":\"h.error\",\"a\":%d,\"b\":%d,\"msg\":\"writer %d: %d writes acknowledged, %d in the log\"}\n", n, acked[w], last[w], w, acked[w], last[w])
		}
	}
	fmt.Fprintf(os.Stderr, "entries=%d\n", entries)
	return 0
}
