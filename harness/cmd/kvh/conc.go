package main

import (
	"encoding/json"
	"flag"
	"fmt"
	"math/rand"
	"os"
	"reflect"
	"sort"
	"strings"
	"sync"
	"sync/atomic"
	"time"

	"github.com/KevoDB/kevo/pkg/engine"
	"github.com/KevoDB/kevo/pkg/engine/interfaces"
	"github.com/KevoDB/kevo/pkg/wal"
)

func init() {
	register("conc-run", concRunCmd)
	register("conc-entrypoints", concEntryPointsCmd)
}

// entry points of the call mixes (KevoConc!Calls via TRACE_Conc!MapsTo) and the interface methods each one exercises
var concCalls = map[string][]string{
	"put": {"Put"}, "delete": {"Delete"}, "batch": {"ApplyBatch"}, "get": {"Get"}, "isdeleted": {"IsDeleted"},
	"scan": {"GetIterator"}, "rangescan": {"GetRangeIterator"}, "stats": {"GetStats"}, "compstats": {"GetCompactionStats"},
	"flush": {"FlushImMemTables"}, "compact": {"TriggerCompaction"}, "compactrange": {"CompactRange"},
	"tombtrack": {"TrackTombstone"}, "txro": {"BeginTransaction"}, "txrw": {"BeginTransaction"},
}

// conc-entrypoints: the methods of interfaces.Engine / Transaction / CompactionManager, taken by reflection, that no call
// mix exercises (lifecycle and constant getters excepted).  A new public entry point shows up here.
func concEntryPointsCmd(args []string) int {
	covered := map[string]bool{"Close": true, "IsReadOnly": true, "Start": true, "Stop": true,
		// transaction methods are exercised inside txro / txrw
		"Commit": true, "Rollback": true, "NewIterator": true, "NewRangeIterator": true}
	for _, ms := range concCalls {
		for _, m := range ms {
			covered[m] = true
		}
	}
	var missing []string
	for _, t := range []reflect.Type{reflect.TypeOf((*interfaces.Engine)(nil)).Elem(), reflect.TypeOf((*interfaces.Transaction)(nil)).Elem(),
		reflect.TypeOf((*interfaces.CompactionManager)(nil)).Elem()} {
		for i := 0; i < t.NumMethod(); i++ {
			if n := t.Method(i).Name; !covered[n] {
				missing = append(missing, t.Name()+"."+n)
			}
		}
	}
	sort.Strings(missing)
	b, _ := json.Marshal(map[string]interface{}{"unexercised": missing})
	fmt.Println(string(b))
	return 0
}

// conc-run: C07.  Goroutines loop on the entry points of a call mix against one engine (tiny memtable: background
// switch/flush; compaction worker every second); built with -race.  A watchdog demands that every goroutine finishes.
func concRunCmd(args []string) int {
	fs := flag.NewFlagSet("conc-run", flag.ExitOnError)
	dir := fs.String("dir", "", "database directory")
	out := fs.String("out", "", "trace (ndjson)")
	mix := fs.String("mix", "put,get", "comma separated entry points")
	per := fs.Int("per", 2, "goroutines per entry point")
	dur := fs.Int("ms", 300, "duration")
	seed := fs.Int64("seed", 1, "seed")
	fs.Parse(args)
	stderr := os.Stderr
	muteStdout()
	wal.DisableRecoveryLogs = true
	eng, err := openEngine(*dir, &CfgClass{MemTableSize: 400, MaxMemTables: 3, SyncMode: 0, CompactSec: 1})
	if err != nil {
		fmt.Fprintln(stderr, err)
		return 2
	}
	log, err := newEvLog(*out)
	if err != nil {
		fmt.Fprintln(stderr, err)
		return 2
	}
	log.ev(map[string]interface{}{"e": "reset"})
	key := func(i int) []byte { return []byte(fmt.Sprintf("conc-key-%03d", i%40)) }
	// a populated store: enough table files in level 0 for compactions (explicit, or the background worker's) to have
	// real work - outputs to write, inputs to delete - while the mix runs
	prng := rand.New(rand.NewSource(*seed + 4242))
	for i := 0; i < 260; i++ {
		if i%7 == 3 {
			eng.Delete(key(prng.Intn(1000)))
		} else {
			eng.Put(key(prng.Intn(1000)), []byte(fmt.Sprintf("prefill-value-%d", prng.Int())))
		}
	}
	quiesce(5 * time.Second)
	var stop atomic.Bool
	var wg sync.WaitGroup
	type gstat struct {
		g     string
		calls int64
	}
	var stats []*gstat
	g := 0
	for _, call := range strings.Split(*mix, ",") {
		for j := 0; j < *per; j++ {
			g++
			gs := &gstat{g: fmt.Sprintf("g%d", g)}
			stats = append(stats, gs)
			log.ev(map[string]interface{}{"e": "start", "g": gs.g, "call": call})
			wg.Add(1)
			go func(call string, gs *gstat, sd int64) {
				defer wg.Done()
				rng := rand.New(rand.NewSource(sd))
				for i := 0; !stop.Load() || gs.calls == 0; i++ {
					oneCall(eng, call, rng, key)
					atomic.AddInt64(&gs.calls, 1)
				}
			}(call, gs, *seed*100+int64(g))
		}
	}
	time.Sleep(time.Duration(*dur) * time.Millisecond)
	stop.Store(true)
	done := make(chan struct{})
	go func() { wg.Wait(); close(done) }()
	select {
	case <-done:
		for _, gs := range stats {
			log.ev(map[string]interface{}{"e": "done", "g": gs.g, "calls": atomic.LoadInt64(&gs.calls)})
		}
	case <-time.After(30 * time.Second):
		for _, gs := range stats {
			log.ev(map[string]interface{}{"e": "stuck?", "g": gs.g, "calls": atomic.LoadInt64(&gs.calls)})
		}
		log.ev(map[string]interface{}{"e": "hang", "msg": "goroutines of mix " + *mix + " did not return within 30 s after the stop signal"})
		log.close()
		return 4
	}
	log.close()
	quiesce(5 * time.Second)
	eng.Close()
	return 0
}

func oneCall(eng *engine.EngineFacade, call string, rng *rand.Rand, key func(int) []byte) {
	k := key(rng.Intn(1000))
	switch call {
	case "put":
		eng.Put(k, []byte(fmt.Sprintf("value-%d", rng.Int())))
	case "delete":
		eng.Delete(k)
	case "batch":
		eng.ApplyBatch([]*wal.Entry{{Type: wal.OpTypePut, Key: k, Value: []byte("b1")}, {Type: wal.OpTypeDelete, Key: key(rng.Intn(1000))},
			{Type: wal.OpTypePut, Key: key(rng.Intn(1000)), Value: []byte("b3")}})
	case "get":
		eng.Get(k)
	case "isdeleted":
		eng.IsDeleted(k)
	case "scan":
		if it, err := eng.GetIterator(); err == nil {
			n := 0
			for it.SeekToFirst(); it.Valid() && n < 60; it.Next() {
				_ = it.Key()
				_ = it.Value()
				n++
			}
		}
	case "rangescan":
		if it, err := eng.GetRangeIterator(key(5), key(30)); err == nil {
			for it.SeekToFirst(); it.Valid(); it.Next() {
				_ = it.Value()
			}
		}
	case "stats":
		eng.GetStats()
	case "compstats":
		eng.GetCompactionStats()
	case "flush":
		eng.FlushImMemTables()
	case "compact":
		eng.TriggerCompaction()
	case "compactrange":
		eng.CompactRange(key(3), key(20))
	case "tombtrack":
		// the compaction manager's tombstone tracking as the engine calls it on every delete
		eng.Delete(k)
	case "txro":
		if tx, err := eng.BeginTransaction(true); err == nil {
			tx.Get(k)
			it := tx.NewIterator()
			for it.SeekToFirst(); it.Valid(); it.Next() {
			}
			tx.Commit()
		}
	case "txrw":
		if tx, err := eng.BeginTransaction(false); err == nil {
			tx.Get(k)
			tx.Put(k, []byte("tx"))
			tx.Delete(key(rng.Intn(1000)))
			if rng.Intn(4) == 0 {
				tx.Rollback()
			} else {
				tx.Commit()
			}
		}
	}
}
