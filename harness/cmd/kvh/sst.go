package main

// C11 - conformance of pkg/sstable with the specification KevoSST.
//
//	sst-replay   TLC-generated tables (block shapes, value classes, sequence numbers) are written as REAL files with
//	             sstable.Writer; the prediction tables of the specification's operational algorithms (seek and get for
//	             every target, forward iteration, last) and its cursor programs (predicted position after every call)
//	             are compared with sstable.Reader / sstable.Iterator / IteratorAdapter.
//	sst-corrupt  single-byte corruption sweep over such files (every offset, or structure boundaries + seeded
//	             interior): open fails, or a call fails, or everything shown is an entry that was written.
//	             Runs in child processes (a damaged file may crash or hang the code under test).
//
// The key tokens of the specification (entry i has key 2i, targets 1..2n+1) are turned into bytes by sstTable.

import (
	"bytes"
	"encoding/binary"
	"encoding/json"
	"errors"
	"flag"
	"fmt"
	"os"
	"os/exec"
	"path/filepath"
	"sort"
	"strings"
	"sync"
	"sync/atomic"
	"syscall"
	"time"

	"github.com/KevoDB/kevo/pkg/sstable"
	"github.com/cespare/xxhash/v2"
)

func init() {
	register("sst-replay", sstReplayCmd)
	register("sst-corrupt", sstCorruptCmd)
	register("sst-corrupt-worker", sstCorruptWorkerCmd)
}

// ---------------------------------------------------------------------------------------------
// behaviours printed by GEN_SST

type sstEnt struct {
	K int    `json:"k"`
	C string `json:"c"` // tomb | empty | one | norm | big
	S int    `json:"s"`
}
type sstStep struct {
	A   string `json:"a"` // seek | next | first | last | newiter
	T   int    `json:"t"`
	Pos int    `json:"pos"` // entry number the cursor is on after the call (0 = invalid)
	K   int    `json:"k"`
}
type sstBeh struct {
	Lens []int     `json:"lens"`
	R    int       `json:"R"`
	Seed int       `json:"seed"`
	Ents []sstEnt  `json:"ents"`
	Seek []int     `json:"seek"` // index t-1: predicted position of Seek(t) on a fresh cursor
	Get  []int     `json:"get"`  // index t-1: entry number returned by Get(t), 0 = not found
	Iter []int     `json:"iter"` // entry numbers yielded by SeekToFirst; Next...
	Last int       `json:"last"`
	Prog []sstStep `json:"prog"`
}

type sstMismatch struct {
	Kind string `json:"kind"` // iter | adapter | seek | reseek | get | last | prog | hang | panic | open | write
	Step int    `json:"step"`
	T    int    `json:"t,omitempty"`
	Exp  string `json:"exp"`
	Got  string `json:"got"`
	Msg  string `json:"msg,omitempty"`
}
type sstResult struct {
	B       int           `json:"b"`
	Ok      bool          `json:"ok"`
	Infra   string        `json:"infra,omitempty"` // the harness could not reproduce the shape: not a verdict
	Variant string        `json:"variant"`
	Blocks  int           `json:"blocks"`
	Entries int           `json:"entries"`
	Bytes   int64         `json:"bytes"`
	Calls   int           `json:"calls"`
	NMism   int           `json:"nmism"`
	Mism    []sstMismatch `json:"mism,omitempty"`
}

// ---------------------------------------------------------------------------------------------
// concretisation

func sstMix(a ...uint64) uint64 {
	x := uint64(0x9E3779B97F4A7C15)
	for _, v := range a {
		x ^= v + 0x9E3779B97F4A7C15 + (x << 6) + (x >> 2)
		x ^= x >> 30
		x *= 0xBF58476D1CE4E5B9
		x ^= x >> 27
		x *= 0x94D049BB133111EB
		x ^= x >> 31
	}
	return x
}

var sstVariants = []string{"ascii", "binary", "prefix", "emptykey"}

const (
	sstBlockLimit = 64 * 1024 // sstable.IndexKeyInterval: flushBlock when the builder's estimate reaches it
	sstMaxKey     = 65535     // key length is stored in 16 bits
)

type sstTable struct {
	beh     *sstBeh
	variant string
	seed    uint64
	n       int
	// variant "emptykey": bytes as in "binary", but the first entry's key is the EMPTY key (the smallest byte string), so
	// the target token 1 ("before the first key") has no bytes of its own and stands for the empty key as well
	emptyFirst bool
	// chain[i]: key i is key i-1 followed by 0x01 - consecutive keys one of which is a prefix of the other (the delta
	// encoding then shares the whole previous key); variants "binary" and "emptykey"
	chain []bool
	keys    [][]byte // 1..n
	vals    [][]byte // nil = tombstone
	seqs    []uint64
	byKey   map[string]int
}

// eff maps a target token to the token whose bytes are used for it.
func (t *sstTable) eff(tok int) int {
	if t.emptyFirst && tok == 1 {
		return 2
	}
	return tok
}

func (t *sstTable) prefix() []byte {
	switch t.variant {
	case "binary", "emptykey":
		return []byte{0x00, 0xFF, 0x00, 'k', 0xFF, 0xFF}
	case "prefix":
		// 300 bytes shared by all keys, fewer if a block is planned to hold so many entries that they would not fit
		pl, mmax := 300, 1
		for _, m := range t.beh.Lens {
			if m > mmax {
				mmax = m
			}
		}
		if lim := sstBlockLimit/mmax - 80; lim < pl {
			pl = lim
		}
		p := make([]byte, pl)
		for i := range p {
			switch i % 7 {
			case 0:
				p[i] = 0x00
			case 3:
				p[i] = 0xFF
			default:
				p[i] = byte('A' + i%23)
			}
		}
		return p
	}
	return []byte("key-")
}

// keyBase is order preserving in the token and has the same length for every token.
func (t *sstTable) keyBase(tok int) []byte {
	p := t.prefix()
	if t.variant == "ascii" {
		return append(p, []byte(fmt.Sprintf("%08d", tok))...)
	}
	var e [4]byte
	binary.BigEndian.PutUint32(e[:], uint32(tok)*65281) // spreads 0x00 / 0xFF over the bytes; tok < 60000
	return append(p, e[:]...)
}

func (t *sstTable) bytesOf(n int, h uint64) []byte {
	b := make([]byte, n)
	x := h | 1
	for i := range b {
		x ^= x << 13
		x ^= x >> 7
		x ^= x << 17
		if t.variant == "ascii" {
			b[i] = byte('a' + x%26)
		} else {
			b[i] = byte(x >> 24)
		}
	}
	if t.variant != "ascii" && n >= 2 {
		b[0], b[n-1] = 0x00, 0xFF
	}
	return b
}

func sstSeq(s int) uint64 {
	if s == 1 {
		return ^uint64(0)
	}
	if s%9 == 0 {
		return 0
	}
	return uint64(s)<<uint((s%8)*7) | uint64(s)
}

func sstRestarts(m int) int { return (m + 15) / 16 }

// newSSTTable turns a behaviour into bytes.  Every block but the last must reach the 64 KB estimate exactly at its
// last entry: the slack is put into "norm" values or, when the block has none (or by choice), into one long key.
func newSSTTable(beh *sstBeh, variant string, seed uint64) (*sstTable, error) {
	t := &sstTable{beh: beh, variant: variant, seed: seed, n: len(beh.Ents), byKey: map[string]int{}}
	n := t.n
	t.keys = make([][]byte, n+1)
	t.vals = make([][]byte, n+1)
	t.seqs = make([]uint64, n+1)
	vlen := make([]int, n+1)
	kpad := make([]int, n+1)
	sum := 0
	for _, l := range beh.Lens {
		sum += l
	}
	if sum != n || n == 0 {
		return nil, fmt.Errorf("behaviour: %d entries for block lengths %v", n, beh.Lens)
	}
	lk := len(t.keyBase(0))
	// the slack of a one-entry first block has to go into the value if the key is to stay empty
	t.emptyFirst = variant == "emptykey" && (len(beh.Lens) == 1 || beh.Lens[0] > 1 || beh.Ents[0].C == "norm" || beh.Ents[0].C == "big")
	t.chain = make([]bool, n+2)
	inChain := make([]bool, n+2)
	if variant == "binary" || variant == "emptykey" {
		f0 := 1
		for _, m := range beh.Lens {
			for i := f0 + 1; i+1 <= f0+m-1; i++ { // never the first entry of a block: it stays free to carry the slack
				if !inChain[i] && sstMix(seed, uint64(i), 6)%3 == 0 {
					t.chain[i+1], inChain[i], inChain[i+1] = true, true, true
				}
			}
			f0 += m
		}
	}
	klen := func(i int) int {
		if t.emptyFirst && i == 1 {
			return 0
		}
		if t.chain[i] {
			return lk + 1
		}
		return lk
	}
	for i := 1; i <= n; i++ {
		e := beh.Ents[i-1]
		if e.K != 2*i {
			return nil, fmt.Errorf("behaviour: entry %d has key token %d", i, e.K)
		}
		h := sstMix(seed, uint64(i), 1)
		switch e.C {
		case "tomb", "empty":
			vlen[i] = 0
		case "one":
			vlen[i] = 1
		case "norm":
			vlen[i] = 2 + int(h%40)
		case "big":
			vlen[i] = 66000 + int(h%5000)
		default:
			return nil, fmt.Errorf("behaviour: unknown value class %q", e.C)
		}
		t.seqs[i] = sstSeq(e.S)
	}
	first := 1
	for b, m := range beh.Lens {
		last := first + m - 1
		final := b == len(beh.Lens)-1
		if !final && beh.Ents[last-1].C != "big" {
			est := sstRestarts(m)*4 + 12
			var flex []int
			for i := first; i <= last; i++ {
				est += klen(i) + vlen[i] + 16
				if beh.Ents[i-1].C == "norm" {
					flex = append(flex, i)
				}
			}
			deficit := sstBlockLimit - est
			if deficit < 0 {
				return nil, fmt.Errorf("block %d: %d small entries already exceed the block limit", b+1, m)
			}
			h := sstMix(seed, uint64(b), 2)
			j := first + int((h>>8)%uint64(m))
			if inChain[j] {
				j = first
			}
			if t.emptyFirst && j == 1 {
				j = last
				for j > 1 && inChain[j] {
					j--
				}
			}
			if len(flex) > 0 && (h%4 != 0 || (t.emptyFirst && j == 1)) {
				// spread the slack over the normal values
				for x, i := range flex {
					share := deficit / (len(flex) - x)
					if x < len(flex)-1 {
						share = int(sstMix(h, uint64(i)) % uint64(share+1))
					}
					vlen[i] += share
					deficit -= share
				}
			} else {
				if deficit > sstMaxKey-lk {
					return nil, fmt.Errorf("block %d: slack %d does not fit a key", b+1, deficit)
				}
				kpad[j] = deficit
			}
		}
		first = last + 1
	}
	for i := 1; i <= n; i++ {
		k := t.keyBase(2 * i)
		if t.emptyFirst && i == 1 {
			k = []byte{}
		}
		if t.chain[i] {
			k = append(append([]byte{}, t.keys[i-1]...), 0x01)
		}
		if kpad[i] > 0 {
			k = append(k, t.bytesOf(kpad[i], sstMix(seed, uint64(i), 3))...)
		}
		t.keys[i] = k
		t.byKey[string(k)] = i
		switch beh.Ents[i-1].C {
		case "tomb":
			t.vals[i] = nil
		case "empty":
			t.vals[i] = []byte{}
		case "one":
			t.vals[i] = []byte{[]byte{0x00, 0xFF, 'x'}[sstMix(seed, uint64(i), 4)%3]}
		default:
			t.vals[i] = t.bytesOf(vlen[i], sstMix(seed, uint64(i), 5))
		}
	}
	// the writer's own arithmetic (block.Builder.EstimatedSize), to be sure where it will cut
	i, cur, cnt := 1, 0, 0
	for b, m := range beh.Lens {
		for x := 0; x < m; x++ {
			cur += len(t.keys[i]) + len(t.vals[i]) + 16
			cnt++
			full := cur+sstRestarts(cnt)*4+12 >= sstBlockLimit
			if full != (x == m-1) && !(b == len(beh.Lens)-1 && !full) {
				return nil, fmt.Errorf("block %d: cut would fall at entry %d of %d (entry %d: key %d + value %d bytes, estimate %d)",
					b+1, x+1, m, i, len(t.keys[i]), len(t.vals[i]), cur+sstRestarts(cnt)*4+12)
			}
			i++
		}
		cur, cnt = 0, 0
	}
	return t, nil
}

// target turns a target token into bytes: an even token is the key of entry t/2; an odd one lies strictly between
// its neighbours (several byte shapes: own token, predecessor + 0x00, a proper prefix of the successor, extremes).
func (t *sstTable) target(tok int, salt uint64) []byte {
	if tok%2 == 0 {
		return t.keys[tok/2]
	}
	lo, hi := (tok-1)/2, (tok+1)/2
	lb := len(t.keyBase(0))
	if hi <= t.n && t.chain[hi] { // between k and k+0x01 there is little room
		return append(append([]byte{}, t.keys[lo]...), 0x00)
	}
	switch sstMix(t.seed, uint64(tok), salt) % 4 {
	case 1:
		if lo >= 1 {
			return append(append([]byte{}, t.keys[lo]...), 0x00)
		}
		return []byte{} // before everything
	case 2:
		if hi <= t.n && len(t.keys[hi]) > lb {
			return t.keys[hi][:len(t.keys[hi])-1]
		}
	case 3:
		if hi > t.n {
			return bytes.Repeat([]byte{0xFF}, 9)
		}
		if lo == 0 {
			return t.prefix()[:1]
		}
	}
	return t.keyBase(tok)
}

func (t *sstTable) write(path string) error {
	w, err := sstable.NewWriter(path)
	if err != nil {
		return err
	}
	for i := 1; i <= t.n; i++ {
		if err := w.AddWithSequence(t.keys[i], t.vals[i], t.seqs[i]); err != nil {
			w.Abort()
			return fmt.Errorf("AddWithSequence(entry %d): %w", i, err)
		}
	}
	return w.Finish()
}

// ---------------------------------------------------------------------------------------------
// the file's layout, decoded by the harness itself (not by the code under test)

type sstRawEntry struct {
	off, keyOff, seqOff, valLenOff, valOff, end int
	key                                         []byte
	valLen                                      uint32
}
type sstRawBlock struct {
	off, size   int
	restartsOff int // start of the restart array
	entries     []sstRawEntry
}
type sstLayout struct {
	size                 int
	blocks               []sstRawBlock
	bloomOff, bloomSize  int
	bloomHdr, bloomParam [][2]int // [start,end) of every 12-byte label+length and of every 32-byte parameter header
	indexOff, indexSize  int
	footerOff            int
}

func sstParseBlock(data []byte, off int) (rb sstRawBlock, err error) {
	defer func() {
		if x := recover(); x != nil {
			err = fmt.Errorf("block at %d is not in the documented format: %v", off, x)
		}
	}()
	rb = sstRawBlock{off: off, size: len(data)}
	if len(data) < 16 {
		return rb, errors.New("block too small")
	}
	nr := int(binary.LittleEndian.Uint32(data[len(data)-12:]))
	rb.restartsOff = len(data) - 12 - 4*nr
	if nr <= 0 || rb.restartsOff < 0 {
		return rb, errors.New("bad restart count")
	}
	rs := map[int]bool{}
	for i := 0; i < nr; i++ {
		rs[int(binary.LittleEndian.Uint32(data[rb.restartsOff+4*i:]))] = true
	}
	var prev []byte
	p := 0
	for p < rb.restartsOff {
		e := sstRawEntry{off: off + p}
		var key []byte
		if rs[p] {
			kl := int(binary.LittleEndian.Uint16(data[p:]))
			e.keyOff = off + p + 2
			key = append([]byte{}, data[p+2:p+2+kl]...)
			p += 2 + kl
		} else {
			sh := int(binary.LittleEndian.Uint16(data[p:]))
			un := int(binary.LittleEndian.Uint16(data[p+2:]))
			e.keyOff = off + p + 4
			key = append(append([]byte{}, prev[:sh]...), data[p+4:p+4+un]...)
			p += 4 + un
		}
		e.key = key
		e.seqOff = off + p
		p += 8
		e.valLenOff = off + p
		e.valLen = binary.LittleEndian.Uint32(data[p:])
		p += 4
		e.valOff = off + p
		if e.valLen != 0xFFFFFFFF {
			p += int(e.valLen)
		}
		e.end = off + p
		if p > rb.restartsOff {
			return rb, errors.New("entry overruns the restart array")
		}
		rb.entries = append(rb.entries, e)
		prev = key
	}
	return rb, nil
}

func sstParseLayout(data []byte) (l *sstLayout, err error) {
	defer func() {
		if x := recover(); x != nil {
			l, err = nil, fmt.Errorf("file is not in the documented format: %v", x)
		}
	}()
	l = &sstLayout{size: len(data)}
	if len(data) < 68 {
		return nil, errors.New("file smaller than a footer")
	}
	l.footerOff = len(data) - 68
	f := data[l.footerOff:]
	l.indexOff = int(binary.LittleEndian.Uint64(f[20:28]))
	l.indexSize = int(binary.LittleEndian.Uint32(f[28:32]))
	l.bloomOff = int(binary.LittleEndian.Uint64(f[44:52]))
	l.bloomSize = int(binary.LittleEndian.Uint32(f[52:56]))
	if l.indexOff+l.indexSize != l.footerOff || l.indexOff <= 0 {
		return nil, fmt.Errorf("layout: index [%d,+%d) does not end at the footer %d", l.indexOff, l.indexSize, l.footerOff)
	}
	ix, err := sstParseBlock(data[l.indexOff:l.indexOff+l.indexSize], l.indexOff)
	if err != nil {
		return nil, fmt.Errorf("layout: index block: %w", err)
	}
	next := 0
	for _, e := range ix.entries {
		if e.valLen != 12 {
			return nil, errors.New("layout: index value is not offset+size")
		}
		o := int(binary.LittleEndian.Uint64(data[e.valOff:]))
		s := int(binary.LittleEndian.Uint32(data[e.valOff+8:]))
		if o != next {
			return nil, fmt.Errorf("layout: block at %d, expected at %d", o, next)
		}
		rb, err := sstParseBlock(data[o:o+s], o)
		if err != nil {
			return nil, fmt.Errorf("layout: data block at %d: %w", o, err)
		}
		if len(rb.entries) == 0 || !bytes.Equal(rb.entries[0].key, e.key) {
			return nil, fmt.Errorf("layout: index key of block at %d is not its first key", o)
		}
		l.blocks = append(l.blocks, rb)
		next = o + s
	}
	if l.bloomSize > 0 {
		if l.bloomOff != next || l.bloomOff+l.bloomSize != l.indexOff {
			return nil, fmt.Errorf("layout: bloom section [%d,+%d) not between data %d and index %d", l.bloomOff, l.bloomSize, next, l.indexOff)
		}
		p := l.bloomOff
		for p < l.indexOff {
			fs := int(binary.LittleEndian.Uint32(data[p+8:]))
			l.bloomHdr = append(l.bloomHdr, [2]int{p, p + 12})
			l.bloomParam = append(l.bloomParam, [2]int{p + 12, p + 44})
			p += 12 + fs
		}
	} else if next != l.indexOff {
		return nil, errors.New("layout: gap between data and index")
	}
	return l, nil
}

// region names the structure an offset belongs to (classes of KevoSST.Damages in brackets).
func (l *sstLayout) region(off int) string {
	for _, b := range l.blocks {
		if off >= b.off && off < b.off+b.size {
			end := b.off + b.size
			switch {
			case off >= end-8:
				return "sum" // [sum]
			case off >= b.off+b.restartsOff:
				return "restart" // [restart] restart array and its count
			}
			return "data" // [data]
		}
	}
	switch {
	case off >= l.footerOff:
		return "footer" // [footer]
	case off >= l.indexOff:
		return "index" // [indexkey, indexoff]
	}
	for _, r := range l.bloomHdr {
		if off >= r[0] && off < r[1] {
			return "bloomhdr" // [bloomoff, bloomdrop, bloomfail]
		}
	}
	for _, r := range l.bloomParam {
		if off >= r[0] && off < r[1] {
			return "bloomparam" // [bloomkey, bloomdrop]
		}
	}
	return "bloombits" // [bloomkey]
}

// ---------------------------------------------------------------------------------------------
// sst-replay

type sstCursor interface {
	SeekToFirst()
	SeekToLast()
	Seek([]byte) bool
	Next() bool
	Key() []byte
	Value() []byte
	Valid() bool
	IsTombstone() bool
	SequenceNumber() uint64
}

func (t *sstTable) describe(it sstCursor) (int, string) {
	if !it.Valid() {
		return 0, "invalid"
	}
	k := it.Key()
	i, ok := t.byKey[string(k)]
	if !ok {
		if len(k) > 24 {
			return -1, fmt.Sprintf("unknown key %x...(%d bytes)", k[:24], len(k))
		}
		return -1, fmt.Sprintf("unknown key %x", k)
	}
	return i, fmt.Sprintf("entry %d", i)
}

// at compares what the cursor shows with entry number pos (0 = invalid).
func (t *sstTable) at(it sstCursor, pos int) (string, string, bool) {
	exp := "invalid"
	if pos != 0 {
		exp = fmt.Sprintf("entry %d", pos)
	}
	got, desc := t.describe(it)
	if got != pos {
		return exp, desc, false
	}
	if pos == 0 {
		return exp, desc, true
	}
	tomb := t.vals[pos] == nil
	if it.IsTombstone() != tomb {
		return exp + fmt.Sprintf(" tombstone=%v", tomb), desc + fmt.Sprintf(" tombstone=%v", it.IsTombstone()), false
	}
	v := it.Value()
	if tomb && len(v) != 0 {
		return exp + " no value", desc + fmt.Sprintf(" value of %d bytes", len(v)), false
	}
	if !tomb && (v == nil || !bytes.Equal(v, t.vals[pos])) {
		return exp + fmt.Sprintf(" value of %d bytes (%s)", len(t.vals[pos]), t.beh.Ents[pos-1].C),
			desc + fmt.Sprintf(" value nil=%v of %d bytes, equal=%v", v == nil, len(v), bytes.Equal(v, t.vals[pos])), false
	}
	if it.SequenceNumber() != t.seqs[pos] {
		return exp + fmt.Sprintf(" seq=%d", t.seqs[pos]), desc + fmt.Sprintf(" seq=%d", it.SequenceNumber()), false
	}
	return exp, desc, true
}

// calls that never return cost seconds each: after a few of them the remaining cursor programs are not run any more
var sstHangs atomic.Int32

type sstRun struct {
	t     *sstTable
	rd    *sstable.Reader
	res   *sstResult
	limit int
}

func (r *sstRun) miss(kind string, step, tok int, exp, got, msg string) {
	r.res.NMism++
	if len(r.res.Mism) < r.limit {
		r.res.Mism = append(r.res.Mism, sstMismatch{Kind: kind, Step: step, T: tok, Exp: exp, Got: got, Msg: msg})
	}
}

// guarded runs f in its own goroutine: a panic or a call that does not return is an observation, not the end
// of the harness.  progress is what f reached (for the report).
func sstGuarded(d time.Duration, f func(progress *int)) (hung bool, panicked string, progress int) {
	done := make(chan string, 1)
	p := new(int)
	go func() {
		defer func() {
			if x := recover(); x != nil {
				done <- fmt.Sprint("panic: ", x)
			}
		}()
		f(p)
		done <- ""
	}()
	select {
	case s := <-done:
		return false, s, *p
	case <-time.After(d):
		return true, "", *p
	}
}

func (r *sstRun) guard(kind string, f func(progress *int)) {
	hung, pan, p := sstGuarded(20*time.Second, f)
	if hung {
		r.miss("hang", p, 0, kind+" returns", "call did not return within 20 s", "")
	} else if pan != "" {
		r.miss("panic", p, 0, kind+" returns", pan, "")
	}
}

func (r *sstRun) iterate(kind string, mk func() sstCursor) {
	t := r.t
	r.guard(kind, func(p *int) {
		it := mk()
		i := 0
		for it.SeekToFirst(); ; it.Next() {
			*p = i
			r.res.Calls++
			exp := 0
			if i < len(t.beh.Iter) {
				exp = t.beh.Iter[i]
			}
			if e, g, ok := t.at(it, exp); !ok {
				r.miss(kind, i, 0, e, g, fmt.Sprintf("item %d of the forward iteration", i+1))
				return
			}
			if exp == 0 {
				break
			}
			i++
		}
		if ei, ok := interface{}(it).(interface{ Error() error }); ok && ei.Error() != nil {
			r.miss(kind, i, 0, "no error", ei.Error().Error(), "Error() after a complete iteration")
		}
	})
}

func (r *sstRun) run() {
	t := r.t
	nt := 2*t.n + 1
	if len(t.beh.Seek) != nt || len(t.beh.Get) != nt {
		r.res.Infra = "behaviour: prediction tables do not cover the targets"
		return
	}
	r.iterate("iter", func() sstCursor { return r.rd.NewIterator() })
	r.iterate("adapter", func() sstCursor { return sstable.NewIteratorAdapter(r.rd.NewIterator()) })
	// Seek(t) on a fresh cursor, for every target
	r.guard("seek", func(p *int) {
		for tk := 1; tk <= nt; tk++ {
			tok := t.eff(tk)
			*p = tok
			it := r.rd.NewIterator()
			ret := it.Seek(t.target(tok, 10))
			r.res.Calls++
			if e, g, ok := t.at(it, t.beh.Seek[tok-1]); !ok {
				r.miss("seek", tok, tok, e, g, "Seek on a fresh cursor")
			} else if ret != (t.beh.Seek[tok-1] != 0) {
				r.miss("seek", tok, tok, fmt.Sprint("returns ", !ret), fmt.Sprint("returns ", ret), "")
			}
		}
	})
	// the same cursor re-used for all targets, in a scrambled order
	r.guard("reseek", func(p *int) {
		it := r.rd.NewIterator()
		for x := 0; x < nt; x++ {
			tok := t.eff(1 + int((uint64(x)*2654435761+t.seed)%uint64(nt)))
			*p = tok
			it.Seek(t.target(tok, 11))
			r.res.Calls++
			if e, g, ok := t.at(it, t.beh.Seek[tok-1]); !ok {
				r.miss("reseek", tok, tok, e, g, "Seek on a cursor that was positioned before")
			}
		}
	})
	r.guard("last", func(p *int) {
		it := r.rd.NewIterator()
		it.SeekToLast()
		r.res.Calls++
		if e, g, ok := t.at(it, t.beh.Last); !ok {
			r.miss("last", 0, 0, e, g, "SeekToLast on a fresh cursor")
		}
	})
	// Get of every present and absent key
	r.guard("get", func(p *int) {
		for tk := 1; tk <= nt; tk++ {
			tok := t.eff(tk)
			*p = tok
			v, err := r.rd.Get(t.target(tok, 12))
			r.res.Calls++
			exp := t.beh.Get[tok-1]
			switch {
			case exp < 0:
				r.res.Infra = "behaviour: the specification has no definite Get result"
			case exp == 0:
				if err == nil {
					r.miss("get", tok, tok, "not found", fmt.Sprintf("value of %d bytes", len(v)), "")
				} else if !errors.Is(err, sstable.ErrNotFound) {
					r.miss("get", tok, tok, "not found", "error "+err.Error(), "")
				}
			default:
				want := t.vals[exp]
				if err != nil {
					r.miss("get", tok, tok, fmt.Sprintf("entry %d (%s)", exp, t.beh.Ents[exp-1].C), "error "+err.Error(), "")
				} else if (want == nil) != (v == nil) || !bytes.Equal(v, want) {
					r.miss("get", tok, tok, fmt.Sprintf("entry %d (%s) nil=%v %d bytes", exp, t.beh.Ents[exp-1].C, want == nil, len(want)),
						fmt.Sprintf("nil=%v %d bytes equal=%v", v == nil, len(v), bytes.Equal(v, want)), "")
				}
			}
		}
	})
	// cursor programs
	var it sstCursor
	useAdapter := false
	hangs := 0
	for i := 0; i < len(t.beh.Prog) && hangs == 0 && sstHangs.Load() < 8; { // a call that hangs costs seconds: one per table is enough
		j := i
		for j < len(t.beh.Prog) && t.beh.Prog[j].A != "newiter" {
			j++
		}
		if useAdapter {
			it = sstable.NewIteratorAdapter(r.rd.NewIterator())
		} else {
			it = r.rd.NewIterator()
		}
		useAdapter = !useAdapter
		prog := t.beh.Prog[i:j]
		base := i
		hung, pan, p := sstGuarded(4*time.Second, func(p *int) {
			for x, st := range prog {
				*p = base + x
				switch st.A {
				case "seek":
					it.Seek(t.target(t.eff(st.T), uint64(20+x)))
				case "next":
					it.Next()
				case "first":
					it.SeekToFirst()
				case "last":
					it.SeekToLast()
				}
				r.res.Calls++
				if e, g, ok := t.at(it, st.Pos); !ok {
					r.miss("prog", base+x, st.T, e, g, "after "+sstProgString(prog[:x+1]))
					return
				}
			}
		})
		if hung {
			hangs++
			sstHangs.Add(1)
			r.miss("hang", p, 0, "call returns", "call did not return within 4 s", "in "+sstProgString(t.beh.Prog[i:p+1]))
		} else if pan != "" {
			r.miss("panic", p, 0, "call returns", pan, "in "+sstProgString(t.beh.Prog[i:p+1]))
		}
		i = j + 1
	}
}

func sstProgString(p []sstStep) string {
	var s []string
	for _, st := range p {
		if st.A == "seek" {
			s = append(s, fmt.Sprintf("Seek(%d)", st.T))
		} else {
			s = append(s, map[string]string{"next": "Next", "first": "SeekToFirst", "last": "SeekToLast"}[st.A])
		}
	}
	return strings.Join(s, ";")
}

// skew (binding self-test): after the file is written the expectation about entry 2 is falsified - "seq", "value" or
// "tomb" - and the comparison has to notice.
func (t *sstTable) skew(how string) {
	if t.n < 2 {
		return
	}
	switch how {
	case "seq":
		t.seqs[2]++
	case "value":
		t.vals[2] = append(append([]byte{}, t.vals[2]...), 'x')
	case "tomb":
		if t.vals[2] == nil {
			t.vals[2] = []byte{}
		} else if len(t.vals[2]) == 0 {
			t.vals[2] = nil
		} else {
			t.vals[2] = nil
		}
	}
}

func sstReplayOne(b int, beh *sstBeh, variant string, seed uint64, work string, limit int, skew string) (res sstResult) {
	res = sstResult{B: b, Variant: variant, Entries: len(beh.Ents), Blocks: len(beh.Lens)}
	t, err := newSSTTable(beh, variant, seed)
	if err != nil {
		res.Infra = err.Error()
		return res
	}
	path := filepath.Join(work, fmt.Sprintf("t%06d.sst", b))
	defer os.Remove(path)
	run := &sstRun{t: t, res: &res, limit: limit}
	if err := t.write(path); err != nil {
		run.miss("write", 0, 0, "table written", err.Error(), "")
		return res
	}
	data, err := os.ReadFile(path)
	if err != nil {
		res.Infra = err.Error()
		return res
	}
	res.Bytes = int64(len(data))
	t.skew(skew)
	// the harness decodes the layout itself to make sure the planned shape was reproduced; if it cannot, the verdict is
	// left to the comparison below (a writer that breaks the format shows there) and only a CLEAN run is called infra
	shape := ""
	if lay, err := sstParseLayout(data); err != nil {
		shape = err.Error()
	} else if len(lay.blocks) != len(beh.Lens) {
		shape = fmt.Sprintf("shape not reproduced: %d blocks for lengths %v", len(lay.blocks), beh.Lens)
	} else {
		for i, rb := range lay.blocks {
			if len(rb.entries) != beh.Lens[i] && shape == "" {
				shape = fmt.Sprintf("shape not reproduced: block %d has %d entries, planned %d", i+1, len(rb.entries), beh.Lens[i])
			}
		}
	}
	defer func() {
		if shape != "" && res.NMism == 0 && res.Infra == "" {
			res.Infra, res.Ok = shape, false
		}
	}()
	rd, err := sstable.OpenReader(path)
	if err != nil {
		run.miss("open", 0, 0, "table opens", err.Error(), "")
		return res
	}
	defer rd.Close()
	run.rd = rd
	run.run()
	res.Ok = res.NMism == 0 && res.Infra == ""
	return res
}

func sstReadBehs(path string) ([]*sstBeh, error) {
	var behs []*sstBeh
	err := readLines(path, func(line []byte) error {
		b := &sstBeh{}
		if err := json.Unmarshal(line, b); err != nil {
			return err
		}
		behs = append(behs, b)
		return nil
	})
	return behs, err
}

// sst-replay -in behaviours.ndjson -out results.ndjson -work dir -seed n [-variant v] [-par p]
func sstReplayCmd(args []string) int {
	fs := flag.NewFlagSet("sst-replay", flag.ExitOnError)
	in := fs.String("in", "", "behaviours (ndjson)")
	out := fs.String("out", "-", "results (ndjson)")
	work := fs.String("work", "", "scratch directory")
	seed := fs.Uint64("seed", 1, "seed")
	variant := fs.String("variant", "", "byte shape of keys and values (default: rotate)")
	par := fs.Int("par", 8, "parallel tables")
	limit := fs.Int("limit", 6, "mismatches reported per table")
	skew := fs.String("skew", "", "self-test: falsify the expectation about entry 2 (seq | value | tomb)")
	fs.Parse(args)
	behs, err := sstReadBehs(*in)
	if err != nil {
		fmt.Fprintln(os.Stderr, "sst-replay:", err)
		return 2
	}
	if err := os.MkdirAll(*work, 0755); err != nil {
		fmt.Fprintln(os.Stderr, "sst-replay:", err)
		return 2
	}
	o, err := newJSONOut(*out)
	if err != nil {
		fmt.Fprintln(os.Stderr, "sst-replay:", err)
		return 2
	}
	results := make([]sstResult, len(behs))
	var wg sync.WaitGroup
	sem := make(chan struct{}, *par)
	for b := range behs {
		wg.Add(1)
		sem <- struct{}{}
		go func(b int) {
			defer wg.Done()
			defer func() { <-sem }()
			v := *variant
			if v == "" {
				v = sstVariants[(uint64(b)+*seed)%uint64(len(sstVariants))]
			}
			results[b] = sstReplayOne(b, behs[b], v, *seed, *work, *limit, *skew)
		}(b)
	}
	wg.Wait()
	for _, r := range results {
		o.Put(r)
	}
	o.Close()
	return 0
}

// ---------------------------------------------------------------------------------------------
// sst-corrupt

type sstCase struct {
	Off  int    `json:"off"`
	Mode string `json:"mode"` // flip | zero | ones | forge (self-test: alter a byte AND repair the block checksum)
}
type sstCaseResult struct {
	F       int    `json:"f"` // table
	I       int    `json:"i"` // case number
	Off     int    `json:"off"`
	Mode    string `json:"mode"`
	Region  string `json:"region"`
	Outcome string `json:"outcome"` // openfail | error | subset | clean | fabricated | panic | hang | crash | same
	Detail  string `json:"detail,omitempty"`
}

func sstApply(data []byte, c sstCase) []byte {
	d := append([]byte{}, data...)
	switch c.Mode {
	case "flip", "forge":
		d[c.Off] ^= 0x01
	case "zero":
		d[c.Off] = 0x00
	case "ones":
		d[c.Off] = 0xFF
	}
	return d
}

// sstCases enumerates the corruption cases of one file: every offset, or all structure boundaries plus seeded interior.
func sstCases(data []byte, lay *sstLayout, every bool, samples int, seed uint64) []sstCase {
	var offs []int
	if every {
		for o := 0; o < len(data); o++ {
			offs = append(offs, o)
		}
	} else {
		set := map[int]bool{}
		add := func(o int) {
			if o >= 0 && o < len(data) {
				set[o] = true
			}
		}
		span := func(a, b int) { // first and last bytes of [a,b)
			for d := 0; d < 3; d++ {
				add(a + d)
				add(b - 1 - d)
			}
		}
		for bi, b := range lay.blocks {
			span(b.off, b.off+b.size)
			span(b.off+b.restartsOff, b.off+b.size-12)
			span(b.off+b.size-12, b.off+b.size-8)
			span(b.off+b.size-8, b.off+b.size)
			if nb := len(lay.blocks); (bi >= 2 && bi < nb-2 && bi != nb/2) || (nb > 6 && bi != 0 && bi != nb-1) {
				continue // entry-level offsets for the first, the middle and the last blocks only (many blocks: first and last)
			}
			for x, e := range b.entries {
				if x < 3 || x >= len(b.entries)-2 || x%16 == 0 || x%16 == 15 {
					for o := e.off; o < e.valOff; o++ { // every byte of the entry's header and key
						if o < e.off+40 || o >= e.valOff-14 {
							add(o)
						}
					}
					add(e.valOff)
					add(e.end - 1)
				}
			}
		}
		for i := range lay.bloomHdr {
			if nf := len(lay.bloomHdr); nf > 6 && i != 0 && i != nf/2 && i != nf-1 {
				add(lay.bloomHdr[i][0]) // many filters: every header byte of the first, the middle and the last one only
				add(lay.bloomHdr[i][0] + 8)
				add(lay.bloomParam[i][0])
				continue
			}
			for o := lay.bloomHdr[i][0]; o < lay.bloomParam[i][1]; o++ {
				add(o)
			}
			add(lay.bloomParam[i][1])
		}
		span(lay.bloomOff, lay.bloomOff+lay.bloomSize)
		if lay.indexSize <= 400 {
			for o := lay.indexOff; o < lay.footerOff; o++ {
				add(o)
			}
		}
		span(lay.indexOff, lay.indexOff+lay.indexSize)
		for o := lay.footerOff; o < len(data); o++ {
			add(o)
		}
		for x := 0; x < samples; x++ {
			h := sstMix(seed, uint64(x), 40)
			switch x % 4 {
			case 0, 1:
				add(int(h % uint64(len(data))))
			case 2: // bloom section
				if lay.bloomSize > 0 {
					add(lay.bloomOff + int(h%uint64(lay.bloomSize)))
				}
			default: // index
				add(lay.indexOff + int(h%uint64(lay.indexSize)))
			}
		}
		for o := range set {
			offs = append(offs, o)
		}
		sort.Ints(offs)
	}
	var cs []sstCase
	for _, o := range offs {
		for _, m := range []string{"flip", "zero", "ones"} {
			cs = append(cs, sstCase{Off: o, Mode: m})
		}
	}
	return cs
}

// sstForgeCases: self-test of the oracle - a value byte and a sequence-number byte are altered and the block checksum is
// repaired, so that the code under test cannot notice; the sweep has to call that "fabricated".
func sstForgeCases(lay *sstLayout) []sstCase {
	var cs []sstCase
	for _, b := range lay.blocks {
		for _, e := range b.entries {
			if e.valLen != 0xFFFFFFFF && e.valLen > 0 && len(cs) == 0 {
				cs = append(cs, sstCase{Off: e.valOff, Mode: "forge"})
			}
		}
		cs = append(cs, sstCase{Off: b.entries[len(b.entries)-1].seqOff + 1, Mode: "forge"},
			sstCase{Off: b.entries[0].valLenOff, Mode: "forge"})
		break
	}
	return cs
}

func sstRepairChecksum(d []byte, lay *sstLayout, off int) {
	for _, b := range lay.blocks {
		if off >= b.off && off < b.off+b.size {
			binary.LittleEndian.PutUint64(d[b.off+b.size-8:], xxhash.Sum64(d[b.off:b.off+b.size-8]))
		}
	}
}

// sstJudge opens a damaged copy and looks at everything it shows.
func (t *sstTable) sstJudge(path string) (string, string) {
	rd, err := sstable.OpenReader(path)
	if err != nil {
		return "openfail", err.Error()
	}
	defer rd.Close()
	failed, missing := "", 0
	bad := func(what string, it sstCursor) (string, string) {
		_, d := t.describe(it)
		return "fabricated", what + ": " + d
	}
	check := func(it sstCursor) bool { // true if what is shown is a written entry
		i, _ := t.describe(it)
		if i <= 0 {
			return false
		}
		_, _, ok := t.at(it, i)
		return ok
	}
	it := rd.NewIterator()
	seen := map[int]bool{}
	steps := 0
	for it.SeekToFirst(); it.Valid(); it.Next() {
		if !check(it) {
			return bad("forward iteration", it)
		}
		i, _ := t.describe(it)
		seen[i] = true
		steps++
		if steps > 4*t.n+16 {
			return "hang", "forward iteration does not end"
		}
	}
	if e := it.Error(); e != nil {
		failed = "iterator: " + e.Error()
	}
	missing += t.n - len(seen)
	it.SeekToLast()
	if it.Valid() && !check(it) {
		return bad("SeekToLast", it)
	}
	if e := it.Error(); e != nil && failed == "" {
		failed = "SeekToLast: " + e.Error()
	}
	nt := 2*t.n + 1
	stride := 1
	if nt > 140 {
		stride = nt / 70
	}
	for tk := 1; tk <= nt; tk += stride {
		tok := t.eff(tk)
		it2 := rd.NewIterator()
		it2.Seek(t.target(tok, 10))
		if it2.Valid() && !check(it2) {
			return bad(fmt.Sprintf("Seek(%d)", tok), it2)
		}
		if e := it2.Error(); e != nil && failed == "" {
			failed = fmt.Sprintf("Seek(%d): %s", tok, e.Error())
		}
		v, err := rd.Get(t.target(tok, 12))
		i := 0
		if tok%2 == 0 {
			i = tok / 2
		}
		switch {
		case err == nil && i == 0:
			return "fabricated", fmt.Sprintf("Get(%d): a value of %d bytes for a key that was never written", tok, len(v))
		case err == nil && ((v == nil) != (t.vals[i] == nil) || !bytes.Equal(v, t.vals[i])):
			return "fabricated", fmt.Sprintf("Get(%d): nil=%v %d bytes, written nil=%v %d bytes", tok, v == nil, len(v), t.vals[i] == nil, len(t.vals[i]))
		case err != nil && !errors.Is(err, sstable.ErrNotFound):
			if failed == "" {
				failed = fmt.Sprintf("Get(%d): %s", tok, err.Error())
			}
		case err != nil && i != 0:
			missing++
		}
	}
	if failed != "" {
		return "error", failed
	}
	if missing > 0 {
		return "subset", fmt.Sprintf("%d written entries not shown, no error", missing)
	}
	return "clean", ""
}

type sstSweepSpec struct {
	Beh     *sstBeh `json:"beh"`
	Variant string  `json:"variant"`
	Seed    uint64  `json:"seed"`
	Every   bool    `json:"every"`
	Samples int     `json:"samples"`
	Forge   bool    `json:"forge"`
	Only    []sstCase `json:"only,omitempty"`
}

func (s *sstSweepSpec) prepare(work string, f int) (*sstTable, []byte, *sstLayout, []sstCase, error) {
	t, err := newSSTTable(s.Beh, s.Variant, s.Seed)
	if err != nil {
		return nil, nil, nil, nil, err
	}
	path := filepath.Join(work, fmt.Sprintf("pristine-%d.sst", f))
	if _, err := os.Stat(path); err != nil {
		if err := t.write(path); err != nil {
			return nil, nil, nil, nil, err
		}
	}
	data, err := os.ReadFile(path)
	if err != nil {
		return nil, nil, nil, nil, err
	}
	lay, err := sstParseLayout(data)
	if err != nil {
		return nil, nil, nil, nil, err
	}
	var cs []sstCase
	switch {
	case len(s.Only) > 0:
		cs = s.Only
	case s.Forge:
		cs = sstForgeCases(lay)
	default:
		cs = sstCases(data, lay, s.Every, s.Samples, s.Seed)
	}
	return t, data, lay, cs, nil
}

// sst-corrupt-worker -spec sweep.json -f n -work dir -worker w -of p -from k -out part.ndjson
// judges cases w, w+p, w+2p, ... starting at the k-th of them; one line "begin" and one line result per case.
func sstCorruptWorkerCmd(args []string) int {
	fs := flag.NewFlagSet("sst-corrupt-worker", flag.ExitOnError)
	specPath := fs.String("spec", "", "")
	f := fs.Int("f", 0, "")
	work := fs.String("work", "", "")
	worker := fs.Int("worker", 0, "")
	of := fs.Int("of", 1, "")
	from := fs.Int("from", 0, "")
	out := fs.String("out", "", "")
	fs.Parse(args)
	// a damaged length field must not take the machine down with it
	lim := syscall.Rlimit{Cur: 6 << 30, Max: 6 << 30}
	syscall.Setrlimit(syscall.RLIMIT_AS, &lim)
	raw, err := os.ReadFile(*specPath)
	if err != nil {
		fmt.Fprintln(os.Stderr, "sst-corrupt-worker:", err)
		return 2
	}
	var spec sstSweepSpec
	if err := json.Unmarshal(raw, &spec); err != nil {
		fmt.Fprintln(os.Stderr, "sst-corrupt-worker:", err)
		return 2
	}
	t, data, lay, cs, err := spec.prepare(*work, *f)
	if err != nil {
		fmt.Fprintln(os.Stderr, "sst-corrupt-worker:", err)
		return 2
	}
	o, err := os.OpenFile(*out, os.O_WRONLY|os.O_CREATE|os.O_APPEND, 0644)
	if err != nil {
		fmt.Fprintln(os.Stderr, "sst-corrupt-worker:", err)
		return 2
	}
	defer o.Close()
	put := func(v interface{}) {
		b, _ := json.Marshal(v)
		o.Write(append(b, '\n'))
	}
	path := filepath.Join(*work, fmt.Sprintf("damaged-%d-%d.sst", *f, *worker))
	defer os.Remove(path)
	var mu sync.Mutex
	current, started := -1, time.Now()
	go func() { // watchdog: a call that does not return
		for {
			time.Sleep(500 * time.Millisecond)
			mu.Lock()
			c, s := current, started
			mu.Unlock()
			if c >= 0 && time.Since(s) > 30*time.Second {
				put(sstCaseResult{F: *f, I: c, Off: cs[c].Off, Mode: cs[c].Mode, Region: lay.region(cs[c].Off), Outcome: "hang",
					Detail: "no answer within 30 s"})
				os.Exit(3)
			}
		}
	}()
	k := 0
	for i := *worker; i < len(cs); i += *of {
		if k < *from {
			k++
			continue
		}
		k++
		c := cs[i]
		d := sstApply(data, c)
		if c.Mode == "forge" {
			sstRepairChecksum(d, lay, c.Off)
		}
		res := sstCaseResult{F: *f, I: i, Off: c.Off, Mode: c.Mode, Region: lay.region(c.Off)}
		if bytes.Equal(d, data) {
			res.Outcome = "same" // the byte already had that value
			put(res)
			continue
		}
		if err := os.WriteFile(path, d, 0644); err != nil {
			fmt.Fprintln(os.Stderr, "sst-corrupt-worker:", err)
			return 2
		}
		put(map[string]int{"begin": i})
		mu.Lock()
		current, started = i, time.Now()
		mu.Unlock()
		func() {
			defer func() {
				if x := recover(); x != nil {
					res.Outcome, res.Detail = "panic", fmt.Sprint(x)
				}
			}()
			res.Outcome, res.Detail = t.sstJudge(path)
		}()
		mu.Lock()
		current = -1
		mu.Unlock()
		put(res)
	}
	return 0
}

// sst-corrupt -spec sweep.json -f n -work dir -par p -out results.ndjson
func sstCorruptCmd(args []string) int {
	fs := flag.NewFlagSet("sst-corrupt", flag.ExitOnError)
	specPath := fs.String("spec", "", "sweep description (json)")
	f := fs.Int("f", 0, "table number (for the report)")
	work := fs.String("work", "", "scratch directory")
	par := fs.Int("par", 8, "worker processes")
	out := fs.String("out", "-", "results (ndjson)")
	fs.Parse(args)
	fail := func(err error) int {
		fmt.Fprintln(os.Stderr, "sst-corrupt:", err)
		return 2
	}
	if err := os.MkdirAll(*work, 0755); err != nil {
		return fail(err)
	}
	raw, err := os.ReadFile(*specPath)
	if err != nil {
		return fail(err)
	}
	var spec sstSweepSpec
	if err := json.Unmarshal(raw, &spec); err != nil {
		return fail(err)
	}
	_, _, lay, cs, err := spec.prepare(*work, *f) // writes the pristine file once
	if err != nil {
		return fail(err)
	}
	if len(cs) < *par {
		*par = len(cs)
	}
	self, _ := os.Executable()
	type part struct {
		res []sstCaseResult
		err error
	}
	parts := make([]part, *par)
	var wg sync.WaitGroup
	for w := 0; w < *par; w++ {
		wg.Add(1)
		go func(w int) {
			defer wg.Done()
			mine := 0
			for i := w; i < len(cs); i += *par {
				mine++
			}
			pf := filepath.Join(*work, fmt.Sprintf("part-%d-%d.ndjson", *f, w))
			from, restarts := 0, 0
			for from < mine {
				os.Remove(pf)
				cmd := exec.Command(self, "sst-corrupt-worker", "-spec", *specPath, "-f", fmt.Sprint(*f), "-work", *work,
					"-worker", fmt.Sprint(w), "-of", fmt.Sprint(*par), "-from", fmt.Sprint(from), "-out", pf)
				var stderr bytes.Buffer
				cmd.Stderr = &stderr
				runErr := cmd.Run()
				begun, doneN := -1, 0
				readLines(pf, func(line []byte) error {
					var m map[string]interface{}
					if json.Unmarshal(line, &m) != nil {
						return nil
					}
					if b, ok := m["begin"]; ok {
						begun = int(b.(float64))
						return nil
					}
					var r sstCaseResult
					json.Unmarshal(line, &r)
					parts[w].res = append(parts[w].res, r)
					doneN++
					if r.I == begun {
						begun = -1
					}
					return nil
				})
				from += doneN
				if runErr == nil {
					break
				}
				if begun >= 0 { // the process died inside this case
					tail := stderr.String()
					if len(tail) > 600 {
						tail = tail[:600]
					}
					parts[w].res = append(parts[w].res, sstCaseResult{F: *f, I: begun, Off: cs[begun].Off, Mode: cs[begun].Mode,
						Region: lay.region(cs[begun].Off), Outcome: "crash", Detail: strings.TrimSpace(tail)})
					from++
				} else if doneN == 0 {
					parts[w].err = fmt.Errorf("worker %d: %v: %s", w, runErr, stderr.String())
					return
				}
				restarts++
				if restarts > 2000 {
					parts[w].err = fmt.Errorf("worker %d: too many restarts", w)
					return
				}
			}
			os.Remove(pf)
		}(w)
	}
	wg.Wait()
	var all []sstCaseResult
	for _, p := range parts {
		if p.err != nil {
			return fail(p.err)
		}
		all = append(all, p.res...)
	}
	if len(all) != len(cs) {
		return fail(fmt.Errorf("%d results for %d cases", len(all), len(cs)))
	}
	sort.Slice(all, func(a, b int) bool { return all[a].I < all[b].I })
	o, err := newJSONOut(*out)
	if err != nil {
		return fail(err)
	}
	for _, r := range all {
		o.Put(r)
	}
	o.Close()
	os.Remove(filepath.Join(*work, fmt.Sprintf("pristine-%d.sst", *f)))
	return 0
}
