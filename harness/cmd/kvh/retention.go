package main

import (
	"bufio"
	"bytes"
	"context"
	"encoding/json"
	"flag"
	"fmt"
	"os"
	"os/exec"
	"path/filepath"
	"sort"
	"time"

	"github.com/KevoDB/kevo/pkg/verifhook"
	"github.com/KevoDB/kevo/pkg/wal"
	rproto "github.com/KevoDB/kevo/proto/kevo/replication"
	"google.golang.org/grpc"
	"google.golang.org/grpc/credentials/insecure"
	"google.golang.org/grpc/metadata"
)

// ackClient is a replication client that follows the protocol as documented: it opens StreamWAL from sequence 0, reads
// what it is sent, and acknowledges the highest sequence number it has received (the real Replica applies and syncs
// before it would acknowledge; for the primary the request is the same).
type ackClient struct {
	conn    *grpc.ClientConn
	client  rproto.WALReplicationServiceClient
	session string
	maxSeq  chan uint64
	cancel  context.CancelFunc
}

func attachAckClient(addr string) (*ackClient, error) {
	ctx, cancel := context.WithTimeout(context.Background(), 10*time.Second)
	defer cancel()
	conn, err := grpc.DialContext(ctx, addr, grpc.WithTransportCredentials(insecure.NewCredentials()), grpc.WithBlock(),
		grpc.WithDefaultCallOptions(grpc.MaxCallRecvMsgSize(64<<20)))
	if err != nil {
		return nil, err
	}
	c := &ackClient{conn: conn, client: rproto.NewWALReplicationServiceClient(conn), maxSeq: make(chan uint64, 1024)}
	sctx, scancel := context.WithCancel(context.Background())
	c.cancel = scancel
	stream, err := c.client.StreamWAL(sctx, &rproto.WALStreamRequest{StartSequence: 0, ProtocolVersion: 1, ListenerAddress: "ack-client:1"})
	if err != nil {
		return nil, err
	}
	md, err := stream.Header()
	if err != nil {
		return nil, err
	}
	if ids := md.Get("session-id"); len(ids) > 0 {
		c.session = ids[0]
	}
	go func() {
		for {
			m, err := stream.Recv()
			if err != nil {
				return
			}
			for _, e := range m.Entries {
				c.maxSeq <- e.SequenceNumber
			}
		}
	}()
	return c, nil
}

// waitFor reads the stream until an entry numbered seq or higher has arrived
func (c *ackClient) waitFor(seq uint64, max time.Duration) (uint64, bool) {
	got := uint64(0)
	t := time.After(max)
	for got < seq {
		select {
		case s := <-c.maxSeq:
			if s > got {
				got = s
			}
		case <-t:
			return got, false
		}
	}
	return got, true
}

func (c *ackClient) acknowledge(seq uint64) (bool, string) {
	ctx, cancel := context.WithTimeout(metadata.NewOutgoingContext(context.Background(), metadata.Pairs("session-id", c.session)), 5*time.Second)
	defer cancel()
	resp, err := c.client.Acknowledge(ctx, &rproto.Ack{AcknowledgedUpTo: seq})
	if err != nil {
		return false, err.Error()
	}
	return resp.Success, resp.Message
}

func init() {
	register("retention-crash", retentionCrashCmd)
	register("retention-replay", retentionReplayCmd)
	register("retention-life", retentionLifeCmd)
}

// retention-crash: C02 with the node running as a replication PRIMARY.  The only code in kevo that ever deletes log
// files is the primary's retention (Primary.maybeManageWALRetention -> WAL.ManageRetention), driven by what the replicas
// have acknowledged.  The specification's Retire action may delete a log file only when everything in it is in table
// files; this scenario decides whether the code keeps to that.
//
//	phase write   : standalone engine, synchronous logging; put k1..kN (every put acknowledged = synced), die without Close
//	phase tear    : the process died inside the next append: a partial record header is behind the last complete record
//	phase primary : reopen as primary (recovery replays the log into memory; the damaged file is not reused, a new log
//	                file is started), a real replica joins, one more put; wait until the replica has converged and
//	                acknowledged; list the log files; die without Close
//	phase observe : reopen standalone, print what every key reads as
func retentionCrashCmd(args []string) int {
	fs := flag.NewFlagSet("retention-crash", flag.ExitOnError)
	dir := fs.String("dir", "", "scratch directory (p = primary database, r = replica database)")
	phase := fs.String("phase", "", "write | tear | primary | observe")
	n := fs.Int("n", 5, "keys written before the first crash")
	wait := fs.Int("wait", 6000, "ms to wait for the replica to converge and acknowledge")
	flush := fs.Bool("flush", false, "phase primary: flush the primary's memtables before the replica joins (control: everything is in table files)")
	fs.Parse(args)
	stdout := os.Stdout
	replQuietLogs(os.Getenv("VERIF_KEVO_LOG"))
	wal.DisableRecoveryLogs = true
	cc := &CfgClass{MemTableSize: 1 << 20, MaxMemTables: 4, SyncMode: 2, CompactSec: 3600}
	pdir := filepath.Join(*dir, "p")
	key := func(i int) []byte { return []byte(fmt.Sprintf("k%d", i)) }
	val := func(i int) []byte { return []byte(fmt.Sprintf("v%d", i)) }
	walFiles := func() []string {
		fl, _ := wal.FindWALFiles(filepath.Join(pdir, "wal"))
		out := []string{}
		for _, f := range fl {
			out = append(out, filepath.Base(f))
		}
		sort.Strings(out)
		return out
	}
	emit := func(m map[string]interface{}) {
		b, _ := json.Marshal(m)
		fmt.Fprintln(stdout, string(b))
	}
	switch *phase {
	case "write":
		eng, err := openEngine(pdir, cc)
		if err != nil {
			fmt.Fprintln(os.Stderr, err)
			return 2
		}
		acked := 0
		for i := 1; i <= *n; i++ {
			if err := eng.Put(key(i), val(i)); err != nil {
				fmt.Fprintln(os.Stderr, err)
				return 2
			}
			acked = i
		}
		emit(map[string]interface{}{"e": "written", "acked": acked, "wal": walFiles()})
		os.Exit(0) // no Close: the process is gone
	case "tear":
		fl, _ := wal.FindWALFiles(filepath.Join(pdir, "wal"))
		if len(fl) == 0 {
			return 2
		}
		f, err := os.OpenFile(fl[len(fl)-1], os.O_WRONLY|os.O_APPEND, 0644)
		if err != nil {
			return 2
		}
		f.Write([]byte{0x12, 0x34, 0x56, 0x78, 0x20}) // 5 of the 7 header bytes of the record that was being appended
		f.Close()
		emit(map[string]interface{}{"e": "torn", "wal": walFiles()})
	case "primary":
		addr := replFreeAddr()
		p, err := startReplPrimary(pdir, addr, cc, nil)
		if err != nil {
			fmt.Fprintln(os.Stderr, "primary:", err)
			return 2
		}
		before := walFiles()
		if *flush {
			if err := p.eng.FlushImMemTables(); err != nil {
				fmt.Fprintln(os.Stderr, "flush:", err)
				return 2
			}
		}
		c, err := attachAckClient(addr)
		if err != nil {
			fmt.Fprintln(os.Stderr, "client:", err)
			return 2
		}
		if err := p.eng.Put(key(*n+1), val(*n+1)); err != nil {
			fmt.Fprintln(os.Stderr, err)
			return 2
		}
		// the client has received everything up to the last write and acknowledges it
		got, conv := c.waitFor(uint64(*n+1), time.Duration(*wait)*time.Millisecond)
		okAck, msg := c.acknowledge(got)
		time.Sleep(100 * time.Millisecond)
		emit(map[string]interface{}{"e": "primary", "acked": *n + 1, "converged": conv, "received": got, "ack_ok": okAck, "ack_msg": msg,
			"wal_before": before, "wal_after": walFiles()})
		os.Exit(0) // no Close, no Stop: the process is gone
	case "observe":
		eng, err := openEngine(pdir, cc)
		if err != nil {
			emit(map[string]interface{}{"e": "observe", "error": err.Error()})
			return 0
		}
		st := map[string]string{}
		for i := 1; i <= *n+1; i++ {
			v, err := eng.Get(key(i))
			switch {
			case err == nil:
				st[string(key(i))] = string(v)
			case isNotFound(err):
				st[string(key(i))] = "NONE"
			default:
				st[string(key(i))] = "ERR " + err.Error()
			}
		}
		emit(map[string]interface{}{"e": "observe", "state": st, "wal": walFiles()})
		eng.Close()
	default:
		return 2
	}
	return 0
}

// ---------------------------------------------------------------------------------------------------------------
// retention-replay: behaviours generated by TLC from GEN_Retention are performed on a real primary.  Every life
// (Recover .. Die) is one child process (retention-life) that opens the database as a replication primary, attaches
// the acknowledging client, compares the state with the specification's prediction after every step and is gone
// without Close at "die"; a torn crash leaves a partial record header behind the last complete record.

type retStep struct {
	A        string  `json:"a"`
	S        uint64  `json:"s"`
	Torn     bool    `json:"torn"`
	Files    [][]int `json:"files"`
	Readable []int   `json:"readable"`
	Next     uint64  `json:"next"`
	Uf       uint64  `json:"uf"`
	Up       bool    `json:"up"`
	Busy     bool    `json:"busy"`
}

func retKey(s uint64) []byte { return []byte(fmt.Sprintf("k%03d", s)) }
func retVal(s uint64) []byte { return []byte(fmt.Sprintf("value-of-%03d", s)) }

// retBigVal fills a memory table of 4096 bytes on its own
func retBigVal(s uint64) []byte {
	return append(retVal(s), bytes.Repeat([]byte{'.'}, 5000-len(retVal(s)))...)
}

// flushGate: every pass of the flush path through sm.flush.begin waits until the harness has seen it and lets it go, so that
// the background flush runs exactly where the specification's walk has it (and a timer-driven flush never runs)
type flushGate struct {
	arrive chan struct{}
	goon   chan struct{}
}

func newFlushGate() *flushGate {
	fg := &flushGate{arrive: make(chan struct{}), goon: make(chan struct{})}
	verifhook.SetGate(func(site string, a, b uint64) {
		if site == "sm.flush.begin" {
			fg.arrive <- struct{}{}
			<-fg.goon
		}
	})
	return fg
}

func (fg *flushGate) parked(max time.Duration) bool {
	select {
	case <-fg.arrive:
		return true
	case <-time.After(max):
		return false
	}
}

// pass lets the parked flush run and waits until it has finished
func (fg *flushGate) pass(max time.Duration) bool {
	before := verifhook.Count("sm.flush.end")
	fg.goon <- struct{}{}
	deadline := time.Now().Add(max)
	for time.Now().Before(deadline) {
		if verifhook.Count("sm.flush.end") > before {
			return true
		}
		time.Sleep(time.Millisecond)
	}
	return false
}

func retClass(tiny, queued bool) *CfgClass {
	if queued {
		return &CfgClass{MemTableSize: 4096, MaxMemTables: 64, SyncMode: 2, CompactSec: 3600}
	}
	if tiny {
		return &CfgClass{MemTableSize: 1, MaxMemTables: 64, SyncMode: 2, CompactSec: 3600}
	}
	return &CfgClass{MemTableSize: 1 << 20, MaxMemTables: 4, SyncMode: 2, CompactSec: 3600}
}

// retLogFiles: the sequence numbers stored in every log file, in name order
func retLogFiles(walDir string) ([][]int, error) {
	fl, err := wal.FindWALFiles(walDir)
	if err != nil {
		return nil, err
	}
	out := [][]int{}
	for _, f := range fl {
		seqs := []int{}
		// errors are the damage a torn crash leaves behind: what is in front of it counts
		wal.ReplayWALFile(f, func(e *wal.Entry) error {
			seqs = append(seqs, int(e.SequenceNumber))
			return nil
		})
		out = append(out, seqs)
	}
	return out, nil
}

func retentionLifeCmd(args []string) int {
	fs := flag.NewFlagSet("retention-life", flag.ExitOnError)
	dir := fs.String("dir", "", "database directory")
	stepsJSON := fs.String("steps", "", "JSON: steps of this life; the first one is the state expected after opening")
	tiny := fs.Bool("tiny", false, "memory table of one byte")
	queued := fs.Bool("queued", false, "memory table of 4096 bytes, large values fill it, the background flush runs as a step of the walk")
	maxSeq := fs.Uint64("maxseq", 6, "keys k1..kN are read back")
	fs.Parse(args)
	stdout := os.Stdout
	replQuietLogs(os.Getenv("VERIF_KEVO_LOG"))
	wal.DisableRecoveryLogs = true
	var steps []retStep
	if err := json.Unmarshal([]byte(*stepsJSON), &steps); err != nil {
		fmt.Fprintln(os.Stderr, err)
		return 2
	}
	emit := func(m map[string]interface{}) {
		b, _ := json.Marshal(m)
		fmt.Fprintln(stdout, string(b))
	}
	addr := replFreeAddr()
	fg := newFlushGate()
	p, err := startReplPrimary(*dir, addr, retClass(*tiny, *queued), nil)
	if err != nil {
		emit(map[string]interface{}{"i": 0, "ok": false, "what": "open as primary failed: " + err.Error()})
		return 0
	}
	c, err := attachAckClient(addr)
	if err != nil {
		fmt.Fprintln(os.Stderr, "client:", err)
		return 2
	}
	received := uint64(0)
	observe := func(i int, st retStep, extra string) bool {
		got, err := retLogFiles(filepath.Join(*dir, "wal"))
		if err != nil {
			emit(map[string]interface{}{"i": i, "ok": false, "what": "cannot list the log: " + err.Error()})
			return false
		}
		exp := st.Files
		if exp == nil {
			exp = [][]int{}
		}
		gb, _ := json.Marshal(got)
		eb, _ := json.Marshal(exp)
		want := map[int]bool{}
		for _, s := range st.Readable {
			want[s] = true
		}
		bad := ""
		for s := uint64(1); s <= *maxSeq; s++ {
			v, err := p.eng.Get(retKey(s))
			switch {
			case err == nil && want[int(s)] && (bytes.Equal(v, retVal(s)) || bytes.Equal(v, retBigVal(s))):
			case isNotFound(err) && !want[int(s)]:
			case err == nil:
				bad += fmt.Sprintf(" %s reads %q (expected: %v)", retKey(s), v, want[int(s)])
			default:
				bad += fmt.Sprintf(" %s: %v (expected present: %v)", retKey(s), err, want[int(s)])
			}
		}
		w := p.eng.GetWAL()
		next := w.GetNextSequence()
		uf, hasUf := uint64(0), false
		if u, ok := interface{}(w).(interface{ UnflushedFrom() uint64 }); ok {
			uf, hasUf = u.UnflushedFrom(), true
		}
		ok := bad == "" && string(gb) == string(eb) && next == st.Next && (!hasUf || uf == st.Uf)
		m := map[string]interface{}{"i": i, "ok": ok, "a": st.A, "s": st.S}
		if !ok {
			m["what"] = fmt.Sprintf("%s: log files %s (specification: %s); next sequence %d (%d); unflushedFrom %d (%d);%s", extra, gb, eb, next, st.Next, uf, st.Uf, bad)
		}
		emit(m)
		return ok
	}
	if !observe(0, steps[0], "after opening") {
		os.Exit(0)
	}
	for i := 1; i < len(steps); i++ {
		st := steps[i]
		fail := func(what string) {
			emit(map[string]interface{}{"i": i, "ok": false, "what": what})
			os.Exit(0)
		}
		switch st.A {
		case "put", "putbig":
			v := retVal(st.S)
			if st.A == "putbig" {
				v = retBigVal(st.S)
			}
			if err := p.eng.Put(retKey(st.S), v); err != nil {
				fail("put failed: " + err.Error())
			}
			switch {
			case *tiny:
				// the table is full: switched, background flush signalled; it runs to its end here
				if !fg.parked(5*time.Second) || !fg.pass(10*time.Second) {
					fail("the background flush did not run after a write that filled the table")
				}
			case *queued && st.Busy && !steps[i-1].Busy:
				// the goroutine takes the signal and stands at the start of FlushMemTables
				if !fg.parked(5 * time.Second) {
					fail("the background flush did not start after a write that filled the table")
				}
			}
		case "bgrun":
			if !fg.pass(10 * time.Second) {
				fail("the background flush did not finish")
			}
			if st.Busy && !fg.parked(5*time.Second) {
				fail("the background flush did not start over although a signal was buffered")
			}
		case "flush":
			done := make(chan error, 1)
			go func() { done <- p.eng.FlushImMemTables() }()
			if !fg.parked(5*time.Second) || !fg.pass(10*time.Second) {
				fail("the explicit flush did not run")
			}
			if err := <-done; err != nil {
				fail("flush failed: " + err.Error())
			}
		case "retaincount":
			// the file-count policy, called directly on the live log: keep the current file only
			if _, err := p.eng.GetWAL().ManageRetention(wal.WALRetentionConfig{MaxFileCount: 1}); err != nil {
				fail("ManageRetention failed: " + err.Error())
			}
		case "ack":
			if received < st.S {
				got, _ := c.waitFor(st.S, 5*time.Second)
				if got > received {
					received = got
				}
			}
			if received < st.S {
				emit(map[string]interface{}{"i": i, "ok": false, "infra": true, "what": fmt.Sprintf("the client has received up to %d only, cannot acknowledge %d", received, st.S)})
				os.Exit(0)
			}
			if ok, msg := c.acknowledge(st.S); !ok {
				emit(map[string]interface{}{"i": i, "ok": false, "what": "Acknowledge refused: " + msg})
				os.Exit(0)
			}
		case "die":
			emit(map[string]interface{}{"i": i, "ok": true, "a": "die"})
			os.Exit(0) // no Close, no Stop
		}
		if !observe(i, st, "after "+st.A) {
			os.Exit(0)
		}
	}
	os.Exit(0)
	return 0
}

func retentionReplayCmd(args []string) int {
	fs := flag.NewFlagSet("retention-replay", flag.ExitOnError)
	in := fs.String("in", "", "behaviours (ndjson, one JSON array of steps per line)")
	work := fs.String("work", "", "scratch directory")
	out := fs.String("out", "", "results (ndjson)")
	tiny := fs.Bool("tiny", false, "memory table of one byte (every put switches and flushes)")
	queued := fs.Bool("queued", false, "memory table of 4096 bytes; the background flush is a step of the walk")
	maxSeq := fs.Uint64("maxseq", 6, "keys read back")
	fs.Parse(args)
	self, _ := os.Executable()
	f, err := os.Open(*in)
	if err != nil {
		fmt.Fprintln(os.Stderr, err)
		return 2
	}
	defer f.Close()
	of, err := os.Create(*out)
	if err != nil {
		fmt.Fprintln(os.Stderr, err)
		return 2
	}
	defer of.Close()
	sc := bufio.NewScanner(f)
	sc.Buffer(make([]byte, 1<<20), 1<<26)
	b := -1
	for sc.Scan() {
		b++
		var steps []retStep
		if err := json.Unmarshal(sc.Bytes(), &steps); err != nil {
			fmt.Fprintln(os.Stderr, err)
			return 2
		}
		dir := filepath.Join(*work, fmt.Sprintf("b%d", b))
		os.RemoveAll(dir)
		res := map[string]interface{}{"b": b, "ok": true, "steps": 0}
		// the initial state stands for "recover" of an empty directory; a final die + recover checks what survives
		initial := retStep{A: "recover", Files: [][]int{{}}, Readable: []int{}, Next: 1, Uf: 1, Up: true}
		all := append([]retStep{initial}, steps...)
		if last := all[len(all)-1]; last.Up {
			fin := last
			fin.A, fin.Torn = "die", false
			rec := last
			rec.A = "recover"
			rec.Uf = 1
			all = append(all, fin, rec)
		}
		life := []retStep{}
		base := 0
		run := func() bool {
			sj, _ := json.Marshal(life)
			cctx, ccancel := context.WithTimeout(context.Background(), 90*time.Second)
			defer ccancel()
			cmd := exec.CommandContext(cctx, self, "retention-life", "-dir", dir, "-steps", string(sj), "-maxseq", fmt.Sprint(*maxSeq))
			if *tiny {
				cmd.Args = append(cmd.Args, "-tiny")
			}
			if *queued {
				cmd.Args = append(cmd.Args, "-queued")
			}
			var stderr bytes.Buffer
			cmd.Stderr = &stderr
			outb, err := cmd.Output()
			n := 0
			for _, line := range bytes.Split(outb, []byte("\n")) {
				if len(line) == 0 || line[0] != '{' {
					continue
				}
				var m map[string]interface{}
				if json.Unmarshal(line, &m) != nil {
					continue
				}
				n++
				if okv, _ := m["ok"].(bool); !okv {
					res["ok"] = false
					res["step"] = base + int(m["i"].(float64))
					res["what"] = m["what"]
					if inf, _ := m["infra"].(bool); inf {
						res["infra"] = true
					}
					return false
				}
			}
			if cctx.Err() != nil {
				// a primary that hangs is the subject of C15; here it only means that this walk could not be judged
				res["ok"] = false
				res["infra"] = true
				res["step"] = base + n
				res["what"] = fmt.Sprintf("the process running the primary did not finish within 90 s (after %d of %d steps)", n, len(life))
				return false
			}
			if err != nil || n < len(life) {
				res["ok"] = false
				res["step"] = base + n
				res["what"] = fmt.Sprintf("the process running the primary ended early (%v) after %d of %d steps: %s", err, n, len(life), lastBytes(stderr.String(), 600))
				res["died"] = true
				return false
			}
			return true
		}
		okAll := true
		for i, st := range all {
			if st.A == "recover" {
				life = []retStep{st}
				base = i
				continue
			}
			life = append(life, st)
			if st.A == "die" {
				if !run() {
					okAll = false
					break
				}
				if st.Torn {
					fl, _ := wal.FindWALFiles(filepath.Join(dir, "wal"))
					if len(fl) > 0 {
						if fh, err := os.OpenFile(fl[len(fl)-1], os.O_WRONLY|os.O_APPEND, 0644); err == nil {
							fh.Write([]byte{0x12, 0x34, 0x56, 0x78, 0x20})
							fh.Close()
						}
					}
				}
				life = nil
			}
		}
		if okAll && len(life) > 0 {
			// the walk ends on a recovered node (added above): check its state, then let it go
			life = append(life, retStep{A: "die"})
			okAll = run()
		}
		res["steps"] = len(all)
		jb, _ := json.Marshal(res)
		fmt.Fprintln(of, string(jb))
		os.RemoveAll(dir)
	}
	return 0
}

func lastBytes(s string, n int) string {
	if len(s) > n {
		return s[len(s)-n:]
	}
	return s
}
