package main

import (
	"context"
	"flag"
	"fmt"
	"os"
	"strings"
	"time"

	"github.com/KevoDB/kevo/pkg/transaction"
	"github.com/KevoDB/kevo/pkg/verifhook"
	"github.com/KevoDB/kevo/pkg/wal"
)

func init() { register("txn-registry", txnRegistryCmd) }

// txn-registry: C17 scenarios through transaction.Registry - abandoned transactions reaped by idle limit, lifetime limit,
// connection cleanup and shutdown; a begin that times out while it waits for the lock.  After each scenario the PROBE:
// a fresh read-write transaction must be granted within a deadline (nobody may be left holding the lock).
func txnRegistryCmd(args []string) int {
	fs := flag.NewFlagSet("txn-registry", flag.ExitOnError)
	dir := fs.String("dir", "", "database directory")
	out := fs.String("out", "", "trace (ndjson)")
	scen := fs.String("scenario", "idle", "idle | ttl | conn | shutdown | timeout-rw | timeout-ro | deadline-rw | deadline-ro | cancel-rw | cancel-ro")
	fs.Parse(args)
	stderr := os.Stderr
	muteStdout()
	wal.DisableRecoveryLogs = true
	conc := Conc{Class: "ascii"}
	eng, err := openEngine(*dir, &CfgClass{MemTableSize: 1 << 20, SyncMode: 0, CompactSec: 3600})
	if err != nil {
		fmt.Fprintln(stderr, err)
		return 2
	}
	log, err := newEvLog(*out)
	if err != nil {
		fmt.Fprintln(stderr, err)
		return 2
	}
	tr := &txTracer{log: log, anon: true}
	verifhook.SetGate(tr.hook)
	log.ev(map[string]interface{}{"e": "reset"})
	ttl, idle := 10*time.Second, 10*time.Second
	ro := strings.HasSuffix(*scen, "-ro") && !strings.HasPrefix(*scen, "timeout") && !strings.HasPrefix(*scen, "deadline") && !strings.HasPrefix(*scen, "cancel")
	if ro {
		// the abandoned transaction is a read-only one: it holds the lock shared, a writer waits behind it all the same
		*scen = strings.TrimSuffix(*scen, "-ro")
	}
	switch *scen {
	case "idle":
		idle = 50 * time.Millisecond
	}
	// NB: the lifetime limit that CleanupStaleTransactions enforces is the transaction's own TTL (set by the engine's
	// transaction manager: 60 s for read-write transactions), not the registry's ttl argument; scenario "ttl" waits it out.
	reg := transaction.NewRegistryWithTTL(ttl, idle, 75, 90)
	ctxOf := func(conn string) context.Context { return context.WithValue(context.Background(), "peer", conn) }

	probe := func() bool {
		// a fresh writer must get the lock
		done := make(chan bool, 1)
		go func() {
			tr.register("c9")
			defer tr.unregister()
			log.ev(map[string]interface{}{"e": "breq", "c": "c9", "mode": "rw"})
			tx, err := eng.BeginTransaction(false)
			if err != nil {
				done <- false
				return
			}
			log.ev(map[string]interface{}{"e": "get", "c": "c9", "k": "k1", "res": tokOf(conc, firstOf(tx.Get(conc.Key("k1"))), secondOf(tx.Get(conc.Key("k1"))), txVals)})
			log.ev(map[string]interface{}{"e": "cstart", "c": "c9"})
			err = tx.Commit()
			log.ev(map[string]interface{}{"e": "cret", "c": "c9", "ok": err == nil})
			done <- true
		}()
		select {
		case ok := <-done:
			return ok
		case <-time.After(5 * time.Second):
			log.ev(map[string]interface{}{"e": "hang", "msg": "a fresh read-write transaction was not granted within 5 s after scenario " + *scen + ": the lock is still held"})
			return false
		}
	}

	switch *scen {
	case "idle", "ttl", "conn", "shutdown":
		log.ev(map[string]interface{}{"e": "breq", "c": "c1", "mode": map[bool]string{false: "rw", true: "ro"}[ro]})
		id, err := reg.Begin(ctxOf("conn1"), eng, ro)
		if err != nil {
			log.ev(map[string]interface{}{"e": "error", "msg": "registry begin: " + err.Error()})
			break
		}
		tx, _ := reg.Get(id)
		if !ro {
			tx.Put(conc.Key("k1"), conc.Val("v5"))
			log.ev(map[string]interface{}{"e": "write", "c": "c1", "k": "k1", "v": "v5"})
		}
		log.ev(map[string]interface{}{"e": "abandon", "c": "c1"})
		switch *scen {
		case "idle":
			time.Sleep(120 * time.Millisecond)
			reg.(interface{ CleanupStaleTransactions() }).CleanupStaleTransactions()
		case "ttl":
			time.Sleep(61 * time.Second)
			reg.(interface{ CleanupStaleTransactions() }).CleanupStaleTransactions()
		case "conn":
			reg.CleanupConnection("conn1")
		case "shutdown":
			reg.GracefulShutdown(context.Background())
		}
		if _, still := reg.Get(id); still {
			log.ev(map[string]interface{}{"e": "error", "msg": "the abandoned transaction is still registered after " + *scen + " cleanup"})
		}
		probe()
	case "deadline-rw", "deadline-ro", "cancel-rw", "cancel-ro":
		// the caller's OWN context ends (client deadline / cancelled call) while its begin waits behind another transaction;
		// the lock request stays in flight and is granted later: that transaction has to be rolled back as well
		tr.register("c1")
		log.ev(map[string]interface{}{"e": "breq", "c": "c1", "mode": "rw"})
		tx1, err := eng.BeginTransaction(false)
		if err != nil {
			log.ev(map[string]interface{}{"e": "error", "msg": err.Error()})
			break
		}
		mode := "rw"
		if strings.HasSuffix(*scen, "-ro") {
			mode = "ro"
		}
		var cctx context.Context
		var cancel context.CancelFunc
		if strings.HasPrefix(*scen, "deadline") {
			cctx, cancel = context.WithTimeout(ctxOf("conn2"), 150*time.Millisecond)
		} else {
			cctx, cancel = context.WithCancel(ctxOf("conn2"))
			go func() { time.Sleep(150 * time.Millisecond); cancel() }()
		}
		log.ev(map[string]interface{}{"e": "breq", "c": "c2", "mode": mode})
		_, berr := reg.Begin(cctx, eng, mode == "ro")
		cancel()
		if berr == nil {
			log.ev(map[string]interface{}{"e": "error", "msg": "registry begin returned a transaction while the write lock was held"})
			break
		}
		log.ev(map[string]interface{}{"e": "btimeout", "c": "c2"})
		time.Sleep(100 * time.Millisecond) // the caller is gone for good before the holder finishes
		log.ev(map[string]interface{}{"e": "cstart", "c": "c1"})
		err = tx1.Commit()
		log.ev(map[string]interface{}{"e": "cret", "c": "c1", "ok": err == nil})
		tr.unregister()
		time.Sleep(300 * time.Millisecond)
		probe()
	case "timeout-rw", "timeout-ro":
		// c1 holds the write lock past the registry's 10 s begin time-out
		tr.register("c1")
		log.ev(map[string]interface{}{"e": "breq", "c": "c1", "mode": "rw"})
		tx1, err := eng.BeginTransaction(false)
		if err != nil {
			log.ev(map[string]interface{}{"e": "error", "msg": err.Error()})
			break
		}
		mode := "rw"
		if *scen == "timeout-ro" {
			mode = "ro"
		}
		log.ev(map[string]interface{}{"e": "breq", "c": "c2", "mode": mode})
		t0 := time.Now()
		_, berr := reg.Begin(ctxOf("conn2"), eng, mode == "ro")
		if berr == nil {
			log.ev(map[string]interface{}{"e": "error", "msg": "registry begin returned a transaction while the write lock was held"})
			break
		}
		log.ev(map[string]interface{}{"e": "btimeout", "c": "c2", "after_ms": time.Since(t0).Milliseconds()})
		log.ev(map[string]interface{}{"e": "cstart", "c": "c1"})
		err = tx1.Commit()
		log.ev(map[string]interface{}{"e": "cret", "c": "c1", "ok": err == nil})
		tr.unregister()
		time.Sleep(300 * time.Millisecond) // the late grant and its rollback happen in the registry's goroutine
		probe()
	}
	verifhook.SetGate(nil)
	log.ev(map[string]interface{}{"e": "final", "st": projectEngine(eng, conc)})
	log.close()
	eng.Close()
	return 0
}

func firstOf(v []byte, err error) []byte { return v }
func secondOf(v []byte, err error) error { return err }
