package main

// C13 sender-side component check: the real replication.Primary observes the log of a real engine and serves a session
// through a FAKE stream (no network, no Replica): Primary.StreamWAL runs with a stream object of the harness whose Send
// records every message.  The driver executes a program (puts, deletes, transactions, Engine.ApplyBatch with numbered
// or un-numbered entries, flush = log rotation, attach / detach of the session, pauses) and logs, in one event log,
// every primary write and every message the session sender put on the stream, decoded entry by entry.  The fake replica
// behind the stream is the real WALBatchApplier (its conformance is the subject of repl-apply); on a gap it sends the
// negative acknowledgement a replica would send.  TLC validates the log against TRACE_ReplSend: every message is a range
// of WHOLE batches of the primary's log, the acceptance rule of KevoRepl is applied to it, and in the end the fake
// replica has been handed the whole log, entry by entry, in order.

import (
	"bytes"
	"context"
	"encoding/json"
	"flag"
	"fmt"
	"os"
	"path/filepath"
	"sort"
	"sync"
	"time"

	"github.com/KevoDB/kevo/pkg/engine"
	"github.com/KevoDB/kevo/pkg/replication"
	"github.com/KevoDB/kevo/pkg/wal"
	rproto "github.com/KevoDB/kevo/proto/kevo/replication"
	"google.golang.org/grpc/metadata"
)

func init() {
	register("repl-send", replSendCmd)
}

type replSendProg struct {
	ID    int        `json:"id"`
	Class string     `json:"class"`
	Steps []replStep `json:"steps"`
}

// replSendVal: like replValBytes plus class "giant" (400 KB values: three of them exceed the 1 MB volume cut of a chunk)
func replSendVal(c Conc, tok string) []byte {
	if c.Class != "giant" {
		return replValBytes(c, tok)
	}
	b := replValBytes(Conc{Class: "huge", Seed: c.Seed}, tok)
	return bytes.Repeat(b, 4)
}

func replSendKey(c Conc, tok string) []byte {
	if c.Class == "giant" {
		return Conc{Class: "ascii", Seed: c.Seed}.Key(tok)
	}
	return replKeyBytes(c, tok)
}

type replFakeReplica struct {
	mu      sync.Mutex
	ap      *replication.WALBatchApplier
	applied int
}

// replFakeStream is the stream of one session
type replFakeStream struct {
	ctx     context.Context
	log     *evLog
	conc    Conc
	keys    []string
	vals    []string
	rep     *replFakeReplica
	prim    *replication.Primary
	mu      sync.Mutex
	session string
}

func (s *replFakeStream) SetHeader(md metadata.MD) error { return s.SendHeader(md) }
func (s *replFakeStream) SendHeader(md metadata.MD) error {
	if v := md.Get("session-id"); len(v) > 0 {
		s.mu.Lock()
		s.session = v[0]
		s.mu.Unlock()
	}
	return nil
}
func (s *replFakeStream) SetTrailer(metadata.MD)      {}
func (s *replFakeStream) Context() context.Context    { return s.ctx }
func (s *replFakeStream) SendMsg(m interface{}) error { return nil }
func (s *replFakeStream) RecvMsg(m interface{}) error { return nil }
func (s *replFakeStream) Send(m *rproto.WALStreamResponse) error {
	if s.ctx.Err() != nil {
		return s.ctx.Err()
	}
	if len(m.Entries) == 0 {
		return nil // heartbeat
	}
	s.rep.mu.Lock()
	defer s.rep.mu.Unlock()
	ents := make([]map[string]interface{}, 0, len(m.Entries))
	for _, pe := range m.Entries {
		e, err := replication.DeserializeWALEntry(pe.Payload)
		if err != nil {
			ents = append(ents, map[string]interface{}{"k": "?undecodable", "v": err.Error(), "seq": pe.SequenceNumber})
			continue
		}
		v := "TOMB"
		if e.Type != wal.OpTypeDelete {
			v = "?"
			for _, t := range s.vals {
				if bytes.Equal(replSendVal(s.conc, t), e.Value) {
					v = t
				}
			}
		}
		k := "?"
		for _, t := range s.keys {
			if bytes.Equal(replSendKey(s.conc, t), e.Key) {
				k = t
			}
		}
		if e.SequenceNumber != pe.SequenceNumber {
			k = fmt.Sprintf("?payload-seq-%d", e.SequenceNumber)
		}
		ents = append(ents, map[string]interface{}{"k": k, "v": v, "seq": pe.SequenceNumber})
	}
	n := 0
	_, gap, err := s.rep.ap.ApplyEntries(m.Entries, func(*wal.Entry) error { n++; return nil })
	s.rep.applied += n
	s.log.ev(map[string]interface{}{"e": "m", "ents": ents, "ok": err == nil && !gap})
	if gap {
		// what Replica.handleSequenceGap does; not from inside Send (the sender holds the session lock)
		want := s.rep.ap.GetExpectedNext()
		s.mu.Lock()
		id := s.session
		s.mu.Unlock()
		go func() {
			ctx := metadata.NewIncomingContext(context.Background(), metadata.Pairs("session-id", id))
			s.prim.NegativeAcknowledge(ctx, &rproto.Nack{MissingFromSequence: want})
		}()
		s.log.ev(map[string]interface{}{"e": "nack", "from": want})
	}
	return nil
}

func replSendRun(dir string, seed uint64, p replSendProg, log *evLog) {
	conc := Conc{Class: p.Class, Seed: seed}
	keys, vals := []string{"k1", "k2", "k3"}, txVals
	for _, st := range p.Steps {
		for _, x := range st.Op {
			known := false
			for _, k := range keys {
				known = known || k == x.K
			}
			if !known {
				keys = append(keys, x.K)
			}
		}
	}
	log.ev(map[string]interface{}{"e": "reset", "id": p.ID})
	cc := CfgClass{MemTableSize: 1 << 20, MaxMemTables: 4, SyncMode: 0, CompactSec: 3600}
	eng, err := openEngine(dir, &cc)
	if err != nil {
		log.ev(map[string]interface{}{"e": "error", "msg": err.Error()})
		return
	}
	defer eng.Close()
	pc := replication.DefaultPrimaryConfig()
	pc.HeartbeatConfig = &replication.HeartbeatConfig{Interval: time.Hour, Timeout: 2 * time.Hour}
	prim, err := replication.NewPrimary(eng.GetWAL(), pc)
	if err != nil {
		log.ev(map[string]interface{}{"e": "error", "msg": err.Error()})
		return
	}
	defer prim.Close()
	rep := &replFakeReplica{ap: replication.NewWALBatchApplier(0)}
	var cancel context.CancelFunc
	var hdone chan struct{}
	detach := func() {
		if cancel != nil {
			cancel()
			<-hdone
			cancel = nil
			log.ev(map[string]interface{}{"e": "det"})
		}
	}
	attach := func() {
		detach()
		ctx, c := context.WithCancel(context.Background())
		cancel = c
		rep.mu.Lock()
		start := rep.ap.GetExpectedNext() - 1
		rep.mu.Unlock()
		fs := &replFakeStream{ctx: ctx, log: log, conc: conc, keys: keys, vals: vals, rep: rep, prim: prim}
		log.ev(map[string]interface{}{"e": "att", "start": start})
		hdone = make(chan struct{})
		d := hdone
		go func() {
			prim.StreamWAL(&rproto.WALStreamRequest{StartSequence: start, ProtocolVersion: 1, ListenerAddress: "fake:1"}, fs)
			close(d)
		}()
	}
	nents := 0
	write := func(st replStep) error {
		op := st.Op
		if st.A == "w" && len(op) > 1 {
			var eff []kvEntry
			for i, x := range op {
				last := true
				for _, y := range op[i+1:] {
					if y.K == x.K {
						last = false
					}
				}
				if last {
					eff = append(eff, x)
				}
			}
			// ... and writes them to the log sorted by key
			sort.Slice(eff, func(i, j int) bool {
				return bytes.Compare(replSendKey(conc, eff[i].K), replSendKey(conc, eff[j].K)) < 0
			})
			op = eff
		}
		log.ev(map[string]interface{}{"e": "w", "op": op})
		nents += len(op)
		var err error
		for try := 0; try < 200; try++ {
			err = replSendWrite(eng, conc, st.A, op)
			if !isRotating(err) {
				break
			}
			time.Sleep(2 * time.Millisecond)
		}
		return err
	}
	for _, st := range p.Steps {
		switch st.A {
		case "w", "ab", "abn":
			if err := write(st); err != nil {
				log.ev(map[string]interface{}{"e": "error", "msg": "write: " + err.Error()})
				detach()
				return
			}
		case "flush":
			if err := eng.FlushImMemTables(); err != nil {
				log.ev(map[string]interface{}{"e": "error", "msg": "flush: " + err.Error()})
				detach()
				return
			}
		case "att":
			attach()
		case "det":
			detach()
		case "sleep":
			time.Sleep(time.Duration(st.Ms) * time.Millisecond)
		}
	}
	if cancel == nil {
		attach()
	}
	t0 := time.Now()
	for time.Since(t0) < 6*time.Second {
		rep.mu.Lock()
		n := rep.applied
		rep.mu.Unlock()
		if n >= nents {
			break
		}
		time.Sleep(20 * time.Millisecond)
	}
	time.Sleep(250 * time.Millisecond) // anything the senders still put on the stream (duplicates) is logged too
	detach()
	rep.mu.Lock()
	log.ev(map[string]interface{}{"e": "fin", "n": rep.applied, "ms": time.Since(t0).Milliseconds()})
	rep.mu.Unlock()
}

func replSendWrite(eng *engine.EngineFacade, conc Conc, api string, op []kvEntry) error {
	if api == "ab" || api == "abn" {
		var seq uint64
		if api == "abn" {
			fmt.Sscan(replEngLastSeq(eng), &seq)
			seq++
		}
		batch := make([]*wal.Entry, 0, len(op))
		for _, x := range op {
			e := &wal.Entry{SequenceNumber: seq, Type: wal.OpTypePut, Key: replSendKey(conc, x.K)}
			if x.V == "TOMB" {
				e.Type = wal.OpTypeDelete
			} else {
				e.Value = replSendVal(conc, x.V)
			}
			batch = append(batch, e)
		}
		return eng.ApplyBatch(batch)
	}
	if len(op) == 1 {
		if op[0].V == "TOMB" {
			return eng.Delete(replSendKey(conc, op[0].K))
		}
		return eng.Put(replSendKey(conc, op[0].K), replSendVal(conc, op[0].V))
	}
	tx, err := eng.BeginTransaction(false)
	if err != nil {
		return err
	}
	for _, x := range op {
		if x.V == "TOMB" {
			err = tx.Delete(replSendKey(conc, x.K))
		} else {
			err = tx.Put(replSendKey(conc, x.K), replSendVal(conc, x.V))
		}
		if err != nil {
			tx.Rollback()
			return err
		}
	}
	return tx.Commit()
}

func replSendCmd(args []string) int {
	fs := flag.NewFlagSet("repl-send", flag.ExitOnError)
	dir := fs.String("dir", "", "scratch directory")
	in := fs.String("in", "", "programs (ndjson: {id, class, steps})")
	out := fs.String("out", "", "event log (ndjson), all programs one after the other, each starting with reset")
	seed := fs.Uint64("seed", 1, "seed")
	fs.Parse(args)
	stderr := os.Stderr
	muteStdout()
	replQuietLogs("")
	log, err := newEvLog(*out)
	if err != nil {
		fmt.Fprintln(stderr, err)
		return 2
	}
	defer log.close()
	err = readLines(*in, func(line []byte) error {
		var p replSendProg
		if err := json.Unmarshal(line, &p); err != nil {
			return err
		}
		d := filepath.Join(*dir, fmt.Sprintf("p%d", p.ID))
		replSendRun(d, *seed, p, log)
		os.RemoveAll(d)
		return nil
	})
	if err != nil {
		fmt.Fprintln(stderr, err)
		return 2
	}
	return 0
}
