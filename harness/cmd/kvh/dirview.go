package main

import (
	"bytes"
	"fmt"
	"os"
	"path/filepath"
	"sort"

	"github.com/KevoDB/kevo/pkg/sstable"
)

// dirView is the merged newest-wins view of a table directory, computed with the real readers and the recency
// the specification defines (KevoStore!Older): deeper level = older; inside a level the higher file number is newer.
type dirView struct {
	files   []string
	maxL0   uint64
	view    map[string]string // key -> "V:<value>" | "T" (deletion marker)
	problem string            // a file that is not strictly ascending
}

type tableFile struct {
	name  string
	level int
	seq   uint64
	ts    int64
}

func listTables(dir string) ([]tableFile, error) {
	ents, err := os.ReadDir(dir)
	if err != nil {
		if os.IsNotExist(err) {
			return nil, nil
		}
		return nil, err
	}
	var fs []tableFile
	for _, e := range ents {
		var tf tableFile
		if n, err := fmt.Sscanf(e.Name(), "%d_%06d_%020d.sst", &tf.level, &tf.seq, &tf.ts); n != 3 || err != nil {
			continue
		}
		tf.name = e.Name()
		fs = append(fs, tf)
	}
	// oldest first
	sort.Slice(fs, func(i, j int) bool {
		if fs[i].level != fs[j].level {
			return fs[i].level > fs[j].level
		}
		if fs[i].seq != fs[j].seq {
			return fs[i].seq < fs[j].seq
		}
		return fs[i].ts < fs[j].ts
	})
	return fs, nil
}

func readDirView(dir string) (*dirView, error) {
	fs, err := listTables(dir)
	if err != nil {
		return nil, err
	}
	dv := &dirView{view: map[string]string{}}
	for _, tf := range fs {
		dv.files = append(dv.files, tf.name)
		if tf.level == 0 && tf.seq > dv.maxL0 {
			dv.maxL0 = tf.seq
		}
		r, err := sstable.OpenReader(filepath.Join(dir, tf.name))
		if err != nil {
			if os.IsNotExist(err) {
				continue // removed by the compactor between listing and opening
			}
			return nil, fmt.Errorf("%s: %w", tf.name, err)
		}
		it := r.NewIterator()
		var prev []byte
		for it.SeekToFirst(); it.Valid(); it.Next() {
			k := it.Key()
			if prev != nil && bytes.Compare(prev, k) >= 0 && dv.problem == "" {
				dv.problem = fmt.Sprintf("%s: key %q after %q (not strictly ascending)", tf.name, k, prev)
			}
			prev = append(prev[:0], k...)
			if it.IsTombstone() {
				dv.view[string(k)] = "T"
			} else {
				dv.view[string(k)] = "V:" + string(it.Value())
			}
		}
		r.Close()
	}
	return dv, nil
}

// diff compares what READERS would see (a deletion marker and an absent key are the same thing for them).  If a new
// level-0 file appeared in between (a background flush, not the compactor) the comparison says nothing: "" is returned.
func (a *dirView) diff(b *dirView) string {
	if b.problem != "" {
		return b.problem
	}
	if b.maxL0 > a.maxL0 {
		return ""
	}
	norm := func(m map[string]string, k string) string {
		v, ok := m[k]
		if !ok || v == "T" {
			return "absent"
		}
		return v
	}
	keys := map[string]bool{}
	for k := range a.view {
		keys[k] = true
	}
	for k := range b.view {
		keys[k] = true
	}
	var ks []string
	for k := range keys {
		ks = append(ks, k)
	}
	sort.Strings(ks)
	for _, k := range ks {
		if x, y := norm(a.view, k), norm(b.view, k); x != y {
			return fmt.Sprintf("key %q: %.40q before, %.40q after (files before %v, after %v)", k, x, y, a.files, b.files)
		}
	}
	return ""
}
