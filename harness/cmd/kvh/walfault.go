package main

// C10: fault enumeration on log files written by the REAL writer.  For one log description the harness
//   1. builds a template database directory (MANIFEST + wal/*.wal written through the wal package),
//   2. derives the record layout by walking the headers it wrote,
//   3. plans the faults: every truncation offset of the newest file and, per byte position, three altered values
//      (low bit flipped, 0x00, 0xFF; type bytes additionally every other type code) - for files larger than 4 KB the
//      interior of big payloads is sampled, every header byte and every entry-header byte is still taken,
//   4. per fault: copy of the template, fault applied, wal.ReplayWALDir (what is delivered), engine.NewEngineFacade,
//      every key read, further writes, clean close, ReplayWALDir, second open, every key read,
//   5. prints one "fault" line per outcome (and the "log" line describing the layout) for TRACE_WalReader.
// The position is mapped to the specification's damage descriptor (class, file, record) from the layout.

import (
	"bytes"
	"crypto/sha1"
	"encoding/json"
	"flag"
	"fmt"
	"io"
	"os"
	"path/filepath"
	"sort"
	"strconv"
	"strings"

	"github.com/KevoDB/kevo/pkg/config"
	"github.com/KevoDB/kevo/pkg/wal"
)

func init() { register("walfault", walFaultCmd) }

type wfEntry struct {
	Op   string `json:"op"` // put | del
	K    string `json:"k"`
	V    string `json:"v"`
	Size int    `json:"size"` // total value length (0 = just the token text)
	Fill string `json:"fill"` // rand | images | aligned:<record index (1-based) of this file> | chunkentry
}
type wfOp struct {
	Batch bool      `json:"batch"`
	E     []wfEntry `json:"e"`
}
type wfSpec struct {
	Name     string    `json:"name"`
	Files    [][]wfOp  `json:"files"`
	Post     []wfEntry `json:"post"`
	Keys     []string  `json:"keys"`
	Interior int       `json:"interior"`
}

type wfRec struct {
	T string `json:"t"`
	E int    `json:"e"`
	P int    `json:"p"`
	N int    `json:"n"`
}
type wfKV struct {
	K string `json:"k"`
	V string `json:"v"`
}
type wfDmg struct {
	Kind string `json:"kind"`
	F    int    `json:"f"`
	R    int    `json:"r"`
	To   string `json:"to"`
}
type wfFault struct {
	File int    `json:"file"` // 1-based
	Off  int64  `json:"off"`
	How  string `json:"how"` // cut | set
	Val  int    `json:"val"`
	Dmg  wfDmg  `json:"dmg"`
}

var typeName = map[uint8]string{1: "FULL", 2: "FIRST", 3: "MIDDLE", 4: "LAST"}

const forgedKey, forgedVal = "key-forged", "val-forged"

func forgedImage() []byte {
	return recordImage(wal.RecordTypeFull, wal.OpTypePut, 4242, []byte(forgedKey), []byte(forgedVal))
}

type wfLog struct {
	spec    wfSpec
	tmpl    string
	files   []string   // base names in order
	sizes   []int64
	hashes  []string
	recs    [][]physRec
	layout  [][]wfRec
	kv      []wfKV     // by id-1, post entries at the end
	ents    []walEnt   // by id-1 (orig only)
	valOf   map[string][][]byte // key token -> known values (with their tokens in valTok)
	valTok  map[string][]string
	postEnt []walEnt
}

func keyBytes(tok string) []byte { return []byte("key-" + tok) }

func (l *wfLog) valueBytes(e wfEntry, fileOff int64, recEnds []int64, seed uint64, id int) []byte {
	base := []byte("val-" + e.V + "|")
	if e.Size <= len(base) {
		return []byte("val-" + e.V)
	}
	b := make([]byte, e.Size)
	copy(b, base)
	rest := b[len(base):]
	switch {
	case e.Fill == "images" || strings.HasPrefix(e.Fill, "aligned:"):
		img := forgedImage()
		pad := 0
		if strings.HasPrefix(e.Fill, "aligned:") {
			// the value starts behind: FIRST record (7 + 13 + key), header of the next record (7), value length (4)
			tgt, _ := strconv.Atoi(strings.TrimPrefix(e.Fill, "aligned:"))
			valueStart := fileOff + 7 + 13 + int64(len(keyBytes(e.K))) + 7 + 4 + int64(len(base))
			if tgt >= 1 && tgt <= len(recEnds) {
				pad = int(((recEnds[tgt-1]+32768-valueStart)%int64(len(img)) + int64(len(img))) % int64(len(img)))
			}
		}
		for i := 0; i < pad && i < len(rest); i++ {
			rest[i] = '.'
		}
		for i := pad; i < len(rest); {
			i += copy(rest[i:], img)
		}
	default:
		copy(rest, fillBytes(len(rest), seed, id, 3, 0))
		if e.Fill == "chunkentry" && e.Size >= 32764+64 {
			// the second fragment chunk (stream offset 32768 = value offset 32764: the stream starts with the 4-byte value
			// length) begins with the image of a log ENTRY: whoever takes that MIDDLE/LAST record for a FULL one parses it
			img := recordImage(wal.RecordTypeFull, wal.OpTypePut, 4242, []byte(forgedKey), []byte(forgedVal))[7:]
			copy(b[32764:], img)
		}
	}
	return b
}

// build writes the template directory with the real writer.
func (l *wfLog) build(work string, seed uint64) error {
	l.tmpl = filepath.Join(work, "tmpl-"+l.spec.Name)
	os.RemoveAll(l.tmpl)
	eng, err := openEngine(l.tmpl, &CfgClass{SyncMode: 2, CompactSec: 3600})
	if err != nil {
		return fmt.Errorf("creating the template database: %w", err)
	}
	if err := eng.Close(); err != nil {
		return err
	}
	wdir := filepath.Join(l.tmpl, "wal")
	old, _ := wal.FindWALFiles(wdir)
	for _, f := range old {
		os.Remove(f)
	}
	cfg := config.NewDefaultConfig(l.tmpl)
	cfg.WALSyncMode = config.SyncImmediate
	next := uint64(1)
	id := 0
	l.valOf, l.valTok = map[string][][]byte{}, map[string][]string{}
	for _, ops := range l.spec.Files {
		w, err := wal.NewWAL(cfg, wdir)
		if err != nil {
			return err
		}
		w.UpdateNextSequence(next)
		var off int64
		var recEnds []int64
		account := func(op uint8, k, v []byte) {
			n := 13 + len(k)
			if op != wal.OpTypeDelete {
				n += 4 + len(v)
			}
			if n <= wal.MaxRecordSize {
				off += int64(7 + n)
				recEnds = append(recEnds, off)
				return
			}
			first := 13 + len(k)
			if first > wal.MaxRecordSize {
				first = wal.MaxRecordSize
			}
			off += int64(7 + first)
			recEnds = append(recEnds, off)
			for rem := n - first; rem > 0; {
				c := rem
				if c > wal.MaxRecordSize {
					c = wal.MaxRecordSize
				}
				off += int64(7 + c)
				recEnds = append(recEnds, off)
				rem -= c
			}
		}
		for _, op := range ops {
			var batch []*wal.Entry
			for _, e := range op.E {
				id++
				k := keyBytes(e.K)
				var v []byte
				t := uint8(wal.OpTypePut)
				vtok := e.V
				if e.Op == "del" {
					t = wal.OpTypeDelete
					vtok = "TOMB"
				} else {
					v = l.valueBytes(e, off, recEnds, seed, id)
					l.valOf[e.K] = append(l.valOf[e.K], v)
					l.valTok[e.K] = append(l.valTok[e.K], e.V)
				}
				account(t, k, v)
				l.kv = append(l.kv, wfKV{K: e.K, V: vtok})
				l.ents = append(l.ents, walEnt{id: id, op: t, key: k, val: v})
				if op.Batch {
					batch = append(batch, &wal.Entry{Type: t, Key: k, Value: v})
				} else {
					seq, err := w.Append(t, k, v)
					if err != nil {
						return err
					}
					l.ents[id-1].seq = seq
				}
			}
			if op.Batch {
				seq, err := w.AppendBatch(batch)
				if err != nil {
					return err
				}
				for j := range batch {
					l.ents[id-len(batch)+j].seq = seq
				}
			}
		}
		next = w.GetNextSequence()
		if err := w.Close(); err != nil {
			return err
		}
	}
	for i, e := range l.spec.Post {
		t := uint8(wal.OpTypePut)
		vtok := e.V
		var v []byte
		if e.Op == "del" {
			t, vtok = wal.OpTypeDelete, "TOMB"
		} else {
			v = []byte("val-" + e.V)
			l.valOf[e.K] = append(l.valOf[e.K], v)
			l.valTok[e.K] = append(l.valTok[e.K], e.V)
		}
		l.kv = append(l.kv, wfKV{K: e.K, V: vtok})
		l.postEnt = append(l.postEnt, walEnt{id: len(l.ents) + i + 1, op: t, key: keyBytes(e.K), val: v})
	}
	// layout from the bytes on disk
	files, err := wal.FindWALFiles(wdir)
	if err != nil {
		return err
	}
	if len(files) != len(l.spec.Files) {
		return fmt.Errorf("template has %d log files, expected %d", len(files), len(l.spec.Files))
	}
	ent := 0
	for _, f := range files {
		recs, size, err := scanRecords(f)
		if err != nil {
			return fmt.Errorf("layout of %s: %w", f, err)
		}
		data, _ := os.ReadFile(f)
		l.files = append(l.files, filepath.Base(f))
		l.sizes = append(l.sizes, size)
		l.hashes = append(l.hashes, fmt.Sprintf("%x", sha1.Sum(data)))
		l.recs = append(l.recs, recs)
		lay := []wfRec{}
		for i := 0; i < len(recs); {
			ent++
			n := 1
			if recs[i].Type == wal.RecordTypeFirst {
				for i+n < len(recs) && recs[i+n-1].Type != wal.RecordTypeLast {
					n++
				}
			}
			for p := 1; p <= n; p++ {
				lay = append(lay, wfRec{T: typeName[recs[i+p-1].Type], E: ent, P: p, N: n})
			}
			i += n
		}
		l.layout = append(l.layout, lay)
	}
	if ent != len(l.ents) {
		return fmt.Errorf("layout holds %d entries, %d were appended", ent, len(l.ents))
	}
	return nil
}

func (l *wfLog) logLine() map[string]interface{} {
	return map[string]interface{}{"e": "log", "name": l.spec.Name, "files": l.layout, "kv": l.kv, "keys": l.spec.Keys,
		"npost": len(l.spec.Post), "sizes": l.sizes}
}

// positions of file f (0-based index) that are damaged
func (l *wfLog) positions(f int, seed uint64, headersOnly bool) []int64 {
	size := l.sizes[f]
	set := map[int64]bool{}
	if size <= 4096 && !headersOnly {
		for p := int64(0); p < size; p++ {
			set[p] = true
		}
	} else {
		x := seed*2654435761 + uint64(f)*97 + 13
		for _, r := range l.recs[f] {
			end := r.Off + 7 + int64(r.Len)
			for p := r.Off; p < r.Off+7+24 && p < end; p++ {
				set[p] = true
			}
			for p := end - 4; p < end; p++ {
				if p >= r.Off {
					set[p] = true
				}
			}
			if !headersOnly && r.Len > 64 {
				// the value-length field of a small-key put sits right behind the key: covered by the first 24 bytes for
				// short keys; sample the interior
				for i := 0; i < l.spec.Interior; i++ {
					x = x*6364136223846793005 + 1442695040888963407
					set[r.Off+7+int64((x>>33)%uint64(r.Len))] = true
				}
			}
		}
	}
	ps := make([]int64, 0, len(set))
	for p := range set {
		ps = append(ps, p)
	}
	sort.Slice(ps, func(i, j int) bool { return ps[i] < ps[j] })
	return ps
}

func (l *wfLog) classify(f int, off int64, cut bool, newVal int) wfDmg {
	recs := l.recs[f]
	i := sort.Search(len(recs), func(i int) bool { return recs[i].Off+7+int64(recs[i].Len) > off })
	if i == len(recs) {
		return wfDmg{Kind: "none"}
	}
	r := recs[i]
	rel := off - r.Off
	d := wfDmg{F: f + 1, R: i + 1}
	if cut {
		switch {
		case rel == 0:
			d.Kind = "cut_at"
		case rel < 7:
			d.Kind = "cut_hdr"
		default:
			d.Kind = "cut_pay"
		}
		return d
	}
	switch {
	case rel < 4:
		d.Kind = "flip_crc"
	case rel < 6:
		d.Kind = "flip_len"
	case rel == 6:
		d.Kind = "flip_type"
		if n, ok := typeName[uint8(newVal)]; ok {
			d.To = n
		} else {
			d.To = "INVALID"
		}
	default:
		d.Kind = "flip_pay"
	}
	return d
}

func (l *wfLog) plan(seed uint64) []wfFault {
	var fs []wfFault
	fs = append(fs, wfFault{File: 0, How: "none", Dmg: wfDmg{Kind: "none"}})
	nf := len(l.files)
	for f := 0; f < nf; f++ {
		newest := f == nf-1
		data, _ := os.ReadFile(filepath.Join(l.tmpl, "wal", l.files[f]))
		for _, p := range l.positions(f, seed, !newest) {
			if newest {
				fs = append(fs, wfFault{File: f + 1, Off: p, How: "cut", Dmg: l.classify(f, p, true, 0)})
			}
			b := data[p]
			vals := []int{int(b ^ 1), 0x00, 0xFF}
			if d := l.classify(f, p, false, 0); d.Kind == "flip_type" {
				vals = append(vals, 1, 2, 3, 4)
			}
			seen := map[int]bool{int(b): true}
			for _, v := range vals {
				if seen[v] {
					continue
				}
				seen[v] = true
				fs = append(fs, wfFault{File: f + 1, Off: p, How: "set", Val: v, Dmg: l.classify(f, p, false, v)})
			}
		}
	}
	return fs
}

func copyTree(src, dst string) error {
	return filepath.Walk(src, func(p string, info os.FileInfo, err error) error {
		if err != nil {
			return err
		}
		rel, _ := filepath.Rel(src, p)
		t := filepath.Join(dst, rel)
		if info.IsDir() {
			return os.MkdirAll(t, 0755)
		}
		in, err := os.Open(p)
		if err != nil {
			return err
		}
		defer in.Close()
		out, err := os.Create(t)
		if err != nil {
			return err
		}
		if _, err := io.Copy(out, in); err != nil {
			out.Close()
			return err
		}
		return out.Close()
	})
}

// idOf maps a delivered entry to the number of the appended entry it equals in type, key, value and sequence number
// (entries written after the recovery: type, key, value - their numbers are chosen by the engine), 0 if none.  Should
// several appended entries be equal in all four (the same delete twice in one batch), the first one behind `after`
// (the previously delivered entry) is meant.
func (l *wfLog) idOf(e *wal.Entry, withPost bool, after int) int {
	first := 0
	match := func(x *walEnt, seq bool) bool {
		return x.op == e.Type && (!seq || x.seq == e.SequenceNumber) && bytes.Equal(x.key, e.Key) && bytes.Equal(x.val, e.Value)
	}
	for i := range l.ents {
		if match(&l.ents[i], true) {
			if l.ents[i].id > after {
				return l.ents[i].id
			}
			if first == 0 {
				first = l.ents[i].id
			}
		}
	}
	if first != 0 {
		return first
	}
	if withPost {
		for i := range l.postEnt {
			if match(&l.postEnt[i], false) {
				return l.postEnt[i].id
			}
		}
	}
	return 0
}

func (l *wfLog) delivered(dir string, withPost bool) ([]int, []string, string) {
	ids := []int{}
	var unknown []string
	es, err := replayDir(filepath.Join(dir, "wal"))
	last := 0
	for _, e := range es {
		id := l.idOf(e, withPost, last)
		ids = append(ids, id)
		if id != 0 {
			last = id
		}
		if id == 0 && len(unknown) < 3 {
			unknown = append(unknown, describeEntText(e))
		}
	}
	msg := ""
	if err != nil {
		msg = err.Error()
	}
	return ids, unknown, msg
}

func describeEntText(e *wal.Entry) string {
	return fmt.Sprintf("{type=%d seq=%d key=%.24q(%d bytes) value=%.24q(%d bytes)}", e.Type, e.SequenceNumber, e.Key, len(e.Key), e.Value, len(e.Value))
}

type getter interface {
	Get(key []byte) ([]byte, error)
}

func (l *wfLog) project(eng getter) map[string]string {
	st := map[string]string{}
	for _, k := range l.spec.Keys {
		v, err := eng.Get(keyBytes(k))
		switch {
		case isNotFound(err):
			st[k] = "NONE"
		case err != nil:
			st[k] = "ERR:" + err.Error()
		default:
			st[k] = fmt.Sprintf("?%.20q(%d bytes)", v, len(v))
			for i, known := range l.valOf[k] {
				if bytes.Equal(known, v) {
					st[k] = l.valTok[k][i]
				}
			}
		}
	}
	return st
}

// kept: every file of the template other than the damaged one is still in the log directory with its bytes unchanged
// (it may have grown: the newest file is re-used for appending)
func (l *wfLog) kept(dir string, damaged int) (bool, string) {
	for i, name := range l.files {
		if i+1 == damaged {
			continue
		}
		data, err := os.ReadFile(filepath.Join(dir, "wal", name))
		if err != nil {
			return false, "log file " + name + " is gone"
		}
		if int64(len(data)) < l.sizes[i] || fmt.Sprintf("%x", sha1.Sum(data[:l.sizes[i]])) != l.hashes[i] {
			return false, "log file " + name + " was altered"
		}
	}
	return true, ""
}

func (l *wfLog) runFault(dir string, j int, ft wfFault) (res map[string]interface{}) {
	res = map[string]interface{}{"e": "fault", "log": l.spec.Name, "j": j, "fault": ft, "dmg": ft.Dmg, "open1": false, "d1": []int{}, "st1": map[string]string{},
		"acked": false, "open2": false, "d2": []int{}, "st2": map[string]string{}, "kept": true, "g": []int{}, "gok": false, "notes": []string{}}
	notes := []string{}
	defer func() {
		if p := recover(); p != nil {
			notes = append(notes, fmt.Sprintf("panic: %v", p))
		}
		res["notes"] = notes
	}()
	os.RemoveAll(dir)
	if err := copyTree(l.tmpl, dir); err != nil {
		notes = append(notes, "harness: copy failed: "+err.Error())
		return
	}
	// the MANIFEST records absolute paths: point the copy at itself
	if m, err := os.ReadFile(filepath.Join(dir, "MANIFEST")); err == nil {
		os.WriteFile(filepath.Join(dir, "MANIFEST"), bytes.ReplaceAll(m, []byte(l.tmpl), []byte(dir)), 0644)
	}
	if ft.How != "none" {
		fp := filepath.Join(dir, "wal", l.files[ft.File-1])
		if ft.How == "cut" {
			if err := os.Truncate(fp, ft.Off); err != nil {
				notes = append(notes, "harness: "+err.Error())
				return
			}
		} else {
			fh, err := os.OpenFile(fp, os.O_RDWR, 0)
			if err != nil {
				notes = append(notes, "harness: "+err.Error())
				return
			}
			fh.WriteAt([]byte{byte(ft.Val)}, ft.Off)
			fh.Close()
		}
	}
	d1, unk, msg := l.delivered(dir, false)
	res["d1"] = d1
	for _, u := range unk {
		notes = append(notes, "first replay delivered an entry that was never appended: "+u)
	}
	if msg != "" {
		notes = append(notes, "ReplayWALDir: "+msg)
	}
	eng, err := openEngine(dir, nil)
	if err != nil {
		notes = append(notes, "open: "+err.Error())
		return
	}
	res["open1"] = true
	res["st1"] = l.project(eng)
	acked := true
	for _, e := range l.postEnt {
		var err error
		if e.op == wal.OpTypeDelete {
			err = eng.Delete(e.key)
		} else {
			err = eng.Put(e.key, e.val)
		}
		if err != nil {
			acked = false
			notes = append(notes, "write after recovery: "+err.Error())
			break
		}
	}
	res["acked"] = acked
	// reading the log from its first sequence number through the live WAL (what a primary serves to a joining replica)
	// must yield what a replay of the directory yields (compared with d2 by the specification)
	if w := eng.GetWAL(); w != nil {
		ges, gerr := w.GetEntriesFrom(1)
		g, last := []int{}, 0
		for _, e := range ges {
			id := l.idOf(e, true, last)
			g = append(g, id)
			if id != 0 {
				last = id
			}
		}
		res["g"] = g
		res["gok"] = gerr == nil
		if gerr != nil {
			notes = append(notes, "GetEntriesFrom(1): "+gerr.Error())
		}
	}
	if err := eng.Close(); err != nil {
		notes = append(notes, "close: "+err.Error())
	}
	d2, unk2, msg2 := l.delivered(dir, true)
	res["d2"] = d2
	for _, u := range unk2 {
		notes = append(notes, "second replay delivered an entry that was never appended: "+u)
	}
	if msg2 != "" {
		notes = append(notes, "second ReplayWALDir: "+msg2)
	}
	eng2, err := openEngine(dir, nil)
	if err != nil {
		notes = append(notes, "second open: "+err.Error())
	} else {
		res["open2"] = true
		res["st2"] = l.project(eng2)
		if err := eng2.Close(); err != nil {
			notes = append(notes, "second close: "+err.Error())
		}
	}
	ok, why := l.kept(dir, ft.File)
	res["kept"] = ok
	if !ok {
		notes = append(notes, why)
	}
	if ents, _ := os.ReadDir(filepath.Join(dir, "wal")); true {
		for _, e := range ents {
			if e.IsDir() {
				notes = append(notes, "log files were moved aside into "+e.Name())
			}
		}
	}
	os.RemoveAll(dir)
	return
}

func walFaultCmd(args []string) int {
	fs := flag.NewFlagSet("walfault", flag.ExitOnError)
	specp := fs.String("spec", "", "log description (JSON file)")
	out := fs.String("out", "-", "trace lines (ndjson)")
	work := fs.String("work", "", "scratch directory")
	seed := fs.Uint64("seed", 1, "seed")
	worker := fs.Int("worker", 0, "this worker's number")
	of := fs.Int("of", 1, "number of workers")
	only := fs.Int("only", -1, "run only this fault number")
	planOnly := fs.Bool("plan", false, "print the log line and the fault plan only")
	fs.Parse(args)
	raw, err := os.ReadFile(*specp)
	if err != nil {
		fmt.Fprintln(os.Stderr, err)
		return 2
	}
	l := &wfLog{}
	if err := json.Unmarshal(raw, &l.spec); err != nil {
		fmt.Fprintln(os.Stderr, "bad log description:", err)
		return 2
	}
	o, err := newJSONOut(*out)
	if err != nil {
		fmt.Fprintln(os.Stderr, err)
		return 2
	}
	defer o.Close()
	stderr := os.Stderr
	muteStdout()
	wal.DisableRecoveryLogs = true
	wdir := filepath.Join(*work, fmt.Sprintf("wk%d", *worker))
	if err := l.build(wdir, *seed); err != nil {
		fmt.Fprintln(stderr, "walfault:", err)
		return 2
	}
	plan := l.plan(*seed)
	if *planOnly {
		ll := l.logLine()
		ll["nfaults"] = len(plan)
		o.Put(ll)
		for j, ft := range plan {
			o.Put(map[string]interface{}{"j": j, "fault": ft})
		}
		return 0
	}
	if *worker == 0 || *only >= 0 {
		o.Put(l.logLine())
		o.w.Flush() // the code under test may end the process
	}
	for j, ft := range plan {
		if *only >= 0 && j != *only {
			continue
		}
		if *only < 0 && j%*of != *worker {
			continue
		}
		o.Put(l.runFault(filepath.Join(wdir, "db"), j, ft))
		o.w.Flush()
	}
	os.RemoveAll(wdir)
	return 0
}
