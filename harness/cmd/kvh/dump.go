package main

import (
	"fmt"
	"os"
	"path/filepath"

	"github.com/KevoDB/kevo/pkg/sstable"
	"github.com/KevoDB/kevo/pkg/wal"
)

func init() { register("dumpdir", dumpDirCmd) }

// dumpdir <dbdir>: print every table file (entries with sequence numbers and deletion flags) and every log file.
func dumpDirCmd(args []string) int {
	dir := args[0]
	stdout := os.Stdout
	muteStdout()
	ents, _ := os.ReadDir(filepath.Join(dir, "sst"))
	for _, e := range ents {
		fmt.Fprintf(stdout, "== sst/%s\n", e.Name())
		if filepath.Ext(e.Name()) != ".sst" {
			continue
		}
		r, err := sstable.OpenReader(filepath.Join(dir, "sst", e.Name()))
		if err != nil {
			fmt.Fprintf(stdout, "   open error: %v\n", err)
			continue
		}
		it := r.NewIterator()
		for it.SeekToFirst(); it.Valid(); it.Next() {
			fmt.Fprintf(stdout, "   %q seq=%d tomb=%v val=%.20q\n", it.Key(), it.SequenceNumber(), it.IsTombstone(), it.Value())
		}
		r.Close()
	}
	files, _ := wal.FindWALFiles(filepath.Join(dir, "wal"))
	for _, f := range files {
		fmt.Fprintf(stdout, "== %s\n", f)
		wal.ReplayWALFile(f, func(e *wal.Entry) error {
			fmt.Fprintf(stdout, "   seq=%d type=%d %q = %.20q\n", e.SequenceNumber, e.Type, e.Key, e.Value)
			return nil
		})
	}
	return 0
}
