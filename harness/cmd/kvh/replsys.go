package main

// C13/C14 system scenarios: a real primary engine with replication.Manager in primary mode and a real replica engine
// with replication.Manager in replica mode, in ONE process, connected over loopback TCP exactly as cmd/kevo wires them
// (NewManager(engine, ManagerConfig{Enabled, Mode, ListenAddr/PrimaryAddr, ForceReadOnly})).  The driver executes a
// scenario whose steps come from behaviours of KevoRepl (writes, batches, flush = log rotation, replica join /
// restart, client write on the replica, quiescence), records every primary write in primary order, samples the
// replica's whole state every 50 ms and finally waits for convergence.  The recorded trace is validated by TLC
// against TRACE_Repl.

import (
	"bytes"
	"encoding/json"
	"flag"
	"fmt"
	"io"
	"net"
	"os"
	"path/filepath"
	"sync"
	"time"

	klog "github.com/KevoDB/kevo/pkg/common/log"
	"github.com/KevoDB/kevo/pkg/engine"
	"github.com/KevoDB/kevo/pkg/replication"
	"github.com/KevoDB/kevo/pkg/wal"
)

func init() {
	register("repl-sys", replSysCmd)
}

type replNode struct {
	dir    string
	eng    *engine.EngineFacade
	mgr    *replication.Manager
	count0 uint64 // the engine's own sequence counter when it was opened, before replication started
}

func replFreeAddr() string {
	l, err := net.Listen("tcp", "127.0.0.1:0")
	if err != nil {
		return "127.0.0.1:0"
	}
	a := l.Addr().String()
	l.Close()
	return a
}

// replForwarder is a tiny TCP forwarder between the replica and the primary: the link of a HEALTHY replica can be cut
// (every live connection is reset, new ones are refused) and brought back, without restarting anything.
type replForwarder struct {
	ln     net.Listener
	target string
	mu     sync.Mutex
	conns  []net.Conn
	down   bool
}

func newReplForwarder(target string) (*replForwarder, error) {
	ln, err := net.Listen("tcp", "127.0.0.1:0")
	if err != nil {
		return nil, err
	}
	f := &replForwarder{ln: ln, target: target}
	go func() {
		for {
			c, err := ln.Accept()
			if err != nil {
				return
			}
			f.mu.Lock()
			down := f.down
			f.mu.Unlock()
			if down {
				replReset(c)
				continue
			}
			t, err := net.Dial("tcp", f.target)
			if err != nil {
				replReset(c)
				continue
			}
			f.mu.Lock()
			f.conns = append(f.conns, c, t)
			f.mu.Unlock()
			go func() { io.Copy(t, c); replReset(t); replReset(c) }()
			go func() { io.Copy(c, t); replReset(c); replReset(t) }()
		}
	}()
	return f, nil
}

func replReset(c net.Conn) {
	if tc, ok := c.(*net.TCPConn); ok {
		tc.SetLinger(0)
	}
	c.Close()
}

func (f *replForwarder) addr() string { return f.ln.Addr().String() }

func (f *replForwarder) cut() {
	f.mu.Lock()
	f.down = true
	cs := f.conns
	f.conns = nil
	f.mu.Unlock()
	for _, c := range cs {
		replReset(c)
	}
}

func (f *replForwarder) up() {
	f.mu.Lock()
	f.down = false
	f.mu.Unlock()
}

func replQuietLogs(path string) {
	var w io.Writer = io.Discard
	if path != "" {
		if f, err := os.Create(path); err == nil {
			w = f
			os.Stdout = f
		}
	}
	klog.SetDefaultLogger(klog.NewStandardLogger(klog.WithOutput(w)))
	wal.DisableRecoveryLogs = true
}

func startReplPrimary(dir, addr string, cc *CfgClass, pc *replication.PrimaryConfig) (*replNode, error) {
	eng, err := openEngine(dir, cc)
	if err != nil {
		return nil, err
	}
	mgr, err := replication.NewManager(eng, &replication.ManagerConfig{Enabled: true, Mode: replication.ReplicationModePrimary,
		ListenAddr: addr, PrimaryConfig: pc, ForceReadOnly: true})
	if err == nil {
		err = mgr.Start()
	}
	if err != nil {
		eng.Close()
		return nil, err
	}
	return &replNode{dir: dir, eng: eng, mgr: mgr}, nil
}

func startReplReplica(dir, self, primary string, cc *CfgClass) (*replNode, error) {
	eng, err := openEngine(dir, cc)
	if err != nil {
		return nil, err
	}
	var count0 uint64
	fmt.Sscan(replEngLastSeq(eng), &count0)
	mgr, err := replication.NewManager(eng, &replication.ManagerConfig{Enabled: true, Mode: replication.ReplicationModeReplica,
		PrimaryAddr: primary, ListenAddr: self, ForceReadOnly: true})
	if err == nil {
		err = mgr.Start()
	}
	if err != nil {
		eng.Close()
		return nil, err
	}
	return &replNode{dir: dir, eng: eng, mgr: mgr, count0: count0}, nil
}

// stop ends the node; false if Stop/Close did not return in time (the goroutine is abandoned)
func (n *replNode) stop(max time.Duration) bool {
	done := make(chan struct{})
	go func() {
		n.mgr.Stop()
		n.eng.Close()
		close(done)
	}()
	select {
	case <-done:
		return true
	case <-time.After(max):
		return false
	}
}

// Concretisation used by the system scenarios: the classes of Conc plus "huge" (every value is 100 KB, so that a
// transaction of three keys exceeds the 256 KB limit of the primary's push batcher).
func replKeyBytes(c Conc, tok string) []byte {
	if c.Class == "huge" {
		return Conc{Class: "ascii", Seed: c.Seed}.Key(tok)
	}
	return c.Key(tok)
}

func replValBytes(c Conc, tok string) []byte {
	if c.Class != "huge" {
		return c.Val(tok)
	}
	b := make([]byte, 100*1024)
	x := c.Seed*1000003 + 12345
	for _, ch := range []byte(tok) {
		x = x*31 + uint64(ch)
	}
	for i := range b {
		x = x*6364136223846793005 + 1442695040888963407
		b[i] = byte(x >> 56)
	}
	copy(b, []byte(tok+"|"))
	return b
}

func replValToken(c Conc, b []byte, toks []string) string {
	if c.Class != "huge" {
		return c.ValToken(b, toks)
	}
	for _, t := range toks {
		if bytes.Equal(replValBytes(c, t), b) {
			return t
		}
	}
	return fmt.Sprintf("?(%d bytes)", len(b))
}

func replEngLastSeq(e *engine.EngineFacade) string {
	return fmt.Sprint(e.GetStats()["storage_last_sequence"])
}

// replScanTokens projects the whole visible state of an engine on tokens: the value of every model key by a point read,
// and the number of live keys outside the model by a scan (values are taken from point reads because the merged
// iterator over several memtables is the subject of another property, C05, and has findings of its own).
func replScanTokens(conc Conc, e *engine.EngineFacade, keys, vals []string) (map[string]string, int, error) {
	st := map[string]string{}
	for _, k := range keys {
		v, err := e.Get(replKeyBytes(conc, k))
		if isNotFound(err) {
			st[k] = "NONE"
		} else if err != nil {
			return nil, 0, err
		} else {
			st[k] = replValToken(conc, v, vals)
		}
	}
	it, err := e.GetIterator()
	if err != nil {
		return nil, 0, err
	}
	unknown := 0
	for it.SeekToFirst(); it.Valid(); it.Next() {
		if it.IsTombstone() {
			continue
		}
		if _, ok := st[Conc{Class: map[bool]string{true: "ascii", false: conc.Class}[conc.Class == "huge"], Seed: conc.Seed}.KeyToken(it.Key(), keys)]; !ok {
			unknown++ // a key outside the model
		}
	}
	return st, unknown, nil
}

// replStableScan returns a scan during which the engine executed no write (its sequence counter did not move), so that the
// sample is one state of the engine and not a mixture; ok=false if no quiet moment was found.
func replStableScan(conc Conc, e *engine.EngineFacade, keys, vals []string, tries int) (map[string]string, int, bool) {
	st, x, _, ok := replStableScanCnt(conc, e, keys, vals, tries)
	return st, x, ok
}

// replStableScanCnt also returns the engine's sequence counter of the quiet moment (= entries written into it so far)
func replStableScanCnt(conc Conc, e *engine.EngineFacade, keys, vals []string, tries int) (map[string]string, int, uint64, bool) {
	for i := 0; i < tries; i++ {
		s0 := replEngLastSeq(e)
		st, x, err := replScanTokens(conc, e, keys, vals)
		if err == nil && replEngLastSeq(e) == s0 {
			var cnt uint64
			fmt.Sscan(s0, &cnt)
			return st, x, cnt, true
		}
		time.Sleep(time.Millisecond)
	}
	return nil, 0, 0, false
}

type replStep struct {
	A  string    `json:"a"`
	Op []kvEntry `json:"op"`
	Ms int       `json:"ms"`
	N  int       `json:"n"`
}

type replScenario struct {
	Steps     []replStep `json:"steps"`
	DeadlineS int        `json:"deadline_s"`
}

type replDriver struct {
	conc     Conc
	log      *evLog
	keys     []string
	vals     []string
	cc       CfgClass
	dir      string
	paddr    string
	raddr    string
	prim     *replNode
	mu       sync.Mutex // protects repl (the sampler runs concurrently with restarts)
	repl     *replNode
	fwd      *replForwarder // only in scenarios with a link cut: the replica reaches the primary through it
	joined   bool
	last     string
	nsamples int
	stopS    chan struct{}
	wg       sync.WaitGroup
}

func (d *replDriver) reported(n *replNode) uint64 {
	_, _, _, seq, _ := n.mgr.GetNodeInfo()
	return seq
}

// sampleOnce logs the replica's state if it changed.  The reported sequence number is read BEFORE the scan: what is
// reported as applied must then be visible in the scan.
func (d *replDriver) sampleOnce(force bool) (map[string]string, bool) {
	d.mu.Lock()
	defer d.mu.Unlock()
	if d.repl == nil {
		return nil, false
	}
	rep := d.reported(d.repl)
	st, x, cnt, ok := replStableScanCnt(d.conc, d.repl.eng, d.keys, d.vals, 3)
	if !ok {
		return nil, false
	}
	d.nsamples++
	b, _ := json.Marshal(st)
	sig := fmt.Sprintf("%s/%d/%d/%d", b, x, rep, cnt)
	if sig != d.last || force {
		d.last = sig
		d.log.ev(map[string]interface{}{"e": "s", "st": st, "x": x, "rep": rep, "cnt": cnt})
	}
	return st, true
}

func (d *replDriver) sampler() {
	defer d.wg.Done()
	t := time.NewTicker(50 * time.Millisecond)
	defer t.Stop()
	for {
		select {
		case <-d.stopS:
			return
		case <-t.C:
			d.sampleOnce(false)
		}
	}
}

// write executes one primary write: a put / delete, a committed transaction, or (api "ab" / "abn") one
// Engine.ApplyBatch call - with "abn" the entries' SequenceNumber field holds the number the batch is about to get.
func (d *replDriver) write(op []kvEntry, api string) error {
	if api == "w" && len(op) > 1 {
		// a transaction keeps one operation per key (the last one): log what reaches the primary's log, so that the
		// number of logged operations is the number of log entries
		var eff []kvEntry
		for i, x := range op {
			last := true
			for _, y := range op[i+1:] {
				if y.K == x.K {
					last = false
				}
			}
			if last {
				eff = append(eff, x)
			}
		}
		op = eff
	}
	d.log.ev(map[string]interface{}{"e": "w", "op": op})
	var err error
	for try := 0; try < 200; try++ {
		if api == "ab" || api == "abn" {
			var seq uint64
			if api == "abn" {
				fmt.Sscan(replEngLastSeq(d.prim.eng), &seq)
				seq++
			}
			batch := make([]*wal.Entry, 0, len(op))
			for _, x := range op {
				e := &wal.Entry{SequenceNumber: seq, Type: wal.OpTypePut, Key: replKeyBytes(d.conc, x.K)}
				if x.V == "TOMB" {
					e.Type = wal.OpTypeDelete
				} else {
					e.Value = replValBytes(d.conc, x.V)
				}
				batch = append(batch, e)
			}
			err = d.prim.eng.ApplyBatch(batch)
		} else if len(op) == 1 {
			if op[0].V == "TOMB" {
				err = d.prim.eng.Delete(replKeyBytes(d.conc, op[0].K))
			} else {
				err = d.prim.eng.Put(replKeyBytes(d.conc, op[0].K), replValBytes(d.conc, op[0].V))
			}
		} else {
			tx, e := d.prim.eng.BeginTransaction(false)
			if e != nil {
				return e
			}
			for _, x := range op {
				if x.V == "TOMB" {
					err = tx.Delete(replKeyBytes(d.conc, x.K))
				} else {
					err = tx.Put(replKeyBytes(d.conc, x.K), replValBytes(d.conc, x.V))
				}
				if err != nil {
					break
				}
			}
			if err != nil {
				tx.Rollback()
				return err
			}
			err = tx.Commit()
		}
		if !isRotating(err) {
			break
		}
		time.Sleep(2 * time.Millisecond)
	}
	if err == nil {
		d.log.ev(map[string]interface{}{"e": "wret"})
	}
	return err
}

// join starts the replica on its data directory; every start after the first one is a restart and is logged with the
// number of entries the replica engine had been handed in its earlier lives
func (d *replDriver) join() error {
	target := d.paddr
	if d.fwd != nil {
		target = d.fwd.addr()
	}
	n, err := startReplReplica(filepath.Join(d.dir, "replica"), d.raddr, target, &d.cc)
	if err != nil {
		return err
	}
	if d.joined {
		d.log.ev(map[string]interface{}{"e": "rrestart", "rcount": n.count0})
	}
	d.joined = true
	d.mu.Lock()
	d.repl = n
	d.mu.Unlock()
	return nil
}

func replSysCmd(args []string) int {
	fs := flag.NewFlagSet("repl-sys", flag.ExitOnError)
	dir := fs.String("dir", "", "scratch directory (primary/ and replica/ are created in it)")
	out := fs.String("out", "", "trace (ndjson)")
	in := fs.String("in", "", "scenario (json)")
	seed := fs.Uint64("seed", 1, "seed")
	class := fs.String("class", "ascii", "concretisation class")
	cfgJSON := fs.String("cfg", `{"memtable_size":1048576,"max_memtables":4,"sync_mode":0,"compact_sec":3600}`, "config class of both engines")
	logTo := fs.String("log", "", "keep the engines' chatter in this file")
	fs.Parse(args)
	stderr := os.Stderr
	muteStdout()
	replQuietLogs(*logTo)
	var sc replScenario
	raw, err := os.ReadFile(*in)
	if err == nil {
		err = json.Unmarshal(raw, &sc)
	}
	if err != nil {
		fmt.Fprintln(stderr, err)
		return 2
	}
	if sc.DeadlineS <= 0 {
		sc.DeadlineS = 30
	}
	d := &replDriver{conc: Conc{Class: *class, Seed: *seed}, keys: []string{"k1", "k2", "k3"}, vals: txVals, dir: *dir,
		paddr: replFreeAddr(), raddr: replFreeAddr(), stopS: make(chan struct{})}
	json.Unmarshal([]byte(*cfgJSON), &d.cc)
	// every key a step names is part of the projected state (the many keys of a "long" batch)
	for _, st := range sc.Steps {
		for _, x := range st.Op {
			known := false
			for _, k := range d.keys {
				known = known || k == x.K
			}
			if !known {
				d.keys = append(d.keys, x.K)
			}
		}
	}
	d.log, err = newEvLog(*out)
	if err != nil {
		fmt.Fprintln(stderr, err)
		return 2
	}
	fail := func(msg string) int {
		d.log.ev(map[string]interface{}{"e": "error", "msg": msg})
		d.log.close()
		return 0
	}
	d.log.ev(map[string]interface{}{"e": "reset"})
	d.prim, err = startReplPrimary(filepath.Join(*dir, "primary"), d.paddr, &d.cc, nil)
	if err != nil {
		return fail("primary: " + err.Error())
	}
	for _, st := range sc.Steps {
		if st.A == "cut" && d.fwd == nil {
			if d.fwd, err = newReplForwarder(d.paddr); err != nil {
				return fail("forwarder: " + err.Error())
			}
		}
	}
	d.wg.Add(1)
	go d.sampler()
	for _, s := range sc.Steps {
		switch s.A {
		case "w", "ab", "abn":
			if err := d.write(s.Op, s.A); err != nil {
				return fail("primary write: " + err.Error())
			}
		case "flush":
			d.log.ev(map[string]interface{}{"e": "flush"})
			if err := d.prim.eng.FlushImMemTables(); err != nil {
				return fail("primary flush: " + err.Error())
			}
		case "join":
			d.log.ev(map[string]interface{}{"e": "join"})
			if d.repl == nil {
				if err := d.join(); err != nil {
					return fail("replica start: " + err.Error())
				}
			}
		case "rrestart", "rstop":
			// rstop ... rstart: the primary may write while the replica is down
			if d.repl == nil {
				continue
			}
			d.mu.Lock()
			old := d.repl
			d.repl = nil
			d.mu.Unlock()
			if !old.stop(20 * time.Second) {
				return fail("replica stop did not return within 20 s")
			}
			d.log.ev(map[string]interface{}{"e": "rstop"})
			if s.A == "rrestart" {
				if err := d.join(); err != nil {
					return fail("replica restart: " + err.Error())
				}
			}
		case "rstart":
			if d.repl == nil {
				if err := d.join(); err != nil {
					return fail("replica restart: " + err.Error())
				}
			}
		case "cwr":
			// a client write on the replica must be refused and change nothing (the sampler would show a change)
			if d.repl != nil {
				err := d.repl.eng.Put(replKeyBytes(d.conc, "k1"), []byte("client-write-on-replica"))
				d.log.ev(map[string]interface{}{"e": "cwr", "refused": err != nil})
			}
		case "cut":
			// the link of the (healthy, running) replica is cut: live connections reset, new ones refused
			if d.fwd != nil {
				d.fwd.cut()
				d.log.ev(map[string]interface{}{"e": "cut"})
			}
		case "linkup":
			if d.fwd != nil {
				d.fwd.up()
				d.log.ev(map[string]interface{}{"e": "linkup"})
			}
		case "sleep":
			time.Sleep(time.Duration(s.Ms) * time.Millisecond)
		}
	}
	if d.fwd != nil {
		d.fwd.up()
	}
	d.log.ev(map[string]interface{}{"e": "quiesce"})
	if d.repl == nil {
		if err := d.join(); err != nil {
			return fail("replica start: " + err.Error())
		}
	}
	// convergence: equal full scans, then 3 more equal samples
	t0 := time.Now()
	deadline := t0.Add(time.Duration(sc.DeadlineS) * time.Second)
	stable := 0
	var pst, rst map[string]string
	convAt := time.Duration(0)
	for time.Now().Before(deadline.Add(time.Second)) && stable < 4 {
		time.Sleep(50 * time.Millisecond)
		var ok bool
		pst, _, ok = replStableScan(d.conc, d.prim.eng, d.keys, d.vals, 3)
		if !ok {
			continue
		}
		r, ok := d.sampleOnce(false)
		if !ok {
			continue
		}
		rst = r
		pb, _ := json.Marshal(pst)
		rb, _ := json.Marshal(rst)
		if string(pb) == string(rb) {
			if stable == 0 {
				convAt = time.Since(t0)
			}
			stable++
		} else {
			stable = 0
			if time.Now().After(deadline) {
				break
			}
		}
	}
	close(d.stopS)
	d.wg.Wait()
	d.sampleOnce(true)
	state := ""
	if d.repl != nil {
		state = fmt.Sprint(d.repl.mgr.Status()["state"])
	}
	if stable >= 4 {
		// the replica engine numbers its own log: one number per entry it was handed since it was created
		var rcount uint64
		fmt.Sscan(replEngLastSeq(d.repl.eng), &rcount)
		d.log.ev(map[string]interface{}{"e": "conv", "ms": convAt.Milliseconds(), "pst": pst, "samples": d.nsamples, "rcount": rcount})
	} else {
		d.log.ev(map[string]interface{}{"e": "noconv", "pst": pst, "rst": rst, "replica_state": state, "samples": d.nsamples,
			"primary_status": fmt.Sprint(d.prim.mgr.Status()["replicas"])})
	}
	d.log.close()
	// best effort, bounded: the process ends anyway
	if d.repl != nil {
		d.repl.stop(3 * time.Second)
	}
	d.prim.stop(3 * time.Second)
	return 0
}
