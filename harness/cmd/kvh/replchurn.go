package main

// C15 churn scenario: several writer goroutines write small values on a real primary at full rate - every operation
// watched against a deadline - while misbehaving StreamWAL clients attach, read a little and reset their TCP connection,
// stall and are then reset, or leave cleanly, for N rounds (two at a time), next to 0-1 healthy real replicas.  What is
// exercised is the primary's lock structure under session churn: the writer (WAL lock -> sessions lock -> session lock),
// the catch-up of every fresh session (reads the WAL), registration / removal of sessions, the heartbeat.
// Operations are too many to log one by one: a writer logs how many of its operations returned in time ("ops"), and
// only an operation that misses its deadline is logged as inv + hang.

import (
	"context"
	"flag"
	"fmt"
	"math/rand"
	"net"
	"os"
	"path/filepath"
	"runtime"
	"strings"
	"sync"
	"sync/atomic"
	"time"

	"github.com/KevoDB/kevo/pkg/replication"
	rproto "github.com/KevoDB/kevo/proto/kevo/replication"
	"google.golang.org/grpc"
	"google.golang.org/grpc/credentials/insecure"
	"google.golang.org/grpc/metadata"
)

func init() {
	register("repl-churn", replChurnCmd)
}

// replChurnClient opens StreamWAL from the beginning of the log under the given listener id and then behaves according
// to mode: "cut" reads for readFor and resets the connection; "stallcut" never reads and resets the connection after
// readFor; "clean" reads for readFor and cancels the stream.
func replChurnClient(addr, id, mode string, readFor time.Duration, done *sync.WaitGroup) error {
	return replChurnClientFrom(addr, id, mode, readFor, done, 0)
}

func replChurnClientFrom(addr, id, mode string, readFor time.Duration, done *sync.WaitGroup, start uint64) error {
	var raw net.Conn
	var mu sync.Mutex
	dial := func(ctx context.Context, a string) (net.Conn, error) {
		c, err := (&net.Dialer{}).DialContext(ctx, "tcp", a)
		if err == nil {
			mu.Lock()
			raw = c
			mu.Unlock()
		}
		return c, err
	}
	ctx, cancel := context.WithTimeout(context.Background(), 10*time.Second)
	defer cancel()
	conn, err := grpc.DialContext(ctx, addr, grpc.WithTransportCredentials(insecure.NewCredentials()), grpc.WithBlock(),
		grpc.WithContextDialer(dial), grpc.WithDefaultCallOptions(grpc.MaxCallRecvMsgSize(64<<20)))
	if err != nil {
		return err
	}
	sctx, scancel := context.WithCancel(context.Background())
	stream, err := rproto.NewWALReplicationServiceClient(conn).StreamWAL(sctx, &rproto.WALStreamRequest{
		StartSequence: start, ProtocolVersion: 1, CompressionSupported: false, ListenerAddress: id})
	if err != nil {
		scancel()
		conn.Close()
		return err
	}
	if _, err := stream.Header(); err != nil {
		scancel()
		conn.Close()
		return err
	}
	done.Add(1)
	go func() {
		defer done.Done()
		if mode != "stallcut" {
			go func() {
				for {
					if _, err := stream.Recv(); err != nil {
						return
					}
				}
			}()
		}
		time.Sleep(readFor)
		if mode == "clean" {
			scancel()
			conn.Close()
			return
		}
		mu.Lock()
		if tc, ok := raw.(*net.TCPConn); ok {
			tc.SetLinger(0) // RST instead of FIN: an abrupt cut
		}
		raw.Close()
		mu.Unlock()
		time.Sleep(50 * time.Millisecond)
		scancel()
		conn.Close()
	}()
	return nil
}

func replChurnCmd(args []string) int {
	fs := flag.NewFlagSet("repl-churn", flag.ExitOnError)
	dir := fs.String("dir", "", "scratch directory")
	out := fs.String("out", "", "trace (ndjson)")
	seed := fs.Int64("seed", 1, "seed")
	writers := fs.Int("writers", 4, "writer goroutines")
	rounds := fs.Int("rounds", 12, "attach/detach rounds (two faulty clients per round)")
	healthy := fs.Int("healthy", 0, "healthy real replicas (0 or 1)")
	valB := fs.Int("valb", 200, "value size in bytes")
	syncMode := fs.Int("sync", 0, "WAL sync mode of the primary (2 = immediate: every append notifies the sync observers)")
	logTo := fs.String("log", "", "keep the engines' chatter in this file")
	paceUs := fs.Int("pace_us", 0, "pause of a writer between two operations (0 = full rate)")
	head := fs.Bool("head", false, "clients ask for the log from the primary's current position instead of from its beginning")
	ack := fs.Bool("ack", false, "attach a protocol client that acknowledges what it has received every few ms (drives the primary's retention)")
	nack := fs.Bool("nack", false, "attach a protocol client that reads its stream and keeps sending negative acknowledgements for a sequence it already has")
	flushMs := fs.Int("flush_ms", 0, "flush the primary (log rotation) every so many ms while the writers run (0 = never)")
	stacks := fs.String("stacks", "", "write all goroutine stacks to this file when an operation is overdue")
	fs.Parse(args)
	stderr := os.Stderr
	muteStdout()
	replQuietLogs(*logTo)
	log, err := newEvLog(*out)
	if err != nil {
		fmt.Fprintln(stderr, err)
		return 2
	}
	fail := func(msg string) int {
		log.ev(map[string]interface{}{"e": "error", "msg": msg})
		log.close()
		return 0
	}
	log.ev(map[string]interface{}{"e": "reset"})
	pc := replication.DefaultPrimaryConfig()
	pc.HeartbeatConfig = &replication.HeartbeatConfig{Interval: time.Second, Timeout: 3 * time.Second, SendEmptyResponses: true}
	paddr := replFreeAddr()
	cc := CfgClass{MemTableSize: 4 << 20, MaxMemTables: 4, SyncMode: *syncMode, CompactSec: 3600}
	prim, err := startReplPrimary(filepath.Join(*dir, "primary"), paddr, &cc, pc)
	if err != nil {
		return fail("primary: " + err.Error())
	}
	var repl *replNode
	if *healthy > 0 {
		repl, err = startReplReplica(filepath.Join(*dir, "replica"), replFreeAddr(), paddr, &cc)
		if err != nil {
			return fail("replica: " + err.Error())
		}
		time.Sleep(1200 * time.Millisecond)
	}

	// writers: synchronous operations; the monitor watches the start time of the operation in flight
	type wstate struct {
		start atomic.Int64 // unix nanos of the operation in flight, 0 = none
		kind  atomic.Value
		done  atomic.Int64
		maxNs atomic.Int64
		err   atomic.Value
	}
	ws := make([]*wstate, *writers)
	var stop atomic.Bool
	var wg sync.WaitGroup
	keyOf := func(w, i int) []byte { return []byte(fmt.Sprintf("churn-%d-%02d", w, i%32)) }
	for w := 0; w < *writers; w++ {
		ws[w] = &wstate{}
		ws[w].kind.Store("put")
	}
	runWriter := func(w int, limit int64) {
		defer wg.Done()
		st := ws[w]
		val := replFillerVal(uint64(*seed), w, *valB)
		for i := 0; !stop.Load() && (limit == 0 || st.done.Load() < limit); i++ {
			kind := "put"
			if i%16 == 7 {
				kind = "get"
			} else if i%64 == 33 {
				kind = "commit"
			}
			st.kind.Store(kind)
			t0 := time.Now()
			st.start.Store(t0.UnixNano())
			var err error
			switch kind {
			case "put":
				val[0] = byte(i)
				err = prim.eng.Put(keyOf(w, i), val)
			case "get":
				_, err = prim.eng.Get(keyOf(w, i))
				if isNotFound(err) {
					err = nil
				}
			case "commit":
				tx, e := prim.eng.BeginTransaction(false)
				if e != nil {
					err = e
					break
				}
				tx.Put(keyOf(w, i), val)
				tx.Put(keyOf(w, i+1), val)
				err = tx.Commit()
			}
			d := time.Since(t0).Nanoseconds()
			st.start.Store(0)
			if err != nil && !isRotating(err) {
				st.err.Store(kind + ": " + err.Error())
				return
			}
			if d > st.maxNs.Load() {
				st.maxNs.Store(d)
			}
			st.done.Add(1)
			if *paceUs > 0 && limit == 0 {
				time.Sleep(time.Duration(*paceUs) * time.Microsecond)
			}
		}
	}
	// unfaulted baseline
	for w := 0; w < *writers; w++ {
		wg.Add(1)
		go runWriter(w, 300)
	}
	wg.Wait()
	worst := int64(0)
	for _, st := range ws {
		if e := st.err.Load(); e != nil {
			return fail("baseline operation failed: " + e.(string))
		}
		if st.maxNs.Load() > worst {
			worst = st.maxNs.Load()
		}
	}
	deadline := 10 * time.Duration(worst)
	if deadline < 5*time.Second {
		deadline = 5 * time.Second
	}
	log.ev(map[string]interface{}{"e": "note", "baseline_max_us": worst / 1000, "deadline_ms": deadline.Milliseconds()})
	for w := 0; w < *writers; w++ {
		wg.Add(1)
		go runWriter(w, 0)
	}
	// rotations and acknowledgements while the writers run
	var bgStop atomic.Bool
	var acks, flushes atomic.Int64
	if *flushMs > 0 {
		go func() {
			for !bgStop.Load() {
				time.Sleep(time.Duration(*flushMs) * time.Millisecond)
				if prim.eng.FlushImMemTables() == nil {
					flushes.Add(1)
				}
			}
		}()
	}
	if *ack {
		ac, err := attachAckClient(paddr)
		if err != nil {
			return fail("cannot attach the acknowledging client: " + err.Error())
		}
		log.ev(map[string]interface{}{"e": "fault", "mode": "ack", "id": "ack-client:1"})
		go func() {
			got := uint64(0)
			for !bgStop.Load() {
				for drained := false; !drained; {
					select {
					case q := <-ac.maxSeq:
						if q > got {
							got = q
						}
					default:
						drained = true
					}
				}
				if got > 0 {
					if ok, _ := ac.acknowledge(got); ok {
						acks.Add(1)
					}
				}
				time.Sleep(3 * time.Millisecond)
			}
			ac.cancel()
			ac.conn.Close()
		}()
	}
	if *nack {
		nc, err := attachAckClient(paddr)
		if err != nil {
			return fail("cannot attach the negatively acknowledging client: " + err.Error())
		}
		log.ev(map[string]interface{}{"e": "fault", "mode": "nack", "id": "ack-client:1"})
		go func() {
			got := uint64(0)
			for !bgStop.Load() {
				for drained := false; !drained; {
					select {
					case q := <-nc.maxSeq:
						if q > got {
							got = q
						}
					default:
						drained = true
					}
				}
				if got > 0 {
					ctx, cancel := context.WithTimeout(metadata.NewOutgoingContext(context.Background(), metadata.Pairs("session-id", nc.session)), 5*time.Second)
					if r, err := nc.client.NegativeAcknowledge(ctx, &rproto.Nack{MissingFromSequence: got}); err == nil && r.Success {
						acks.Add(1)
					}
					cancel()
				}
				time.Sleep(3 * time.Millisecond)
			}
			nc.cancel()
			nc.conn.Close()
		}()
	}
	hung := func() bool {
		now := time.Now().UnixNano()
		for w, st := range ws {
			if s := st.start.Load(); s != 0 && time.Duration(now-s) > deadline {
				c := fmt.Sprintf("w%d", w+1)
				for x, sx := range ws {
					log.ev(map[string]interface{}{"e": "ops", "c": fmt.Sprintf("w%d", x+1), "n": sx.done.Load()})
				}
				log.ev(map[string]interface{}{"e": "inv", "c": c, "op": st.kind.Load()})
				log.ev(map[string]interface{}{"e": "hang", "c": c, "op": st.kind.Load(), "waited_ms": deadline.Milliseconds()})
				if *stacks != "" {
					buf := make([]byte, 8<<20)
					os.WriteFile(*stacks, buf[:runtime.Stack(buf, true)], 0644)
				}
				return true
			}
		}
		return false
	}
	waitWatching := func(d time.Duration) bool {
		end := time.Now().Add(d)
		for time.Now().Before(end) {
			if hung() {
				return false
			}
			time.Sleep(20 * time.Millisecond)
		}
		return true
	}
	rng := rand.New(rand.NewSource(*seed))
	var clients sync.WaitGroup
	modes := []string{"cut", "cut", "stallcut", "clean"}
	nfaulty := 0
	for r := 0; r < *rounds; r++ {
		for k := 0; k < 2; k++ {
			mode := modes[rng.Intn(len(modes))]
			readFor := time.Duration(20+rng.Intn(180)) * time.Millisecond
			nfaulty++
			id := fmt.Sprintf("churn-client-%d:1", nfaulty)
			// the attachment itself goes through the primary (registration): watch the writers meanwhile
			errc := make(chan error, 1)
			var from uint64
			if *head {
				fmt.Sscan(replEngLastSeq(prim.eng), &from)
			}
			go func() { errc <- replChurnClientFrom(paddr, id, mode, readFor, &clients, from) }()
			attached := false
			for t0 := time.Now(); time.Since(t0) < 12*time.Second; {
				select {
				case err := <-errc:
					if err != nil {
						return fail("cannot attach a client: " + err.Error())
					}
					attached = true
				default:
				}
				if attached {
					break
				}
				if hung() {
					log.close()
					return 0
				}
				time.Sleep(10 * time.Millisecond)
			}
			if !attached {
				if hung() {
					log.close()
					return 0
				}
				return fail("a client could not attach within 12 s although no primary operation is overdue")
			}
			log.ev(map[string]interface{}{"e": "fault", "mode": mode, "id": id, "read_ms": readFor.Milliseconds()})
		}
		if !waitWatching(time.Duration(30+rng.Intn(120)) * time.Millisecond) {
			log.close()
			return 0
		}
	}
	// let the last clients finish, still writing
	cd := make(chan struct{})
	go func() { clients.Wait(); close(cd) }()
	for fin := false; !fin; {
		select {
		case <-cd:
			fin = true
		default:
			if hung() {
				log.close()
				return 0
			}
			time.Sleep(20 * time.Millisecond)
		}
	}
	if !waitWatching(1500 * time.Millisecond) { // covers a heartbeat round over the dead sessions
		log.close()
		return 0
	}
	stop.Store(true)
	bgStop.Store(true)
	if *ack || *nack || *flushMs > 0 {
		log.ev(map[string]interface{}{"e": "note", "acknowledgements": acks.Load(), "flushes": flushes.Load()})
	}
	wd := make(chan struct{})
	go func() { wg.Wait(); close(wd) }()
	for fin := false; !fin; {
		select {
		case <-wd:
			fin = true
		default:
			if hung() {
				log.close()
				return 0
			}
			time.Sleep(20 * time.Millisecond)
		}
	}
	total := int64(0)
	for w, st := range ws {
		if e := st.err.Load(); e != nil {
			return fail("operation failed under churn: " + e.(string))
		}
		total += st.done.Load()
		log.ev(map[string]interface{}{"e": "ops", "c": fmt.Sprintf("w%d", w+1), "n": st.done.Load()})
	}
	log.ev(map[string]interface{}{"e": "note", "operations": total, "clients": nfaulty})
	// topology: every client is gone (GetNodeInfo itself must return: it takes the sessions lock)
	t0 := time.Now()
	dropped := false
	for time.Since(t0) < 14*time.Second && !dropped {
		ch := make(chan []replication.ReplicationNodeInfo, 1)
		go func() { _, _, reps, _, _ := prim.mgr.GetNodeInfo(); ch <- reps }()
		select {
		case reps := <-ch:
			dropped = true
			for _, r := range reps {
				if strings.HasPrefix(r.Address, "churn-client-") {
					dropped = false
				}
			}
		case <-time.After(5 * time.Second):
			log.ev(map[string]interface{}{"e": "inv", "c": "topo", "op": "GetNodeInfo"})
			log.ev(map[string]interface{}{"e": "hang", "c": "topo", "op": "GetNodeInfo", "waited_ms": 5000})
			log.close()
			return 0
		}
		if !dropped {
			time.Sleep(200 * time.Millisecond)
		}
	}
	log.ev(map[string]interface{}{"e": "topo", "dropped": dropped, "ms": time.Since(t0).Milliseconds()})
	if repl != nil {
		t0 := time.Now()
		ok := false
		var pn, rn int
		for time.Since(t0) < 60*time.Second && !ok {
			ok = true
			pn, rn = 0, 0
			for w := 0; w < *writers && ok; w++ {
				for i := 0; i < 33; i++ {
					pv, perr := prim.eng.Get(keyOf(w, i))
					rv, rerr := repl.eng.Get(keyOf(w, i))
					if perr == nil {
						pn++
					}
					if rerr == nil {
						rn++
					}
					if isNotFound(perr) != isNotFound(rerr) || string(pv) != string(rv) {
						ok = false
						break
					}
				}
			}
			if !ok {
				time.Sleep(200 * time.Millisecond)
			}
		}
		log.ev(map[string]interface{}{"e": "hconv", "ok": ok, "ms": time.Since(t0).Milliseconds(), "primary_keys": pn, "replica_keys": rn})
	}
	log.close()
	return 0
}
