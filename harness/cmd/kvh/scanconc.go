package main

import (
	"bytes"
	"flag"
	"fmt"
	"math/rand"
	"os"
	"time"

	"github.com/KevoDB/kevo/pkg/wal"
)

func init() { register("scan-concurrent", scanConcurrentCmd) }

// scan-concurrent: C05 running-scan clause.  A scan of the real engine is stepped one Next at a time; between the steps
// foreign writers put/delete keys OUTSIDE the stable set, and the harness flushes and compacts.  Every yield is logged
// for validation against TRACE_Scan.
func scanConcurrentCmd(args []string) int {
	fs := flag.NewFlagSet("scan-concurrent", flag.ExitOnError)
	dir := fs.String("dir", "", "database directory")
	out := fs.String("out", "", "trace (ndjson)")
	seed := fs.Int64("seed", 1, "seed")
	n := fs.Int("n", 14, "keys")
	mem := fs.Int64("mem", 200, "memtable size")
	ranged := fs.Bool("range", false, "use a range iterator covering all keys")
	memOnly := fs.Bool("memonly", false, "no flush and no compaction at all: everything the scan shows comes from the one memory table the writers keep inserting into")
	seeks := fs.Bool("seeks", false, "start the scan with Seek and re-seek forward now and then (instead of SeekToFirst/Next only)")
	fs.Parse(args)
	stderr := os.Stderr
	muteStdout()
	wal.DisableRecoveryLogs = true
	eng, err := openEngine(*dir, &CfgClass{MemTableSize: *mem, MaxMemTables: 3, SyncMode: 0, CompactSec: 3600})
	if err != nil {
		fmt.Fprintln(stderr, err)
		return 2
	}
	log, err := newEvLog(*out)
	if err != nil {
		fmt.Fprintln(stderr, err)
		return 2
	}
	rng := rand.New(rand.NewSource(*seed))
	key := func(p int) []byte { return []byte(fmt.Sprintf("scan-key-%03d", p)) }
	stableVal := func(p int) []byte { return []byte(fmt.Sprintf("stable-value-%03d", p)) }
	stable := make([]bool, *n+1)
	st := []bool{}
	for p := 1; p <= *n; p++ {
		stable[p] = rng.Intn(2) == 0
		st = append(st, stable[p])
	}
	// stable array is 1-based in the trace: TLA+ sequences start at 1
	log.ev(map[string]interface{}{"e": "reset", "n": *n, "stable": st})
	for p := 1; p <= *n; p++ {
		if stable[p] || rng.Intn(2) == 0 {
			if err := retryRot(func() error { return eng.Put(key(p), stableVal(p)) }); err != nil {
				fmt.Fprintln(stderr, err)
				return 3
			}
		}
		if rng.Intn(5) == 0 && !*memOnly {
			eng.FlushImMemTables()
		}
	}
	it, err := eng.GetIterator()
	if *ranged {
		it, err = eng.GetRangeIterator(key(0), key(*n+1))
	}
	if err != nil {
		fmt.Fprintln(stderr, err)
		return 3
	}
	recent := 0 // position of the foreign write made last
	foreign := func() {
		for j, m := 0, rng.Intn(4); j < m; j++ {
			switch r := rng.Intn(10); {
			case r < 6:
				p := 1 + rng.Intn(*n)
				if stable[p] {
					continue
				}
				// one to three versions in a row: several entries newer than the scan's snapshot then stand side by side
				for v, nv := 0, 1+rng.Intn(3); v < nv; v++ {
					var err error
					if rng.Intn(3) == 0 {
						err = retryRot(func() error { return eng.Delete(key(p)) })
					} else {
						err = retryRot(func() error { return eng.Put(key(p), []byte(fmt.Sprintf("volatile-%d", rng.Int()))) })
					}
					if err == nil {
						log.ev(map[string]interface{}{"e": "wrote", "pos": p})
						recent = p
					}
				}
			case *memOnly:
			case r < 8:
				eng.FlushImMemTables()
				log.ev(map[string]interface{}{"e": "flush"})
			default:
				eng.TriggerCompaction()
				log.ev(map[string]interface{}{"e": "compact"})
			}
		}
	}
	foreign()
	last := 0
	seekTo := func(t int) {
		// Seek(t): the scan continues on the smallest key >= key(t); logged so that the specification skips the keys below t
		it.Seek(key(t))
		log.ev(map[string]interface{}{"e": "seek", "pos": t})
		last = t - 1
	}
	if *seeks {
		seekTo(rng.Intn(*n/2 + 1))
	} else {
		it.SeekToFirst()
	}
	for steps := 0; it.Valid() && steps < 10**n; steps++ {
		if !it.IsTombstone() {
			k := it.Key()
			p := -1
			for q := 1; q <= *n; q++ {
				if bytes.Equal(k, key(q)) {
					p = q
				}
			}
			ok := p > 0 && bytes.Equal(it.Value(), stableVal(p))
			log.ev(map[string]interface{}{"e": "yield", "pos": p, "ok": ok})
			if p > last {
				last = p
			}
		}
		foreign()
		if *seeks && last < *n && recent > last && rng.Intn(2) == 0 {
			// right onto the key that was just written (its new versions are invisible to this scan)
			seekTo(recent)
		} else if *seeks && last < *n && rng.Intn(5) == 0 {
			// a short jump ahead (long ones would end the scan early)
			seekTo(last + 1 + rng.Intn(min(3, *n-last)))
		} else {
			it.Next()
		}
	}
	log.ev(map[string]interface{}{"e": "end"})
	log.close()
	quiesce(5 * time.Second)
	eng.Close()
	return 0
}
