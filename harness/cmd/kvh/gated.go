package main

import (
	"encoding/json"
	"flag"
	"fmt"
	"os"
	"sync"
	"time"

	"github.com/KevoDB/kevo/pkg/verifhook"
	"github.com/KevoDB/kevo/pkg/wal"
)

// gate parks goroutines at hook sites.  Park(site, n) makes the n-th hit of site block until Release is called;
// Wait blocks until some goroutine is parked there (or the timeout passes).
type gate struct {
	mu      sync.Mutex
	want    map[string]int
	hits    map[string]int
	parked  map[string]chan struct{}
	arrived map[string]chan struct{}
}

func newGate() *gate {
	g := &gate{want: map[string]int{}, hits: map[string]int{}, parked: map[string]chan struct{}{}, arrived: map[string]chan struct{}{}}
	verifhook.SetGate(g.at)
	return g
}

func (g *gate) Park(site string, nth int) {
	g.mu.Lock()
	g.want[site] = nth
	g.hits[site] = 0
	g.parked[site] = make(chan struct{})
	g.arrived[site] = make(chan struct{})
	g.mu.Unlock()
}

func (g *gate) at(site string, a, b uint64) {
	g.mu.Lock()
	n, ok := g.want[site]
	if !ok {
		g.mu.Unlock()
		return
	}
	g.hits[site]++
	if g.hits[site] != n {
		g.mu.Unlock()
		return
	}
	delete(g.want, site)
	rel, arr := g.parked[site], g.arrived[site]
	g.mu.Unlock()
	close(arr)
	<-rel
}

func (g *gate) Wait(site string, d time.Duration) bool {
	g.mu.Lock()
	arr := g.arrived[site]
	g.mu.Unlock()
	if arr == nil {
		return false
	}
	select {
	case <-arr:
		return true
	case <-time.After(d):
		return false
	}
}

func (g *gate) Release(site string) {
	g.mu.Lock()
	rel := g.parked[site]
	delete(g.parked, site)
	g.mu.Unlock()
	if rel != nil {
		close(rel)
	}
}

func (g *gate) Close() { verifhook.SetGate(nil) }

func init() { register("crash-rotate-window", crashRotateWindowCmd) }

// crash-rotate-window: the flush path is parked at a step of the log rotation (-site) while the client writes one more
// operation that reaches the OS (SyncBatch with a tiny threshold: the second write is large enough to trigger the sync,
// the first is not); then the process stops.  Recovery must still see a prefix: the second write without the first is
// a reordering (C02).
func crashRotateWindowCmd(args []string) int {
	fs := flag.NewFlagSet("crash-rotate-window", flag.ExitOnError)
	dir := fs.String("dir", "", "database directory")
	ackp := fs.String("ack", "", "acknowledgement log")
	site := fs.String("site", "sm.rotate.swapped", "rotation step at which the flush path is parked")
	fs.Parse(args)
	ackf, err := os.OpenFile(*ackp, os.O_WRONLY|os.O_CREATE|os.O_APPEND|os.O_SYNC, 0644)
	if err != nil {
		fmt.Fprintln(os.Stderr, err)
		return 2
	}
	stderr := os.Stderr
	muteStdout()
	wal.DisableRecoveryLogs = true
	conc := Conc{Class: "ascii"}
	cc := CfgClass{MemTableSize: 1 << 20, SyncMode: 1, SyncBytes: 40, CompactSec: 3600}
	eng, err := openEngine(*dir, &cc)
	if err != nil {
		fmt.Fprintln(stderr, err)
		return 2
	}
	logEv := func(e string, op []kvEntry) {
		m := map[string]interface{}{"e": e}
		if op != nil {
			m["op"] = op
		}
		b, _ := json.Marshal(m)
		ackf.Write(append(b, '\n'))
	}
	// A: small, stays in the log buffer (below the sync threshold)
	opA := []kvEntry{{K: "k1", V: "v1"}}
	logEv("issue", opA)
	if err := eng.Put(conc.Key("k1"), conc.Val("v1")); err != nil {
		fmt.Fprintln(stderr, "put A:", err)
		return 3
	}
	logEv("ack", nil)
	g := newGate()
	g.Park(*site, 1)
	go eng.FlushImMemTables()
	if !g.Wait(*site, 5*time.Second) {
		fmt.Fprintln(stderr, "flush path never reached", *site)
		return 4
	}
	// B: a two-entry batch, larger than the sync threshold -> flushed and synced in whatever log object the write path uses now
	opB := []kvEntry{{K: "k2", V: "v2"}, {K: "k3", V: "v3"}}
	logEv("issue", opB)
	done := make(chan error, 1)
	go func() {
		tx, err := eng.BeginTransaction(false)
		if err != nil {
			done <- err
			return
		}
		tx.Put(conc.Key("k2"), conc.Val("v2"))
		tx.Put(conc.Key("k3"), conc.Val("v3"))
		done <- tx.Commit()
	}()
	select {
	case err := <-done:
		if err != nil {
			logEv("fail", nil)
		} else {
			logEv("ack", nil)
		}
	case <-time.After(300 * time.Millisecond):
		// the writer waits for the rotation to finish: nothing of B can be durable yet
		logEv("pending", nil)
	}
	os.Exit(137)
	return 0
}
