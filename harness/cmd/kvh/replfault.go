package main

// C15 fault scenarios: a misbehaving replication client written with the generated gRPC stubs is attached to a real
// primary (replication.Manager in primary mode over loopback TCP), optionally next to one healthy real replica.  The
// driver measures the latency of Put / Get / Commit without the fault, attaches the client, and keeps writing until an
// operation misses its deadline (10 x the unfaulted maximum of the same run, at least 5 s) or the byte budget is used
// up.  Every operation is logged as inv/ret; a missed deadline as hang.  Afterwards the topology the primary reports is
// polled for the faulty client and the healthy replica is compared with the primary.

import (
	"bytes"
	"context"
	"crypto/sha1"
	"flag"
	"fmt"
	"net"
	"os"
	"path/filepath"
	"sync"
	"time"

	"github.com/KevoDB/kevo/pkg/engine"
	"github.com/KevoDB/kevo/pkg/replication"
	rproto "github.com/KevoDB/kevo/proto/kevo/replication"
	"google.golang.org/grpc"
	"google.golang.org/grpc/credentials/insecure"
)

func init() {
	register("repl-fault", replFaultCmd)
}

const replFaultyID = "faulty-client:1"

type replFaultClient struct {
	mode   string
	mu     sync.Mutex
	raw    net.Conn
	conn   *grpc.ClientConn
	cancel context.CancelFunc
	recvd  int
}

// attach opens StreamWAL the way a replica does and then misbehaves according to mode:
//
//	norecv  never calls Recv
//	noack   reads everything, never acknowledges
//	slow    reads one message every 100 ms
//	cut     reads until ~1 MB arrived, then resets the TCP connection
func replAttachFaulty(addr, mode string) (*replFaultClient, error) {
	fc := &replFaultClient{mode: mode}
	dial := func(ctx context.Context, a string) (net.Conn, error) {
		c, err := (&net.Dialer{}).DialContext(ctx, "tcp", a)
		if err == nil {
			fc.mu.Lock()
			fc.raw = c
			fc.mu.Unlock()
		}
		return c, err
	}
	ctx, cancel := context.WithTimeout(context.Background(), 10*time.Second)
	defer cancel()
	conn, err := grpc.DialContext(ctx, addr, grpc.WithTransportCredentials(insecure.NewCredentials()), grpc.WithBlock(),
		grpc.WithContextDialer(dial), grpc.WithDefaultCallOptions(grpc.MaxCallRecvMsgSize(64<<20)))
	if err != nil {
		return nil, err
	}
	fc.conn = conn
	sctx, scancel := context.WithCancel(context.Background())
	fc.cancel = scancel
	stream, err := rproto.NewWALReplicationServiceClient(conn).StreamWAL(sctx, &rproto.WALStreamRequest{
		StartSequence: 0, ProtocolVersion: 1, CompressionSupported: false, ListenerAddress: replFaultyID})
	if err != nil {
		return nil, err
	}
	if _, err := stream.Header(); err != nil {
		return nil, err
	}
	switch mode {
	case "norecv":
		// nothing: the stream stays open and is never read
	case "noack", "slow", "cut":
		go func() {
			got := 0
			for {
				m, err := stream.Recv()
				if err != nil {
					return
				}
				for _, e := range m.Entries {
					got += len(e.Payload)
				}
				fc.mu.Lock()
				fc.recvd = got
				fc.mu.Unlock()
				if mode == "slow" {
					time.Sleep(100 * time.Millisecond)
				}
				if mode == "cut" && got > 1<<20 {
					fc.mu.Lock()
					if tc, ok := fc.raw.(*net.TCPConn); ok {
						tc.SetLinger(0) // RST instead of FIN: an abrupt cut
					}
					fc.raw.Close()
					fc.mu.Unlock()
					return
				}
			}
		}()
	}
	return fc, nil
}

func replFillerKey(i int) []byte { return []byte(fmt.Sprintf("fill-%03d", i)) }

func replFillerVal(seed uint64, n, size int) []byte {
	b := make([]byte, size)
	x := seed*1000003 + uint64(n)*7919 + 1
	for i := range b {
		x = x*6364136223846793005 + 1442695040888963407
		b[i] = byte(x >> 56)
	}
	return b
}

func replDigestScan(e *engine.EngineFacade) (string, int, error) {
	// point reads of every key the scenario writes (values of a scan over several memtables are another property's subject)
	h := sha1.New()
	n := 0
	for i := 0; i < 16; i++ {
		v, err := e.Get(replFillerKey(i))
		if isNotFound(err) {
			continue
		}
		if err != nil {
			return "", 0, err
		}
		h.Write(replFillerKey(i))
		h.Write([]byte{0})
		h.Write(v)
		h.Write([]byte{1})
		n++
	}
	return fmt.Sprintf("%x", h.Sum(nil)), n, nil
}

func replFaultCmd(args []string) int {
	fs := flag.NewFlagSet("repl-fault", flag.ExitOnError)
	dir := fs.String("dir", "", "scratch directory")
	out := fs.String("out", "", "trace (ndjson)")
	seed := fs.Uint64("seed", 1, "seed")
	mode := fs.String("mode", "norecv", "norecv | noack | slow | cut | none")
	healthy := fs.Int("healthy", 0, "number of healthy real replicas (0 or 1)")
	attachAfter := fs.Int("attach", 30, "unfaulted rounds before the faulty client is attached (baseline latency)")
	maxMB := fs.Int("maxmb", 64, "bytes to write after the attachment")
	valKB := fs.Int("valkb", 64, "value size")
	hbInt := fs.Int("hbint", 1, "heartbeat interval (s)")
	hbTimeout := fs.Int("hbtimeout", 3, "heartbeat time-out (s)")
	logTo := fs.String("log", "", "keep the engines' chatter in this file")
	fs.Parse(args)
	stderr := os.Stderr
	muteStdout()
	replQuietLogs(*logTo)
	log, err := newEvLog(*out)
	if err != nil {
		fmt.Fprintln(stderr, err)
		return 2
	}
	fail := func(msg string) int {
		log.ev(map[string]interface{}{"e": "error", "msg": msg})
		log.close()
		return 0
	}
	log.ev(map[string]interface{}{"e": "reset"})
	pc := replication.DefaultPrimaryConfig()
	pc.HeartbeatConfig = &replication.HeartbeatConfig{Interval: time.Duration(*hbInt) * time.Second,
		Timeout: time.Duration(*hbTimeout) * time.Second, SendEmptyResponses: true}
	paddr := replFreeAddr()
	cc := CfgClass{MemTableSize: 8 << 20, MaxMemTables: 4, SyncMode: 0, CompactSec: 3600}
	prim, err := startReplPrimary(filepath.Join(*dir, "primary"), paddr, &cc, pc)
	if err != nil {
		return fail("primary: " + err.Error())
	}
	var repl *replNode
	if *healthy > 0 {
		repl, err = startReplReplica(filepath.Join(*dir, "replica"), replFreeAddr(), paddr, &cc)
		if err != nil {
			return fail("replica: " + err.Error())
		}
		time.Sleep(1500 * time.Millisecond)
	}

	// one operation with a deadline; returns its latency, or false if it has not returned in time
	type res struct{ err error }
	maxLat := map[string]time.Duration{}
	deadline := time.Duration(0)
	nput := 0
	total := 0
	run := func(kind string, f func() error) (bool, error) {
		log.ev(map[string]interface{}{"e": "inv", "op": kind})
		ch := make(chan res, 1)
		t0 := time.Now()
		go func() { ch <- res{f()} }()
		var tm <-chan time.Time
		if deadline > 0 {
			tm = time.After(deadline)
		}
		select {
		case r := <-ch:
			d := time.Since(t0)
			if deadline == 0 && d > maxLat[kind] {
				maxLat[kind] = d
			}
			if r.err != nil {
				return true, r.err
			}
			log.ev(map[string]interface{}{"e": "ret", "op": kind, "us": d.Microseconds()})
			return true, nil
		case <-tm:
			log.ev(map[string]interface{}{"e": "hang", "op": kind, "bytes_since_fault": total, "waited_ms": deadline.Milliseconds()})
			return false, nil
		}
	}
	put := func() error {
		nput++
		v := replFillerVal(*seed, nput, *valKB<<10)
		total += len(v)
		return prim.eng.Put(replFillerKey(nput%16), v)
	}
	get := func() error {
		_, err := prim.eng.Get(replFillerKey(nput % 16))
		if isNotFound(err) {
			return nil
		}
		return err
	}
	commit := func() error {
		tx, err := prim.eng.BeginTransaction(false)
		if err != nil {
			return err
		}
		for j := 0; j < 2; j++ {
			nput++
			v := replFillerVal(*seed, nput, *valKB<<10)
			total += len(v)
			if err := tx.Put(replFillerKey(nput%16), v); err != nil {
				tx.Rollback()
				return err
			}
		}
		return tx.Commit()
	}
	round := func(i int) (bool, error) {
		if ok, err := run("put", put); !ok || err != nil {
			return ok, err
		}
		if i%4 == 0 {
			if ok, err := run("get", get); !ok || err != nil {
				return ok, err
			}
		}
		if i%8 == 0 {
			if ok, err := run("commit", commit); !ok || err != nil {
				return ok, err
			}
		}
		return true, nil
	}
	for i := 1; i <= *attachAfter; i++ {
		if _, err := round(i); err != nil {
			return fail("baseline operation failed: " + err.Error())
		}
	}
	worst := time.Duration(0)
	for _, d := range maxLat {
		if d > worst {
			worst = d
		}
	}
	deadline = 10 * worst
	if deadline < 5*time.Second {
		deadline = 5 * time.Second
	}
	log.ev(map[string]interface{}{"e": "note", "baseline_max_us": worst.Microseconds(), "deadline_ms": deadline.Milliseconds()})
	var fc *replFaultClient
	if *mode != "none" {
		fc, err = replAttachFaulty(paddr, *mode)
		if err != nil {
			return fail("cannot attach the faulty client: " + err.Error())
		}
		log.ev(map[string]interface{}{"e": "fault", "mode": *mode})
	}
	total = 0
	for i := 1; total < *maxMB<<20; i++ {
		ok, err := round(i)
		if err != nil {
			return fail("operation failed with a faulty replica attached: " + err.Error())
		}
		if !ok {
			log.close()
			return 0 // the primary is stuck; the trace says so
		}
	}
	log.ev(map[string]interface{}{"e": "note", "written_since_fault": total})
	// topology: a client that stopped reading, or whose connection was cut, must disappear from what the primary reports
	if fc != nil && (*mode == "norecv" || *mode == "cut") {
		limit := time.Duration(*hbTimeout+*hbInt)*time.Second + 10*time.Second
		t0 := time.Now()
		dropped := false
		for time.Since(t0) < limit && !dropped {
			_, _, reps, _, _ := prim.mgr.GetNodeInfo()
			dropped = true
			for _, r := range reps {
				if r.Address == replFaultyID {
					dropped = false
				}
			}
			if !dropped {
				time.Sleep(200 * time.Millisecond)
			}
		}
		log.ev(map[string]interface{}{"e": "topo", "dropped": dropped, "ms": time.Since(t0).Milliseconds()})
	}
	if repl != nil {
		t0 := time.Now()
		ok := false
		var pd, rd string
		var pn, rn int
		for time.Since(t0) < 60*time.Second && !ok {
			pd, pn, _ = replDigestScan(prim.eng)
			rd, rn, _ = replDigestScan(repl.eng)
			ok = pd == rd
			if !ok {
				time.Sleep(200 * time.Millisecond)
			}
		}
		log.ev(map[string]interface{}{"e": "hconv", "ok": ok, "ms": time.Since(t0).Milliseconds(), "primary_keys": pn, "replica_keys": rn})
	}
	log.close()
	if fc != nil && fc.cancel != nil {
		fc.cancel()
	}
	_ = bytes.Equal
	return 0
}
