package main

import (
	"bufio"
	"bytes"
	"encoding/json"
	"errors"
	"fmt"
	"io"
	"os"
	"path/filepath"
	"sort"
	"strings"
	"time"

	"github.com/KevoDB/kevo/pkg/config"
	"github.com/KevoDB/kevo/pkg/engine"
	"github.com/KevoDB/kevo/pkg/verifhook"
)

// ---------------------------------------------------------------------------------------------
// Concretisation: the specification talks about key and value TOKENS ("k1", "v2", "TOMB"/"NONE");
// the harness turns each token into bytes drawn from shape classes that the specification names.

type Conc struct {
	Class string // "ascii" | "binary" | "big"
	Seed  uint64
}

func (c Conc) Key(tok string) []byte {
	switch c.Class {
	case "binary":
		// long shared prefix, 0x00 / 0xFF bytes, order of tokens preserved; the first key token is the EMPTY key (the embedded
		// API accepts it; it sorts in front of everything)
		if tok == "k1" {
			return []byte{}
		}
		return append([]byte{0x00, 0xFF, 0x00, 'k', 0xFF, 0xFF}, []byte(tok)...)
	case "big":
		return append(bytes.Repeat([]byte("P"), 200), []byte(tok)...)
	}
	return []byte("key-" + tok)
}

// Val returns the bytes of a value token.  In class "binary" the first value token is the EMPTY value;
// in class "big" values are larger than one log fragment (32 KB) resp. one table block (64 KB).
func (c Conc) Val(tok string) []byte {
	n := 0
	fmt.Sscanf(strings.TrimLeft(tok, "v"), "%d", &n)
	if strings.HasPrefix(c.Class, "edge:") {
		// size sweep: value token v<n> is base+n bytes long (base from the class name): the classes "edge:<base>" for a range of
		// bases cover every length around a format boundary (log fragment 32 KB, log buffer / table block 64 KB)
		base := 0
		fmt.Sscanf(c.Class[5:], "%d", &base)
		b := make([]byte, base+n)
		x := c.Seed*1000003 + uint64(n)*7919 + uint64(base) + 1
		for i := range b {
			x = x*6364136223846793005 + 1442695040888963407
			b[i] = byte(x >> 56)
		}
		copy(b, []byte(tok+"|"))
		return b
	}
	switch c.Class {
	case "binary":
		if n == 1 {
			return []byte{}
		}
		return append([]byte{0xFF, 0x00, byte(n)}, []byte(tok)...)
	case "big":
		size := 100
		if n%3 == 1 {
			size = 40 * 1024
		} else if n%3 == 2 {
			size = 70 * 1024
		}
		b := make([]byte, size)
		x := c.Seed*1000003 + uint64(n)*7919 + 1
		for i := range b {
			x = x*6364136223846793005 + 1442695040888963407
			b[i] = byte(x >> 56)
		}
		copy(b, []byte(tok+"|"))
		return b
	}
	return []byte("val-" + tok)
}

// ValToken maps bytes read from the engine back to a token (or "?<hex>" if it is no token's value).
func (c Conc) ValToken(b []byte, toks []string) string {
	for _, t := range toks {
		if bytes.Equal(c.Val(t), b) {
			return t
		}
	}
	if len(b) > 24 {
		return fmt.Sprintf("?%x...(%d bytes)", b[:24], len(b))
	}
	return fmt.Sprintf("?%x", b)
}

func (c Conc) KeyToken(b []byte, toks []string) string {
	for _, t := range toks {
		if bytes.Equal(c.Key(t), b) {
			return t
		}
	}
	return fmt.Sprintf("?%x", b)
}

// ---------------------------------------------------------------------------------------------
// Configuration classes (the only way kevo offers to choose a configuration is the MANIFEST).

type CfgClass struct {
	MemTableSize int64 `json:"memtable_size"`
	MaxMemTables int   `json:"max_memtables"`
	SyncMode     int   `json:"sync_mode"` // 0 none, 1 batch, 2 immediate
	SyncBytes    int64 `json:"sync_bytes"`
	CompactSec   int64 `json:"compact_sec"`
}

func writeManifest(dir string, cc CfgClass) error {
	cfg := config.NewDefaultConfig(dir)
	if cc.MemTableSize > 0 {
		cfg.MemTableSize = cc.MemTableSize
	}
	if cc.MaxMemTables > 0 {
		cfg.MaxMemTables = cc.MaxMemTables
	}
	cfg.WALSyncMode = config.SyncMode(cc.SyncMode)
	if cc.SyncBytes > 0 {
		cfg.WALSyncBytes = cc.SyncBytes
	}
	if cc.CompactSec > 0 {
		cfg.CompactionInterval = cc.CompactSec
	}
	return cfg.SaveManifest(dir)
}

func openEngine(dir string, cc *CfgClass) (*engine.EngineFacade, error) {
	if cc != nil {
		if _, err := os.Stat(filepath.Join(dir, "MANIFEST")); os.IsNotExist(err) {
			if err := os.MkdirAll(dir, 0755); err != nil {
				return nil, err
			}
			if err := writeManifest(dir, *cc); err != nil {
				return nil, err
			}
		}
	}
	return engine.NewEngineFacade(dir)
}

// quiesce waits until no flush and no compaction cycle is running (hook counters balanced).
func quiesce(max time.Duration) bool {
	deadline := time.Now().Add(max)
	stable := 0
	for time.Now().Before(deadline) {
		c := verifhook.Counts()
		if c["sm.flush.begin"] == c["sm.flush.end"] && c["cmp.cycle.begin"] == c["cmp.cycle.end"] {
			stable++
			if stable >= 3 {
				return true
			}
		} else {
			stable = 0
		}
		time.Sleep(2 * time.Millisecond)
	}
	return false
}

func isNotFound(err error) bool {
	return err != nil && (errors.Is(err, engine.ErrKeyNotFound) || strings.Contains(err.Error(), "key not found"))
}

func isRotating(err error) bool {
	return err != nil && strings.Contains(err.Error(), "WAL is rotating")
}

// ---------------------------------------------------------------------------------------------
// I/O helpers

func readLines(path string, f func(line []byte) error) error {
	fh, err := os.Open(path)
	if err != nil {
		return err
	}
	defer fh.Close()
	r := bufio.NewReaderSize(fh, 1<<20)
	for {
		line, err := r.ReadBytes('\n')
		if len(bytes.TrimSpace(line)) > 0 {
			if e := f(bytes.TrimSpace(line)); e != nil {
				return e
			}
		}
		if err == io.EOF {
			return nil
		}
		if err != nil {
			return err
		}
	}
}

type jsonOut struct {
	w *bufio.Writer
	f *os.File
}

func newJSONOut(path string) (*jsonOut, error) {
	if path == "" || path == "-" {
		return &jsonOut{w: bufio.NewWriter(os.Stdout)}, nil
	}
	f, err := os.Create(path)
	if err != nil {
		return nil, err
	}
	return &jsonOut{w: bufio.NewWriter(f), f: f}, nil
}

func (o *jsonOut) Put(v interface{}) {
	b, _ := json.Marshal(v)
	o.w.Write(b)
	o.w.WriteByte('\n')
}

func (o *jsonOut) Close() {
	o.w.Flush()
	if o.f != nil {
		o.f.Close()
	}
}

func sortedKeys(m map[string]string) []string {
	ks := make([]string, 0, len(m))
	for k := range m {
		ks = append(ks, k)
	}
	sort.Strings(ks)
	return ks
}

// silence the engine's chatter on stdout (it prints from NewWAL, recovery, registry ...): results go to files.
func muteStdout() {
	devnull, err := os.OpenFile(os.DevNull, os.O_WRONLY, 0)
	if err == nil {
		os.Stdout = devnull
	}
}
