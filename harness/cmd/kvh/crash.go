package main

import (
	"encoding/json"
	"flag"
	"fmt"
	"os"
	"time"

	"github.com/KevoDB/kevo/pkg/wal"
)

func init() {
	register("crash-child", crashChildCmd)
	register("observe", observeCmd)
}

// crash-child executes ONE behaviour against -dir (which may already hold a database: opening it is the
// recovery under test) and appends issue/ack/fail/close/open lines to -ack with one synchronous write per
// line.  The process is expected to be ended by the hook layer (VERIF_DIE_AT=site:k) somewhere on the way;
// if it reaches the end it closes the engine cleanly and logs "close".
func crashChildCmd(args []string) int {
	fs := flag.NewFlagSet("crash-child", flag.ExitOnError)
	in := fs.String("in", "", "behaviour (one JSON array)")
	dir := fs.String("dir", "", "database directory")
	ackp := fs.String("ack", "", "acknowledgement log")
	class := fs.String("class", "ascii", "concretisation class")
	seed := fs.Uint64("seed", 1, "seed")
	cfgJSON := fs.String("cfg", "{}", "configuration class (JSON), used only when the directory is new")
	noclose := fs.Bool("noclose", false, "end without closing the engine (os.Exit) - a stop after the last call")
	fs.Parse(args)
	var cc CfgClass
	if err := json.Unmarshal([]byte(*cfgJSON), &cc); err != nil {
		fmt.Fprintln(os.Stderr, "bad -cfg:", err)
		return 2
	}
	raw, err := os.ReadFile(*in)
	if err != nil {
		fmt.Fprintln(os.Stderr, err)
		return 2
	}
	var steps []storeStep
	if err := json.Unmarshal(raw, &steps); err != nil {
		fmt.Fprintln(os.Stderr, err)
		return 2
	}
	ackf, err := os.OpenFile(*ackp, os.O_WRONLY|os.O_CREATE|os.O_APPEND|os.O_SYNC, 0644)
	if err != nil {
		fmt.Fprintln(os.Stderr, err)
		return 2
	}
	stderr := os.Stderr
	muteStdout()
	wal.DisableRecoveryLogs = true
	r := &storeReplayer{conc: Conc{Class: *class, Seed: *seed}, cc: cc, nocheck: true, ackf: ackf, dir: *dir}
	r.ack("open-begin", nil)
	mm := r.run(0, steps)
	if mm != nil {
		fmt.Fprintf(stderr, "crash-child: %s step %d: %s\n", mm.A, mm.Step, mm.Msg)
		b, _ := json.Marshal(map[string]interface{}{"e": "error", "msg": mm.Msg, "a": mm.A})
		ackf.Write(append(b, '\n'))
		return 3
	}
	if *noclose {
		os.Exit(0)
	}
	if r.eng != nil {
		quiesce(10 * time.Second)
		if err := r.eng.Close(); err != nil {
			fmt.Fprintln(stderr, "close:", err)
			return 3
		}
		r.ack("close", nil)
	}
	return 0
}

// observe opens the directory with the real engine and prints what a client sees: every key's value
// token, the last sequence number, and the log directory read back.
func observeCmd(args []string) int {
	fs := flag.NewFlagSet("observe", flag.ExitOnError)
	dir := fs.String("dir", "", "database directory")
	class := fs.String("class", "ascii", "concretisation class")
	seed := fs.Uint64("seed", 1, "seed")
	keys := fs.String("keys", "k1,k2,k3", "key tokens")
	vals := fs.String("vals", "v1,v2,v3", "value tokens")
	fs.Parse(args)
	stdout := os.Stdout
	muteStdout()
	wal.DisableRecoveryLogs = true
	conc := Conc{Class: *class, Seed: *seed}
	res := map[string]interface{}{}
	eng, err := openEngine(*dir, nil)
	if err != nil {
		res["open_error"] = err.Error()
		b, _ := json.Marshal(res)
		fmt.Fprintln(stdout, string(b))
		return 0
	}
	st := map[string]string{}
	for _, k := range splitComma(*keys) {
		v, err := eng.Get(conc.Key(k))
		switch {
		case isNotFound(err):
			st[k] = "NONE"
		case err != nil:
			st[k] = "ERR:" + err.Error()
		default:
			st[k] = conc.ValToken(v, splitComma(*vals))
		}
	}
	res["st"] = st
	res["seq"] = eng.GetStats()["storage_last_sequence"]
	quiesce(5 * time.Second)
	if err := eng.Close(); err != nil {
		res["close_error"] = err.Error()
	}
	b, _ := json.Marshal(res)
	fmt.Fprintln(stdout, string(b))
	return 0
}
