package main

// C16 "every mutating entry point ... enumerated from the interface, so that newly added ones are covered":
// the methods of interfaces.Engine, *engine.EngineFacade, interfaces.Transaction and the generated KevoServiceServer
// interface are enumerated by REFLECTION and looked up in the classification table that the specification exports
// (KevoService!EntryPoints).  Every method is then invoked through reflection with synthesised arguments on a node whose
// engine is read-only, with a full projection of the store before and after:
//   mutator    - must leave the data unchanged; where the call itself is the mutation attempt it must return an error
//   apply      - must succeed and change the data (the replication applier's way in)
//   reader, info, accessor, lifecycle - must leave the data unchanged
//   UNCLASSIFIED (not in the table) - data changed without an error is a violation: a newly added unguarded mutator is
//                caught without editing the table; a method whose arguments cannot be synthesised is reported as unprobed

import (
	"context"
	"encoding/json"
	"flag"
	"fmt"
	"os"
	"path/filepath"
	"reflect"
	"sort"
	"strings"
	"time"

	"github.com/KevoDB/kevo/pkg/engine"
	"github.com/KevoDB/kevo/pkg/engine/interfaces"
	"github.com/KevoDB/kevo/pkg/wal"
	pb "github.com/KevoDB/kevo/proto/kevo"
	"google.golang.org/grpc"
	"google.golang.org/grpc/metadata"
)

func init() { register("svc-enum", svcEnumCmd) }

type svcEntry struct {
	API   string `json:"api"`
	M     string `json:"m"`
	Class string `json:"class"`
	Act   string `json:"act"`
}

type svcEnumRow struct {
	API      string   `json:"api"`
	M        string   `json:"m"`
	Sig      string   `json:"sig"`
	Class    string   `json:"class"` // from the table, or "UNCLASSIFIED"
	Calls    int      `json:"calls"`
	Errors   int      `json:"errors"`  // calls that returned an error
	Changed  int      `json:"changed"` // calls after which the store differed
	Verdict  string   `json:"verdict"` // ok | violation | unprobed | skipped
	Detail   string   `json:"detail,omitempty"`
	Variants []string `json:"variants,omitempty"`
}

type svcEnumOut struct {
	Rows       []svcEnumRow `json:"rows"`
	Stale      []string     `json:"stale"` // table entries that name no existing method
	Violations []string     `json:"violations"`
	Unprobed   []string     `json:"unprobed"`
	Hangs      []string     `json:"hangs"`
}

func finish(res *svcEnumOut, out string) error {
	b, _ := json.MarshalIndent(res, "", " ")
	return os.WriteFile(out, b, 0644)
}

// a server stream that collects what the service sends (Scan / TxScan take one)
type fakeStream[T any] struct {
	grpc.ServerStream
	got []*T
}

func (f *fakeStream[T]) Send(m *T) error              { f.got = append(f.got, m); return nil }
func (f *fakeStream[T]) Context() context.Context     { return context.Background() }
func (f *fakeStream[T]) SetHeader(metadata.MD) error  { return nil }
func (f *fakeStream[T]) SendHeader(metadata.MD) error { return nil }
func (f *fakeStream[T]) SetTrailer(metadata.MD)       {}
func (f *fakeStream[T]) SendMsg(m any) error          { return nil }
func (f *fakeStream[T]) RecvMsg(m any) error          { return nil }

var (
	enumOldKey = []byte("enum-present") // present before every call
	enumNewKey = []byte("enum-fresh")   // absent before every call
	enumVal    = []byte("enum-value")
)

type enumProbe struct {
	node *svcNode
	txID string // an open transaction handle of the service (begun on the read-only engine)
}

// synth returns argument lists for a method type (without receiver); nil if some parameter cannot be synthesised.
// Several lists: byte-slice parameters are tried with a present and with a fresh key, booleans both ways.
func (p *enumProbe) synth(mt reflect.Type, hasRecv bool) ([][]reflect.Value, []string) {
	first := 0
	if hasRecv {
		first = 1
	}
	variants := [][]reflect.Value{{}}
	names := []string{""}
	add := func(vals []reflect.Value, labels []string) {
		nv := [][]reflect.Value{}
		nn := []string{}
		for i, base := range variants {
			for j, v := range vals {
				nv = append(nv, append(append([]reflect.Value{}, base...), v))
				nn = append(nn, strings.TrimSpace(names[i]+" "+labels[j]))
			}
		}
		variants, names = nv, nn
	}
	nbytes := 0
	for i := first; i < mt.NumIn(); i++ {
		t := mt.In(i)
		switch {
		case t == reflect.TypeOf([]byte(nil)):
			nbytes++
			if nbytes == 1 {
				add([]reflect.Value{reflect.ValueOf(enumOldKey), reflect.ValueOf(enumNewKey)}, []string{"key=present", "key=fresh"})
			} else {
				add([]reflect.Value{reflect.ValueOf(enumVal)}, []string{""})
			}
		case t.Kind() == reflect.Bool:
			add([]reflect.Value{reflect.ValueOf(false), reflect.ValueOf(true)}, []string{"false", "true"})
		case t.Kind() == reflect.String:
			add([]reflect.Value{reflect.ValueOf(p.txID)}, []string{""})
		case t == reflect.TypeOf([]*wal.Entry(nil)):
			add([]reflect.Value{reflect.ValueOf([]*wal.Entry{
				{Type: wal.OpTypePut, Key: enumNewKey, Value: enumVal}, {Type: wal.OpTypeDelete, Key: enumOldKey}})}, []string{"batch"})
		case t == reflect.TypeOf((*context.Context)(nil)).Elem():
			add([]reflect.Value{reflect.ValueOf(context.Background())}, []string{""})
		case t.Kind() == reflect.Ptr && t.Elem().Kind() == reflect.Struct && strings.HasSuffix(t.Elem().Name(), "Request"):
			reqs, labels := p.synthRequest(t.Elem())
			add(reqs, labels)
		case t == reflect.TypeOf((*pb.KevoService_ScanServer)(nil)).Elem():
			add([]reflect.Value{reflect.ValueOf(&fakeStream[pb.ScanResponse]{})}, []string{""})
		case t == reflect.TypeOf((*pb.KevoService_TxScanServer)(nil)).Elem():
			add([]reflect.Value{reflect.ValueOf(&fakeStream[pb.TxScanResponse]{})}, []string{""})
		case t.Kind() == reflect.Int || t.Kind() == reflect.Int32 || t.Kind() == reflect.Int64 || t.Kind() == reflect.Uint64:
			add([]reflect.Value{reflect.Zero(t)}, []string{""})
		default:
			return nil, []string{"cannot synthesise an argument of type " + t.String()}
		}
	}
	return variants, names
}

// synthRequest fills a protobuf request by field name and type: keys, values, transaction id, operations, flags.
func (p *enumProbe) synthRequest(st reflect.Type) ([]reflect.Value, []string) {
	build := func(key []byte, flag bool) reflect.Value {
		v := reflect.New(st)
		for i := 0; i < st.NumField(); i++ {
			f := st.Field(i)
			if f.PkgPath != "" {
				continue
			}
			fv := v.Elem().Field(i)
			switch {
			case f.Type == reflect.TypeOf([]byte(nil)) && f.Name == "Key":
				fv.SetBytes(key)
			case f.Type == reflect.TypeOf([]byte(nil)) && f.Name == "Value":
				fv.SetBytes(enumVal)
			case f.Type.Kind() == reflect.String:
				fv.SetString(p.txID)
			case f.Type.Kind() == reflect.Bool && f.Name != "ReadOnly":
				fv.SetBool(flag)
			case f.Type == reflect.TypeOf([]*pb.Operation(nil)):
				fv.Set(reflect.ValueOf([]*pb.Operation{{Type: pb.Operation_PUT, Key: enumNewKey, Value: enumVal},
					{Type: pb.Operation_DELETE, Key: enumOldKey}}))
			}
		}
		return v
	}
	return []reflect.Value{build(enumOldKey, false), build(enumNewKey, true)}, []string{"key=present", "key=fresh flags=true"}
}

func callErr(out []reflect.Value) error {
	for _, o := range out {
		if o.Type().Implements(reflect.TypeOf((*error)(nil)).Elem()) && !o.IsNil() {
			return o.Interface().(error)
		}
	}
	return nil
}

func svcEnumCmd(args []string) int {
	fs := flag.NewFlagSet("svc-enum", flag.ExitOnError)
	table := fs.String("table", "", "classification table exported by the specification (JSON array of {api, m, class, act})")
	out := fs.String("out", "", "result (JSON)")
	work := fs.String("work", "", "scratch directory")
	fs.Parse(args)
	stderr := os.Stderr
	svcQuiet()
	var entries []svcEntry
	raw, err := os.ReadFile(*table)
	if err == nil {
		err = json.Unmarshal(raw, &entries)
	}
	if err != nil {
		fmt.Fprintln(stderr, "table:", err)
		return 2
	}
	class := map[string]svcEntry{}
	for _, e := range entries {
		class[e.API+"."+e.M] = e
	}

	dir := filepath.Join(*work, "enum-db")
	os.RemoveAll(dir)
	node, err := svcStartNode(dir, &CfgClass{MemTableSize: 1 << 20, SyncMode: 0, CompactSec: 3600}, "replica")
	if err != nil {
		fmt.Fprintln(stderr, err)
		return 2
	}
	if !node.eng.IsReadOnly() {
		fmt.Fprintln(stderr, "the replica's engine is not read-only after replication.Manager.Start")
		return 2
	}
	p := &enumProbe{node: node}

	// what is enumerated: (api name, interface or concrete type, receiver factory)
	engT := reflect.TypeOf((*interfaces.Engine)(nil)).Elem()
	txT := reflect.TypeOf((*interfaces.Transaction)(nil)).Elem()
	svcT := reflect.TypeOf((*pb.KevoServiceServer)(nil)).Elem()
	facT := reflect.TypeOf((*engine.EngineFacade)(nil))
	type target struct {
		api     string
		name    string
		mt      reflect.Type
		hasRecv bool
		recv    func() reflect.Value
	}
	targets := []target{}
	inEngine := map[string]bool{}
	for i := 0; i < engT.NumMethod(); i++ {
		m := engT.Method(i)
		if m.PkgPath != "" {
			continue
		}
		inEngine[m.Name] = true
		targets = append(targets, target{"Engine", m.Name, m.Type, false, func() reflect.Value { return reflect.ValueOf(interfaces.Engine(node.eng)) }})
	}
	for i := 0; i < facT.NumMethod(); i++ {
		m := facT.Method(i)
		if inEngine[m.Name] {
			continue
		}
		targets = append(targets, target{"Facade", m.Name, m.Type, true, func() reflect.Value { return reflect.ValueOf(node.eng) }})
	}
	for i := 0; i < txT.NumMethod(); i++ {
		m := txT.Method(i)
		if m.PkgPath != "" {
			continue
		}
		targets = append(targets, target{"Transaction", m.Name, m.Type, false, func() reflect.Value {
			// what a client gets when it asks a read-only engine for a read-write transaction
			tx, err := node.eng.BeginTransaction(false)
			if err != nil {
				return reflect.Value{}
			}
			return reflect.ValueOf(tx)
		}})
	}
	for i := 0; i < svcT.NumMethod(); i++ {
		m := svcT.Method(i)
		if m.PkgPath != "" {
			continue
		}
		targets = append(targets, target{"Service", m.Name, m.Type, false, func() reflect.Value { return reflect.ValueOf(node.svc) }})
	}

	res := svcEnumOut{Rows: []svcEnumRow{}, Stale: []string{}, Violations: []string{}, Unprobed: []string{}, Hangs: []string{}}
	seen := map[string]bool{}
	reset := func() error {
		// the state every call starts from - written through the applier's entry points, the only ones that may
		if err := node.eng.PutInternal(enumOldKey, enumVal); err != nil {
			return err
		}
		return node.eng.DeleteInternal(enumNewKey)
	}
	var closeRow *svcEnumRow
	for _, t := range targets {
		id := t.api + "." + t.name
		seen[id] = true
		row := svcEnumRow{API: t.api, M: t.name, Sig: t.mt.String(), Class: "UNCLASSIFIED", Verdict: "ok"}
		if e, ok := class[id]; ok {
			row.Class = e.Class
		}
		if t.name == "Close" || t.name == "SetReadOnly" {
			// invoking them ends the experiment (Close) or is the mode switch itself; they must be in the table
			row.Verdict = "skipped"
			if row.Class == "UNCLASSIFIED" {
				row.Verdict = "unprobed"
				row.Detail = "lifecycle method missing from the table"
			}
			res.Rows = append(res.Rows, row)
			if t.name == "Close" && t.api == "Engine" {
				closeRow = &res.Rows[len(res.Rows)-1]
			}
			continue
		}
		variants, names := p.synth(t.mt, t.hasRecv)
		if variants == nil {
			row.Verdict, row.Detail = "unprobed", names[0]
			res.Rows = append(res.Rows, row)
			continue
		}
		needsHandle := t.api == "Service" && (strings.HasPrefix(t.name, "Tx") || strings.HasSuffix(t.name, "Transaction")) && t.name != "BeginTransaction"
		for vi := range variants {
			if err := reset(); err != nil {
				fmt.Fprintln(stderr, "reset:", err)
				return 2
			}
			// nothing is left open between two calls: a call that names a transaction gets a fresh handle (what a client
			// gets when it asks a read-only node for a read-write transaction), given back afterwards
			p.txID = "tx-none"
			if needsHandle || row.Class == "UNCLASSIFIED" {
				if r2, err := node.svc.BeginTransaction(context.Background(), &pb.BeginTransactionRequest{ReadOnly: false}); err == nil {
					p.txID = r2.TransactionId
				}
			}
			vs, _ := p.synth(t.mt, t.hasRecv) // synthesised again: the arguments carry the fresh handle
			argv := vs[vi]
			before, _ := svcProjectEngine(node.eng)
			recv := t.recv()
			if !recv.IsValid() {
				row.Verdict, row.Detail = "unprobed", "no receiver"
				break
			}
			m := recv.MethodByName(t.name)
			var cerr error
			done := make(chan struct{})
			go func() {
				defer close(done)
				defer func() {
					if r := recover(); r != nil {
						cerr = fmt.Errorf("panic: %v", r)
					}
				}()
				outs := m.Call(argv)
				cerr = callErr(outs)
				for _, o := range outs { // a transaction handed out by the call is given back
					if o.IsValid() && o.Kind() == reflect.Interface && !o.IsNil() {
						if tx, ok := o.Interface().(interfaces.Transaction); ok {
							tx.Rollback()
						}
					}
					if o.IsValid() && o.Kind() == reflect.Ptr && !o.IsNil() {
						if br, ok := o.Interface().(*pb.BeginTransactionResponse); ok {
							node.svc.RollbackTransaction(context.Background(), &pb.RollbackTransactionRequest{TransactionId: br.TransactionId})
						}
					}
				}
			}()
			select {
			case <-done:
			case <-time.After(10 * time.Second):
				row.Verdict, row.Detail = "hang", fmt.Sprintf("%s.%s(%s) did not return within 10 s on a read-only node with no transaction open", t.api, t.name, names[vi])
			}
			if row.Verdict == "hang" {
				res.Hangs = append(res.Hangs, row.Detail)
				res.Rows = append(res.Rows, row)
				finish(&res, *out)
				os.Exit(0) // the stuck call may hold locks: nothing after it can be trusted
			}
			if t.api == "Transaction" && t.name != "Commit" && t.name != "Rollback" {
				// the mutation of a transaction reaches the store at commit
				if tx, ok := recv.Interface().(interfaces.Transaction); ok {
					tx.Commit()
				}
			}
			if p.txID != "tx-none" {
				if t.name == "TxPut" || t.name == "TxDelete" || row.Class == "UNCLASSIFIED" {
					node.svc.CommitTransaction(context.Background(), &pb.CommitTransactionRequest{TransactionId: p.txID})
				}
				node.svc.RollbackTransaction(context.Background(), &pb.RollbackTransactionRequest{TransactionId: p.txID})
			}
			after, _ := svcProjectEngine(node.eng)
			row.Calls++
			changed := !pairsEqual(before, after)
			if cerr != nil {
				row.Errors++
			}
			if changed {
				row.Changed++
			}
			row.Variants = append(row.Variants, fmt.Sprintf("%s -> %s%s", names[vi], errText(cerr), map[bool]string{true: ", DATA CHANGED", false: ""}[changed]))
			bad := ""
			switch row.Class {
			case "apply":
				if cerr != nil {
					bad = "an applier entry point must work on a read-only engine: " + errText(cerr)
				}
			case "mutator":
				mustErr := map[string]bool{"put": true, "del": true, "batch": true, "txput": true, "txdel": true}[class[id].Act]
				if changed {
					bad = "a client mutator changed the data of a read-only engine (" + errText(cerr) + ")"
				} else if mustErr && cerr == nil {
					bad = "a mutation attempt on a read-only engine returned no error"
				}
			default: // reader, info, accessor, lifecycle, UNCLASSIFIED
				if changed && (cerr == nil || row.Class != "UNCLASSIFIED") {
					bad = "changed the data of a read-only engine (" + errText(cerr) + ")"
				}
			}
			if bad != "" && row.Verdict != "violation" {
				row.Verdict = "violation"
				row.Detail = fmt.Sprintf("%s.%s(%s): %s", t.api, t.name, names[vi], bad)
			}
		}
		if row.Class == "apply" && row.Verdict == "ok" && row.Changed == 0 {
			// deleting the present key / writing the fresh key must show
			row.Verdict, row.Detail = "violation", id+": an applier entry point left the data of a read-only engine unchanged in every variant"
		}
		if row.Verdict == "violation" {
			res.Violations = append(res.Violations, row.Detail)
		}
		if row.Verdict == "unprobed" {
			res.Unprobed = append(res.Unprobed, id+": "+row.Detail)
		}
		res.Rows = append(res.Rows, row)
	}
	for _, r := range res.Rows {
		if r.Verdict == "unprobed" && (r.M == "Close" || r.M == "SetReadOnly") {
			res.Unprobed = append(res.Unprobed, r.API+"."+r.M+": "+r.Detail)
		}
	}
	for id := range class {
		if !seen[id] {
			res.Stale = append(res.Stale, id)
		}
	}
	sort.Strings(res.Stale)
	_ = closeRow
	node.stop()
	os.RemoveAll(dir)
	if err := finish(&res, *out); err != nil {
		fmt.Fprintln(stderr, err)
		return 2
	}
	return 0
}
