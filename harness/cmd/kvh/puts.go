package main

import (
	"flag"
	"fmt"
	"os"
	"time"
)

func init() { register("puts", putsCmd) }

// puts: debugging aid - n sequential puts with a tiny memtable, report the first error.
func putsCmd(args []string) int {
	fs := flag.NewFlagSet("puts", flag.ExitOnError)
	dir := fs.String("dir", "", "dir")
	n := fs.Int("n", 300, "puts")
	mem := fs.Int64("mem", 100, "memtable size")
	fs.Parse(args)
	stdout := os.Stdout
	muteStdout()
	eng, err := openEngine(*dir, &CfgClass{MemTableSize: *mem, MaxMemTables: 2, SyncMode: 2, CompactSec: 3600})
	if err != nil {
		fmt.Fprintln(stdout, err)
		return 1
	}
	errs := 0
	for i := 0; i < *n; i++ {
		if err := eng.Put([]byte(fmt.Sprintf("key-%04d", i)), []byte("value")); err != nil {
			errs++
			if errs < 4 {
				fmt.Fprintf(stdout, "put %d: %v\n", i, err)
			}
		}
	}
	quiesce(5 * time.Second)
	eng.Close()
	fmt.Fprintf(stdout, "errors: %d of %d\n", errs, *n)
	return 0
}
