package main

import (
	"bufio"
	"encoding/json"
	"errors"
	"flag"
	"fmt"
	"math/rand"
	"os"
	"runtime"
	"strconv"
	"strings"
	"sync"
	"sync/atomic"
	"time"

	"github.com/KevoDB/kevo/pkg/engine"
	"github.com/KevoDB/kevo/pkg/engine/interfaces"
	"github.com/KevoDB/kevo/pkg/transaction"
	"github.com/KevoDB/kevo/pkg/verifhook"
	"github.com/KevoDB/kevo/pkg/wal"
)

// evLog is the harness' event log: one mutex-protected appender, so the order of lines is the order of logging.
// Events logged from inside a hook site are logged at the linearisation point, in the goroutine that passes it.
type evLog struct {
	mu sync.Mutex
	w  *bufio.Writer
	f  *os.File
	n  int
}

func newEvLog(path string) (*evLog, error) {
	f, err := os.Create(path)
	if err != nil {
		return nil, err
	}
	return &evLog{w: bufio.NewWriterSize(f, 1<<16), f: f}, nil
}

func (l *evLog) ev(m map[string]interface{}) {
	b, _ := json.Marshal(m)
	l.mu.Lock()
	l.w.Write(b)
	l.w.WriteByte('\n')
	l.n++
	l.mu.Unlock()
}

func (l *evLog) close() {
	l.mu.Lock()
	l.w.Flush()
	l.f.Close()
	l.mu.Unlock()
}

func goid() uint64 {
	var buf [64]byte
	n := runtime.Stack(buf[:], false)
	f := strings.Fields(string(buf[:n]))
	if len(f) < 2 {
		return 0
	}
	id, _ := strconv.ParseUint(f[1], 10, 64)
	return id
}

// txTracer maps goroutines to client names and turns hook hits into trace events.
type txTracer struct {
	log     *evLog
	clients sync.Map // goid -> client name
	park    *gate    // optional: parks goroutines at sites (gated scenarios); its at() is called after logging
	anon    bool     // also log grant/unlock events of goroutines that are not registered clients, as "granted?" / "unlocking?"
}

func (t *txTracer) register(c string) { t.clients.Store(goid(), c) }
func (t *txTracer) unregister()       { t.clients.Delete(goid()) }

func (t *txTracer) hook(site string, a, b uint64) {
	var e string
	switch site {
	case "tx.begin.granted":
		e = "granted"
	case "sm.batch.locked":
		e = "astart"
	case "tx.commit.applied":
		e = "applied"
	case "tx.unlocking":
		e = "unlocking"
	}
	// "unlocking" announces a step that happens right AFTER the hook: a goroutine parked there still holds the lock, so it
	// is parked first and the event is logged when it moves on; the other events report steps that have happened.
	if t.park != nil && e == "unlocking" {
		t.park.at(site, a, b)
	}
	if e != "" {
		if c, ok := t.clients.Load(goid()); ok {
			t.log.ev(map[string]interface{}{"e": e, "c": c})
		} else if t.anon && (e == "granted" || e == "unlocking") {
			t.log.ev(map[string]interface{}{"e": e + "?"})
		}
	}
	if t.park != nil && e != "unlocking" {
		t.park.at(site, a, b)
	}
}

func init() {
	register("txn-run", txnRunCmd)
	register("txn-gated", txnGatedCmd)
}

func tokOf(conc Conc, v []byte, err error, vals []string) string {
	if isNotFound(err) {
		return "NONE"
	}
	if err != nil {
		return "ERR:" + err.Error()
	}
	return conc.ValToken(v, vals)
}

var txVals = []string{"v1", "v2", "v3", "v4", "v5", "v6", "v7", "v8", "v9"}
var txKeys = []string{"k1", "k2", "k3"}

func scanTx(conc Conc, tx interfaces.Transaction) map[string]string {
	res := map[string]string{}
	for _, k := range txKeys {
		res[k] = "NONE"
	}
	it := tx.NewIterator()
	// every other scan goes through the RANGE iterator (bounds around all keys): the transaction builds it on a path of its own
	if scanTxCount.Add(1)%2 == 0 {
		lo, hi := conc.Key(txKeys[0]), append(conc.Key(txKeys[len(txKeys)-1]), 0xff)
		it = tx.NewRangeIterator(lo, hi)
	}
	for it.SeekToFirst(); it.Valid(); it.Next() {
		if it.IsTombstone() {
			continue
		}
		res[conc.KeyToken(it.Key(), txKeys)] = conc.ValToken(it.Value(), txVals)
	}
	return res
}

var scanTxCount atomic.Int64

func isClosedErr(err error) bool {
	return err != nil && (errors.Is(err, transaction.ErrTransactionClosed) || strings.Contains(err.Error(), "closed"))
}

// txn-run: N client goroutines run seeded random transactions against one engine; every call, result and
// linearisation point is logged for validation by TLC against KevoTxn (TRACE_Txn).
func txnRunCmd(args []string) int {
	fs := flag.NewFlagSet("txn-run", flag.ExitOnError)
	dir := fs.String("dir", "", "database directory")
	out := fs.String("out", "", "trace (ndjson)")
	seed := fs.Int64("seed", 1, "seed")
	nclients := fs.Int("clients", 4, "client goroutines (max 6)")
	ntx := fs.Int("tx", 6, "transactions per client")
	class := fs.String("class", "ascii", "concretisation")
	cfgJSON := fs.String("cfg", `{"memtable_size":300,"max_memtables":3,"sync_mode":0,"compact_sec":3600}`, "config class")
	mutate := fs.Bool("mutate", false, "overwrite the caller's key/value buffers after every tx.Put/Delete (C03: captured at call time)")
	fs.Parse(args)
	var cc CfgClass
	json.Unmarshal([]byte(*cfgJSON), &cc)
	stderr := os.Stderr
	muteStdout()
	wal.DisableRecoveryLogs = true
	conc := Conc{Class: *class, Seed: uint64(*seed)}
	eng, err := openEngine(*dir, &cc)
	if err != nil {
		fmt.Fprintln(stderr, err)
		return 2
	}
	log, err := newEvLog(*out)
	if err != nil {
		fmt.Fprintln(stderr, err)
		return 2
	}
	tr := &txTracer{log: log}
	verifhook.SetGate(tr.hook)
	log.ev(map[string]interface{}{"e": "reset"})
	var wg sync.WaitGroup
	for ci := 0; ci < *nclients; ci++ {
		wg.Add(1)
		go func(ci int) {
			defer wg.Done()
			c := fmt.Sprintf("c%d", ci+1)
			tr.register(c)
			defer tr.unregister()
			rng := rand.New(rand.NewSource(*seed*1000 + int64(ci)))
			for t := 0; t < *ntx; t++ {
				ro := rng.Intn(3) == 0
				mode := "rw"
				if ro {
					mode = "ro"
				}
				log.ev(map[string]interface{}{"e": "breq", "c": c, "mode": mode})
				tx, err := eng.BeginTransaction(ro)
				if err != nil {
					log.ev(map[string]interface{}{"e": "error", "c": c, "msg": "begin: " + err.Error()})
					return
				}
				for o, nops := 0, rng.Intn(5); o < nops; o++ {
					k := txKeys[rng.Intn(len(txKeys))]
					switch r := rng.Intn(10); {
					case r < 4:
						v, err := tx.Get(conc.Key(k))
						log.ev(map[string]interface{}{"e": "get", "c": c, "k": k, "res": tokOf(conc, v, err, txVals)})
					case r < 8 && !ro:
						kb := conc.Key(k)
						if rng.Intn(4) == 0 {
							if err := tx.Delete(kb); err != nil {
								log.ev(map[string]interface{}{"e": "error", "c": c, "msg": "delete: " + err.Error()})
								return
							}
							log.ev(map[string]interface{}{"e": "write", "c": c, "k": k, "v": "TOMB"})
						} else {
							v := txVals[rng.Intn(len(txVals))]
							vb := conc.Val(v)
							if err := tx.Put(kb, vb); err != nil {
								log.ev(map[string]interface{}{"e": "error", "c": c, "msg": "put: " + err.Error()})
								return
							}
							log.ev(map[string]interface{}{"e": "write", "c": c, "k": k, "v": v})
							if *mutate {
								for i := range vb {
									vb[i] ^= 0x5A
								}
							}
						}
						if *mutate {
							for i := range kb {
								kb[i] ^= 0xA5
							}
						}
					default:
						log.ev(map[string]interface{}{"e": "scan", "c": c, "res": scanTx(conc, tx)})
					}
					if rng.Intn(3) == 0 {
						runtime.Gosched()
					}
				}
				if rng.Intn(4) == 0 {
					log.ev(map[string]interface{}{"e": "rstart", "c": c})
					if err := tx.Rollback(); err != nil {
						log.ev(map[string]interface{}{"e": "error", "c": c, "msg": "rollback: " + err.Error()})
						return
					}
					log.ev(map[string]interface{}{"e": "rret", "c": c})
				} else {
					log.ev(map[string]interface{}{"e": "cstart", "c": c})
					err := tx.Commit()
					log.ev(map[string]interface{}{"e": "cret", "c": c, "ok": err == nil})
				}
				// any use after the end must fail with the closed error and have no effect
				switch rng.Intn(6) {
				case 0:
					res := "other"
					if isClosedErr(tx.Commit()) {
						res = "closed"
					}
					log.ev(map[string]interface{}{"e": "again", "c": c, "op": "commit", "res": res})
				case 1:
					res := "other"
					if isClosedErr(tx.Rollback()) {
						res = "closed"
					}
					log.ev(map[string]interface{}{"e": "again", "c": c, "op": "rollback", "res": res})
				case 2:
					res := "other"
					if isClosedErr(tx.Put(conc.Key("k1"), conc.Val("v9"))) {
						res = "closed"
					}
					log.ev(map[string]interface{}{"e": "again", "c": c, "op": "put", "res": res})
				case 3:
					res := "other"
					if _, err := tx.Get(conc.Key("k1")); isClosedErr(err) {
						res = "closed"
					}
					log.ev(map[string]interface{}{"e": "again", "c": c, "op": "get", "res": res})
				}
			}
		}(ci)
	}
	done := make(chan struct{})
	go func() { wg.Wait(); close(done) }()
	select {
	case <-done:
	case <-time.After(60 * time.Second):
		log.ev(map[string]interface{}{"e": "hang", "msg": "clients did not finish within 60 s"})
		log.close()
		fmt.Fprintln(stderr, "txn-run: clients hang")
		return 4
	}
	verifhook.SetGate(nil)
	log.ev(map[string]interface{}{"e": "final", "st": projectEngine(eng, conc)})
	log.close()
	quiesce(5 * time.Second)
	eng.Close()
	return 0
}

func projectEngine(eng *engine.EngineFacade, conc Conc) map[string]string {
	st := map[string]string{}
	for _, k := range txKeys {
		v, err := eng.Get(conc.Key(k))
		st[k] = tokOf(conc, v, err, txVals)
	}
	return st
}

// txn-gated: C03 reader form.  A committer with an n-key write set is parked at one hook site inside its commit;
// meanwhile every key is read from outside (must wait while the batch is being applied, else must see the old or
// the complete new state), a read-only transaction is requested (must wait until the write lock is released),
// then the committer is released.
func txnGatedCmd(args []string) int {
	fs := flag.NewFlagSet("txn-gated", flag.ExitOnError)
	dir := fs.String("dir", "", "database directory")
	out := fs.String("out", "", "trace (ndjson)")
	site := fs.String("site", "sm.batch.entry", "hook site at which the committer is parked")
	hit := fs.Int("hit", 1, "n-th hit of the site")
	n := fs.Int("n", 3, "keys in the write set (max 3)")
	del := fs.Bool("del", false, "the first entry of the write set is a delete")
	fs.Parse(args)
	stderr := os.Stderr
	muteStdout()
	wal.DisableRecoveryLogs = true
	conc := Conc{Class: "ascii"}
	eng, err := openEngine(*dir, &CfgClass{MemTableSize: 1 << 20, SyncMode: 0, CompactSec: 3600})
	if err != nil {
		fmt.Fprintln(stderr, err)
		return 2
	}
	log, err := newEvLog(*out)
	if err != nil {
		fmt.Fprintln(stderr, err)
		return 2
	}
	g := &gate{want: map[string]int{}, hits: map[string]int{}, parked: map[string]chan struct{}{}, arrived: map[string]chan struct{}{}}
	tr := &txTracer{log: log, park: g}
	verifhook.SetGate(tr.hook)
	log.ev(map[string]interface{}{"e": "reset"})
	// old state: every key = v1, written by a first transaction of c1
	tr.register("c1")
	log.ev(map[string]interface{}{"e": "breq", "c": "c1", "mode": "rw"})
	tx, err := eng.BeginTransaction(false)
	if err != nil {
		fmt.Fprintln(stderr, err)
		return 2
	}
	for _, k := range txKeys {
		tx.Put(conc.Key(k), conc.Val("v1"))
		log.ev(map[string]interface{}{"e": "write", "c": "c1", "k": k, "v": "v1"})
	}
	log.ev(map[string]interface{}{"e": "cstart", "c": "c1"})
	err = tx.Commit()
	log.ev(map[string]interface{}{"e": "cret", "c": "c1", "ok": err == nil})
	tr.unregister()
	// the committer c2
	g.Park(*site, *hit)
	cdone := make(chan struct{})
	go func() {
		tr.register("c2")
		defer tr.unregister()
		log.ev(map[string]interface{}{"e": "breq", "c": "c2", "mode": "rw"})
		tx, err := eng.BeginTransaction(false)
		if err != nil {
			return
		}
		for i := 0; i < *n; i++ {
			if i == 0 && *del {
				tx.Delete(conc.Key(txKeys[i]))
				log.ev(map[string]interface{}{"e": "write", "c": "c2", "k": txKeys[i], "v": "TOMB"})
				continue
			}
			tx.Put(conc.Key(txKeys[i]), conc.Val("v2"))
			log.ev(map[string]interface{}{"e": "write", "c": "c2", "k": txKeys[i], "v": "v2"})
		}
		log.ev(map[string]interface{}{"e": "cstart", "c": "c2"})
		err = tx.Commit()
		log.ev(map[string]interface{}{"e": "cret", "c": "c2", "ok": err == nil})
		close(cdone)
	}()
	if !g.Wait(*site, 5*time.Second) {
		log.ev(map[string]interface{}{"e": "notreached"})
		log.close()
		return 5
	}
	// readers from outside, one per key, each in its own goroutine with a grace period
	type rres struct {
		k, res string
	}
	results := make(chan rres, len(txKeys))
	for _, k := range txKeys {
		go func(k string) {
			v, err := eng.Get(conc.Key(k))
			results <- rres{k, tokOf(conc, v, err, txVals)}
		}(k)
	}
	got := map[string]string{}
	timeout := time.After(250 * time.Millisecond)
collect:
	for len(got) < len(txKeys) {
		select {
		case r := <-results:
			got[r.k] = r.res
		case <-timeout:
			break collect
		}
	}
	for _, k := range txKeys {
		if r, ok := got[k]; ok {
			log.ev(map[string]interface{}{"e": "dget", "k": k, "res": r})
		} else {
			log.ev(map[string]interface{}{"e": "dget", "k": k, "res": "blocked"})
		}
	}
	// a read-only transaction requested now must not be granted before the writer releases the lock
	rdone := make(chan struct{})
	go func() {
		tr.register("c3")
		defer tr.unregister()
		log.ev(map[string]interface{}{"e": "breq", "c": "c3", "mode": "ro"})
		tx, err := eng.BeginTransaction(true)
		if err != nil {
			return
		}
		log.ev(map[string]interface{}{"e": "scan", "c": "c3", "res": scanTx(conc, tx)})
		log.ev(map[string]interface{}{"e": "cstart", "c": "c3"})
		tx.Commit()
		log.ev(map[string]interface{}{"e": "cret", "c": "c3", "ok": true})
		close(rdone)
	}()
	select {
	case <-rdone:
	case <-time.After(150 * time.Millisecond):
		log.ev(map[string]interface{}{"e": "bblocked", "c": "c3"})
	}
	g.Release(*site)
	for _, ch := range []chan struct{}{cdone, rdone} {
		select {
		case <-ch:
		case <-time.After(10 * time.Second):
			log.ev(map[string]interface{}{"e": "hang", "msg": "committer or reader did not finish after release"})
			log.close()
			return 4
		}
	}
	verifhook.SetGate(nil)
	log.ev(map[string]interface{}{"e": "final", "st": projectEngine(eng, conc)})
	log.close()
	eng.Close()
	return 0
}

func init() { register("txn-failcommit", txnFailCommitCmd) }

// txn-failcommit: C03 "a failed transaction leaves no trace".  The flush path is parked inside the log rotation
// (old log marked as rotating) for longer than the write path's retry budget, so that a commit issued meanwhile
// fails; its write set must be absent at once, after the rotation has completed, and after a reopen.
func txnFailCommitCmd(args []string) int {
	fs := flag.NewFlagSet("txn-failcommit", flag.ExitOnError)
	dir := fs.String("dir", "", "database directory")
	out := fs.String("out", "", "trace (ndjson)")
	site := fs.String("site", "sm.rotate.marked", "rotation step at which the flush path is parked")
	fs.Parse(args)
	stderr := os.Stderr
	muteStdout()
	wal.DisableRecoveryLogs = true
	conc := Conc{Class: "ascii"}
	cc := &CfgClass{MemTableSize: 1 << 20, SyncMode: 2, CompactSec: 3600}
	eng, err := openEngine(*dir, cc)
	if err != nil {
		fmt.Fprintln(stderr, err)
		return 2
	}
	log, err := newEvLog(*out)
	if err != nil {
		fmt.Fprintln(stderr, err)
		return 2
	}
	g := &gate{want: map[string]int{}, hits: map[string]int{}, parked: map[string]chan struct{}{}, arrived: map[string]chan struct{}{}}
	tr := &txTracer{log: log, park: g}
	verifhook.SetGate(tr.hook)
	log.ev(map[string]interface{}{"e": "reset"})
	commit := func(c string, kv map[string]string) bool {
		tr.register(c)
		defer tr.unregister()
		log.ev(map[string]interface{}{"e": "breq", "c": c, "mode": "rw"})
		tx, err := eng.BeginTransaction(false)
		if err != nil {
			return false
		}
		for _, k := range txKeys {
			if v, ok := kv[k]; ok {
				tx.Put(conc.Key(k), conc.Val(v))
				log.ev(map[string]interface{}{"e": "write", "c": c, "k": k, "v": v})
			}
		}
		log.ev(map[string]interface{}{"e": "cstart", "c": c})
		err = tx.Commit()
		log.ev(map[string]interface{}{"e": "cret", "c": c, "ok": err == nil})
		return err == nil
	}
	commit("c1", map[string]string{"k1": "v1", "k2": "v1"})
	g.Park(*site, 1)
	fdone := make(chan struct{})
	go func() { eng.FlushImMemTables(); close(fdone) }()
	if !g.Wait(*site, 5*time.Second) {
		log.ev(map[string]interface{}{"e": "notreached"})
		log.close()
		return 5
	}
	ok := commit("c2", map[string]string{"k1": "v2", "k3": "v2"})
	log.ev(map[string]interface{}{"e": "final", "st": projectEngine(eng, conc)})
	g.Release(*site)
	<-fdone
	verifhook.SetGate(nil)
	log.ev(map[string]interface{}{"e": "final", "st": projectEngine(eng, conc)})
	quiesce(5 * time.Second)
	eng.Close()
	eng, err = openEngine(*dir, nil)
	if err != nil {
		log.ev(map[string]interface{}{"e": "error", "msg": "reopen: " + err.Error()})
		log.close()
		return 3
	}
	log.ev(map[string]interface{}{"e": "final", "st": projectEngine(eng, conc)})
	log.ev(map[string]interface{}{"e": "note", "commit_failed": !ok})
	log.close()
	eng.Close()
	return 0
}
