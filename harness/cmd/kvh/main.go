// kvh is the conformance harness that binds the TLA+ specifications in /verif/spec to the real
// KevoDB/kevo code: it replays TLC-generated behaviours into the implementation and records
// executions of the implementation for validation by TLC.  Built with -tags verif.
package main

import (
	"fmt"
	"os"
)

var commands = map[string]func(args []string) int{}

func register(name string, f func(args []string) int) { commands[name] = f }

func main() {
	if len(os.Args) < 2 {
		fmt.Fprintln(os.Stderr, "usage: kvh <command> [args]")
		os.Exit(2)
	}
	f, ok := commands[os.Args[1]]
	if !ok {
		fmt.Fprintf(os.Stderr, "kvh: unknown command %q\n", os.Args[1])
		os.Exit(2)
	}
	os.Exit(f(os.Args[2:]))
}
