package main

// C15 gated scenarios: two windows of the primary's session handling made deterministic by parking a goroutine at a
// verif hook site (pkg/replication: rp.stream.done, rp.hb.send).
//
//	push-dead-stream  a client resets its TCP connection; the StreamWAL handler that notices the cancelled stream is
//	                  parked before it returns (its session is still registered) while a writer keeps writing: pushed
//	                  batches hit the broken stream.  Every write must still return, the session must disappear.
//	hb-fail           the heartbeat check is parked while it holds the session lock and is about to send; a client
//	                  write is started (it waits for that lock), the client's connection is reset, the heartbeat is
//	                  released: its send fails.  The write must return.
//
// If the hook site is never reached (a tree without the hooks) the scenario says so ("nohook") and proves nothing.

import (
	"flag"
	"fmt"
	"os"
	"path/filepath"
	"strings"
	"sync"
	"sync/atomic"
	"time"

	"github.com/KevoDB/kevo/pkg/replication"
	"github.com/KevoDB/kevo/pkg/verifhook"
)

func init() {
	register("repl-gated", replGatedCmd)
}

func replGatedCmd(args []string) int {
	fs := flag.NewFlagSet("repl-gated", flag.ExitOnError)
	dir := fs.String("dir", "", "scratch directory")
	out := fs.String("out", "", "trace (ndjson)")
	scenario := fs.String("scenario", "push-dead-stream", "push-dead-stream | hb-fail")
	logTo := fs.String("log", "", "keep the engines' chatter in this file")
	fs.Parse(args)
	stderr := os.Stderr
	muteStdout()
	replQuietLogs(*logTo)
	log, err := newEvLog(*out)
	if err != nil {
		fmt.Fprintln(stderr, err)
		return 2
	}
	finish := func() int {
		log.close()
		return 0
	}
	fail := func(msg string) int {
		log.ev(map[string]interface{}{"e": "error", "msg": msg})
		return finish()
	}
	log.ev(map[string]interface{}{"e": "reset"})

	// the gate
	var parkDone atomic.Int64 // how long a handler is parked at rp.stream.done (ns)
	hbParked := make(chan struct{}, 1)
	hbRelease := make(chan struct{})
	var hbArmed atomic.Bool
	var doneHits, hbHits atomic.Int64
	verifhook.SetGate(func(site string, a, b uint64) {
		switch site {
		case "rp.stream.done":
			doneHits.Add(1)
			if d := parkDone.Load(); d > 0 {
				time.Sleep(time.Duration(d))
			}
		case "rp.hb.send":
			hbHits.Add(1)
			if hbArmed.CompareAndSwap(true, false) {
				hbParked <- struct{}{}
				<-hbRelease
			}
		}
	})

	pc := replication.DefaultPrimaryConfig()
	pc.HeartbeatConfig = &replication.HeartbeatConfig{Interval: time.Second, Timeout: 30 * time.Second, SendEmptyResponses: true}
	paddr := replFreeAddr()
	cc := CfgClass{MemTableSize: 4 << 20, MaxMemTables: 4, SyncMode: 0, CompactSec: 3600}
	prim, err := startReplPrimary(filepath.Join(*dir, "primary"), paddr, &cc, pc)
	if err != nil {
		return fail("primary: " + err.Error())
	}
	const deadline = 5 * time.Second
	val := replFillerVal(1, 1, 200)
	// one watched operation
	put := func(c string, i int) bool {
		log.ev(map[string]interface{}{"e": "inv", "c": c, "op": "put"})
		ch := make(chan error, 1)
		go func() { ch <- prim.eng.Put([]byte(fmt.Sprintf("gated-%s-%02d", c, i%32)), val) }()
		select {
		case err := <-ch:
			if err != nil {
				log.ev(map[string]interface{}{"e": "error", "msg": "put: " + err.Error()})
				return false
			}
			log.ev(map[string]interface{}{"e": "ret", "c": c, "op": "put"})
			return true
		case <-time.After(deadline):
			log.ev(map[string]interface{}{"e": "hang", "c": c, "op": "put", "waited_ms": deadline.Milliseconds()})
			return false
		}
	}
	topo := func(limit time.Duration) bool {
		t0 := time.Now()
		dropped := false
		for time.Since(t0) < limit && !dropped {
			ch := make(chan []replication.ReplicationNodeInfo, 1)
			go func() { _, _, reps, _, _ := prim.mgr.GetNodeInfo(); ch <- reps }()
			select {
			case reps := <-ch:
				dropped = true
				for _, r := range reps {
					if strings.HasPrefix(r.Address, "churn-client-") {
						dropped = false
					}
				}
			case <-time.After(deadline):
				log.ev(map[string]interface{}{"e": "inv", "c": "topo", "op": "GetNodeInfo"})
				log.ev(map[string]interface{}{"e": "hang", "c": "topo", "op": "GetNodeInfo", "waited_ms": deadline.Milliseconds()})
				return false
			}
			if !dropped {
				time.Sleep(100 * time.Millisecond)
			}
		}
		log.ev(map[string]interface{}{"e": "topo", "dropped": dropped, "ms": time.Since(t0).Milliseconds()})
		return true
	}
	for i := 0; i < 20; i++ {
		if !put("w1", i) {
			return finish()
		}
	}
	var clients sync.WaitGroup
	switch *scenario {
	case "push-dead-stream":
		parkDone.Store(int64(600 * time.Millisecond))
		for round := 0; round < 3; round++ {
			if err := replChurnClient(paddr, fmt.Sprintf("churn-client-%d:1", round+1), "cut", 120*time.Millisecond, &clients); err != nil {
				return fail("cannot attach a client: " + err.Error())
			}
			log.ev(map[string]interface{}{"e": "fault", "mode": "cut"})
			// keep writing across the reset and the parked exit of the handler
			for t0, i := time.Now(), 0; time.Since(t0) < 900*time.Millisecond; i++ {
				if !put("w1", i) {
					return finish()
				}
				time.Sleep(2 * time.Millisecond)
			}
		}
		clients.Wait()
		if doneHits.Load() == 0 {
			log.ev(map[string]interface{}{"e": "nohook", "site": "rp.stream.done"})
			return finish()
		}
		log.ev(map[string]interface{}{"e": "note", "handlers_parked": doneHits.Load()})
		if !topo(5 * time.Second) {
			return finish()
		}
	case "hb-fail":
		if err := replChurnClient(paddr, "churn-client-1:1", "cut", 3500*time.Millisecond, &clients); err != nil {
			return fail("cannot attach a client: " + err.Error())
		}
		log.ev(map[string]interface{}{"e": "fault", "mode": "cut"})
		// idle: after more than one interval without activity the heartbeat check decides to send
		hbArmed.Store(true)
		select {
		case <-hbParked:
		case <-time.After(3200 * time.Millisecond):
			log.ev(map[string]interface{}{"e": "nohook", "site": "rp.hb.send"})
			close(hbRelease)
			return finish()
		}
		// the heartbeat holds the session lock; a client write now passes the session's connected check and waits
		log.ev(map[string]interface{}{"e": "inv", "c": "w1", "op": "put"})
		ch := make(chan error, 1)
		go func() { ch <- prim.eng.Put([]byte("gated-hb"), val) }()
		time.Sleep(200 * time.Millisecond)
		// the client resets its connection (its timer), the primary's transport notices
		clients.Wait()
		time.Sleep(300 * time.Millisecond)
		close(hbRelease) // the heartbeat's send fails
		select {
		case err := <-ch:
			if err != nil {
				return fail("put: " + err.Error())
			}
			log.ev(map[string]interface{}{"e": "ret", "c": "w1", "op": "put"})
		case <-time.After(deadline):
			log.ev(map[string]interface{}{"e": "hang", "c": "w1", "op": "put", "waited_ms": deadline.Milliseconds()})
			return finish()
		}
		for i := 0; i < 10; i++ {
			if !put("w1", i) {
				return finish()
			}
		}
		log.ev(map[string]interface{}{"e": "note", "heartbeat_sends": hbHits.Load()})
		if !topo(5 * time.Second) {
			return finish()
		}
	default:
		return fail("unknown scenario " + *scenario)
	}
	return finish()
}
