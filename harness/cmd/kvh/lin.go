package main

import (
	"encoding/json"
	"flag"
	"fmt"
	"math/rand"
	"os"
	"runtime"
	"sync"
	"time"

	"github.com/KevoDB/kevo/pkg/verifhook"
	"github.com/KevoDB/kevo/pkg/wal"
)

func init() { register("lin-run", linRunCmd) }

// lin-run: C06.  N client goroutines put/get/delete on a few keys with globally unique values while the tiny memtable
// makes switch / rotation / flush happen every few operations (and a compaction goroutine runs); invocations are logged
// BEFORE the call and responses AFTER it through one appender, so every recorded interval contains the true one.
func linRunCmd(args []string) int {
	fs := flag.NewFlagSet("lin-run", flag.ExitOnError)
	dir := fs.String("dir", "", "database directory")
	out := fs.String("out", "", "history (ndjson)")
	seed := fs.Int64("seed", 1, "seed")
	nclients := fs.Int("clients", 4, "clients (max 8)")
	nops := fs.Int("ops", 40, "operations per client")
	nkeys := fs.Int("keys", 3, "keys (max 4)")
	cfgJSON := fs.String("cfg", `{"memtable_size":150,"max_memtables":3,"sync_mode":0,"compact_sec":1}`, "config class")
	fs.Parse(args)
	var cc CfgClass
	json.Unmarshal([]byte(*cfgJSON), &cc)
	stderr := os.Stderr
	muteStdout()
	wal.DisableRecoveryLogs = true
	conc := Conc{Class: "ascii"}
	verifhook.Emit("h.reset", fmt.Sprintf("\"a\":0,\"b\":0,\"sync\":%d", cc.SyncMode))
	eng, err := openEngine(*dir, &cc)
	if err != nil {
		fmt.Fprintln(stderr, err)
		return 2
	}
	log, err := newEvLog(*out)
	if err != nil {
		fmt.Fprintln(stderr, err)
		return 2
	}
	keys := []string{"k1", "k2", "k3", "k4"}[:*nkeys]
	log.ev(map[string]interface{}{"e": "reset"})
	stop := make(chan struct{})
	var bg sync.WaitGroup
	bg.Add(1)
	go func() { // explicit maintenance in the background
		defer bg.Done()
		rng := rand.New(rand.NewSource(*seed + 77))
		for {
			select {
			case <-stop:
				return
			case <-time.After(time.Duration(1+rng.Intn(4)) * time.Millisecond):
			}
			if rng.Intn(3) == 0 {
				eng.TriggerCompaction()
			} else {
				eng.FlushImMemTables()
			}
		}
	}()
	var wg sync.WaitGroup
	for ci := 0; ci < *nclients; ci++ {
		wg.Add(1)
		go func(ci int) {
			defer wg.Done()
			c := fmt.Sprintf("c%d", ci+1)
			rng := rand.New(rand.NewSource(*seed*100 + int64(ci)))
			for o := 0; o < *nops; o++ {
				k := keys[rng.Intn(len(keys))]
				switch r := rng.Intn(10); {
				case r < 4:
					log.ev(map[string]interface{}{"e": "inv", "c": c, "op": "get", "k": k, "v": "-"})
					v, err := eng.Get(conc.Key(k))
					res := "NONE"
					if err == nil {
						res = string(v)
					} else if !isNotFound(err) {
						res = "ERR:" + err.Error()
					}
					log.ev(map[string]interface{}{"e": "ret", "c": c, "res": res})
				case r < 8:
					v := fmt.Sprintf("%s-n%d", c, o)
					log.ev(map[string]interface{}{"e": "inv", "c": c, "op": "put", "k": k, "v": v})
					err := eng.Put(conc.Key(k), []byte(v))
					log.ev(map[string]interface{}{"e": "ret", "c": c, "res": okErr(err)})
				default:
					log.ev(map[string]interface{}{"e": "inv", "c": c, "op": "del", "k": k, "v": "-"})
					err := eng.Delete(conc.Key(k))
					log.ev(map[string]interface{}{"e": "ret", "c": c, "res": okErr(err)})
				}
				if rng.Intn(4) == 0 {
					runtime.Gosched()
				}
			}
		}(ci)
	}
	done := make(chan struct{})
	go func() { wg.Wait(); close(done) }()
	select {
	case <-done:
	case <-time.After(90 * time.Second):
		log.ev(map[string]interface{}{"e": "hang", "msg": "clients did not finish within 90 s"})
		log.close()
		return 4
	}
	close(stop)
	bg.Wait()
	project := func() map[string]string {
		st := map[string]string{}
		for _, k := range []string{"k1", "k2", "k3", "k4"} {
			v, err := eng.Get(conc.Key(k))
			switch {
			case err == nil:
				st[k] = string(v)
			case isNotFound(err):
				st[k] = "NONE"
			default:
				st[k] = "ERR:" + err.Error()
			}
		}
		return st
	}
	quiesce(5 * time.Second)
	log.ev(map[string]interface{}{"e": "final", "st": project()})
	if err := eng.Close(); err != nil {
		log.ev(map[string]interface{}{"e": "error", "msg": "close: " + err.Error()})
		log.close()
		return 3
	}
	eng, err = openEngine(*dir, nil)
	if err != nil {
		log.ev(map[string]interface{}{"e": "error", "msg": "reopen: " + err.Error()})
		log.close()
		return 3
	}
	log.ev(map[string]interface{}{"e": "final", "st": project()})
	log.close()
	eng.Close()
	return 0
}

func okErr(err error) string {
	if err == nil {
		return "ok"
	}
	return "err"
}

func init() { register("lin-gated", linGatedCmd) }

// lin-gated: C06, deterministic interleavings at hook granularity (DESIGN 4.5).  The flush path (log rotation, table
// write, publication) is parked at ONE of its steps while two clients write and read; then it is released.  The recorded
// history - invocations, responses (or "still waiting" while parked, completed after the release), final and reopened
// state - is validated against KevoLin like any other.
func linGatedCmd(args []string) int {
	fs := flag.NewFlagSet("lin-gated", flag.ExitOnError)
	dir := fs.String("dir", "", "database directory")
	out := fs.String("out", "", "history (ndjson)")
	site := fs.String("site", "sm.rotate.swapped", "hook site at which the flush path is parked")
	hit := fs.Int("hit", 1, "n-th hit")
	imm := fs.Bool("imm", false, "make the flush work on an immutable table (switch first) instead of the active one")
	parkWriter := fs.Bool("parkwriter", false, "park a WRITER at -site (inside its append / insert) and run the flush path against it, instead of the other way round")
	syncMode := fs.Int("sync", 0, "sync mode")
	fs.Parse(args)
	stderr := os.Stderr
	muteStdout()
	wal.DisableRecoveryLogs = true
	conc := Conc{Class: "ascii"}
	cc := CfgClass{MemTableSize: 1 << 20, SyncMode: *syncMode, CompactSec: 3600}
	if *imm {
		cc.MemTableSize = 700
	}
	verifhook.Emit("h.reset", fmt.Sprintf("\"a\":0,\"b\":0,\"sync\":%d", *syncMode))
	eng, err := openEngine(*dir, &cc)
	if err != nil {
		fmt.Fprintln(stderr, err)
		return 2
	}
	log, err := newEvLog(*out)
	if err != nil {
		fmt.Fprintln(stderr, err)
		return 2
	}
	log.ev(map[string]interface{}{"e": "reset"})
	call := func(c, op, k, v string, grace time.Duration) chan struct{} {
		log.ev(map[string]interface{}{"e": "inv", "c": c, "op": op, "k": k, "v": v})
		done := make(chan struct{})
		go func() {
			res := ""
			switch op {
			case "put":
				res = okErr(eng.Put(conc.Key(k), []byte(v)))
			case "del":
				res = okErr(eng.Delete(conc.Key(k)))
			default:
				val, err := eng.Get(conc.Key(k))
				res = "NONE"
				if err == nil {
					res = string(val)
				} else if !isNotFound(err) {
					res = "ERR:" + err.Error()
				}
			}
			log.ev(map[string]interface{}{"e": "ret", "c": c, "res": res})
			close(done)
		}()
		select {
		case <-done:
		case <-time.After(grace):
		}
		return done
	}
	wait := func(chs ...chan struct{}) bool {
		for _, ch := range chs {
			select {
			case <-ch:
			case <-time.After(20 * time.Second):
				return false
			}
		}
		return true
	}
	// old state: several versions so that the keys carry sequence numbers well above 1
	n := 0
	for round := 0; round < 4; round++ {
		for _, k := range []string{"k1", "k2", "k3"} {
			n++
			if !wait(call("c1", "put", k, fmt.Sprintf("old-%d", n), time.Second)) {
				return 4
			}
		}
	}
	g := newGate()
	g.Park(*site, *hit)
	fdone := make(chan struct{})
	if *parkWriter {
		// a writer stands still inside its own write; the flush path (rotation!) runs against it
		// the flush path first advances to the start of the rotation (behind its snapshot of the table list, which waits for
		// writers in flight) and stands still there; then the writer enters its write and is parked inside it; then the
		// rotation is let go against the parked writer; finally the writer moves on
		g.Park("sm.rotate.begin", 1)
		go func() { eng.FlushImMemTables(); close(fdone) }()
		if !g.Wait("sm.rotate.begin", 3*time.Second) {
			log.ev(map[string]interface{}{"e": "notreached"})
			log.close()
			return 5
		}
		wd := call("c4", "put", "k2", "parked-writer", 50*time.Millisecond)
		if !g.Wait(*site, 3*time.Second) {
			log.ev(map[string]interface{}{"e": "notreached"})
			log.close()
			return 5
		}
		g.Release("sm.rotate.begin")
		time.Sleep(150 * time.Millisecond)
		g.Release(*site)
		if !wait(wd, fdone) {
			log.ev(map[string]interface{}{"e": "hang", "msg": "writer or flush did not return after the writer was released at " + *site})
			log.close()
			return 4
		}
		fdone = make(chan struct{})
		close(fdone)
		g.Park("h.never", 1)
		*site = "h.never"
	} else {
		go func() { eng.FlushImMemTables(); close(fdone) }()
		if !g.Wait(*site, 3*time.Second) {
			log.ev(map[string]interface{}{"e": "notreached"})
			log.close()
			return 5
		}
	}
	// while the flush path stands still: each client is sequential, a call that does not return within the grace period is
	// left pending and that client makes no further call until it has returned
	var pend []chan struct{}
	d1 := call("c1", "put", "k1", "new-1", 150*time.Millisecond)
	d2 := call("c2", "get", "k1", "-", 150*time.Millisecond)
	pend = append(pend, d1, d2)
	select {
	case <-d1:
		pend = append(pend, call("c1", "del", "k2", "-", 150*time.Millisecond))
	default:
	}
	select {
	case <-d2:
		d3 := call("c2", "get", "k2", "-", 150*time.Millisecond)
		pend = append(pend, d3)
		select {
		case <-d3:
			pend = append(pend, call("c2", "get", "k3", "-", 150*time.Millisecond))
		default:
		}
	default:
	}
	d4 := call("c3", "put", "k3", "new-3", 150*time.Millisecond)
	pend = append(pend, d4)
	select {
	case <-d4:
		pend = append(pend, call("c3", "get", "k3", "-", 150*time.Millisecond))
	default:
	}
	g.Release(*site)
	if !wait(append(pend, fdone)...) {
		log.ev(map[string]interface{}{"e": "hang", "msg": "a call did not return within 20 s after the flush path was released at " + *site})
		log.close()
		return 4
	}
	g.Close()
	// after the release every client reads everything once more
	for _, k := range []string{"k1", "k2", "k3"} {
		wait(call("c1", "get", k, "-", time.Second))
	}
	// and the keys written while the flush path stood still are written again and read back: the new writes are numbered by the
	// log the rotation has installed and must win over the writes made during the rotation
	wait(call("c2", "put", "k2", "after-2", time.Second))
	wait(call("c2", "get", "k2", "-", time.Second))
	wait(call("c3", "del", "k3", "-", time.Second))
	wait(call("c3", "get", "k3", "-", time.Second))
	wait(call("c1", "put", "k1", "after-1", time.Second))
	wait(call("c1", "get", "k1", "-", time.Second))
	project := func() map[string]string {
		st := map[string]string{}
		for _, k := range []string{"k1", "k2", "k3", "k4"} {
			v, err := eng.Get(conc.Key(k))
			switch {
			case err == nil:
				st[k] = string(v)
			case isNotFound(err):
				st[k] = "NONE"
			default:
				st[k] = "ERR:" + err.Error()
			}
		}
		return st
	}
	quiesce(5 * time.Second)
	log.ev(map[string]interface{}{"e": "final", "st": project()})
	eng.Close()
	eng, err = openEngine(*dir, nil)
	if err != nil {
		log.ev(map[string]interface{}{"e": "error", "msg": "reopen: " + err.Error()})
		log.close()
		return 3
	}
	log.ev(map[string]interface{}{"e": "final", "st": project()})
	log.close()
	eng.Close()
	return 0
}
