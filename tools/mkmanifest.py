#!/usr/bin/env python3
"""Regenerates MANIFEST.json from the table below (one source of truth for the registered checks)."""
import json
import os

ROOT = os.path.dirname(os.path.dirname(os.path.abspath(__file__)))

CHECKS = {
    'C01': ('model_checking', '§7 C01',
            'KevoStore.tla is model-checked exhaustively for small constants (ReadLatest, DirView: lookup through active/immutable/'
            'retained memtables and table files equals the abstract map whatever flush, rotation, compaction, retirement and reopen '
            'have done); TLC then generates API-level behaviours with the predicted state after every call, and each is replayed '
            'against the real engine under 4 configuration x byte-shape classes with a read-back of every key (and of untouched '
            'filler keys) after every call. Right level: the property is a for-all over programs and layer arrangements, which the '
            'model decides for the design and the replay transfers to the code by sampling the model\'s behaviours.',
            'bounded constants; replay samples the implementation; byte shapes sampled per class; hooks trusted for quiescence',
            'TLC exhaustive MC + TLC-generated behaviours replayed into the engine (observation equality)'),
    'C08': ('model_checking', '§7 C08',
            'KevoStore.tla: SeqStrictlyUp, NextAboveAll, LastSeqTruthful, LastSeqMonotone checked exhaustively over writes, batches, '
            'rotation, flush, crash, recovery; TLC-generated behaviours replayed with storage_last_sequence compared after every call '
            'and the whole log directory read back at the end (groups of equal numbers = issued operations in order, strictly increasing).',
            'bounded constants; log retirement excluded (kevo keeps no persistent counter); crash variants are covered under C02',
            'TLC exhaustive MC + replay with sequence-number oracle + log read-back'),
}


def main():
    checks = []
    for pid, (cat, ref, text, note, tech) in sorted(CHECKS.items()):
        checks.append({
            'property_id': pid,
            'quick_cmd': f'./check {pid} --tier quick',
            'thorough_cmd': f'./check {pid} --tier thorough',
            'evidence_file': f'/verif/evidence/{pid}.json',
            'replay_cmd_template': f'./check {pid} --replay {{path}}',
            'engine': 'tlc+kvh',
            'level_claimed': {'category': cat, 'text': text, 'design_ref': 'DESIGN.md ' + ref},
            'level_note': note,
            'technique': tech,
        })
    props = [json.loads(l)['id'] for l in open(os.path.join(ROOT, 'properties.jsonl')) if l.strip()]
    na = [{'property_id': p, 'reason': NOT_YET.get(p, 'check not built yet in this round; the specification module for it is planned in DESIGN.md §3')}
          for p in props if p not in CHECKS]
    man = {
        'version': 1,
        'setup_cmd': './setup.sh',
        'hooks': {
            'guard': 'verif',
            'enable': 'go build -tags verif (the harness module under /verif/harness is built with this tag against /repo via a replace directive)',
            'baseline_off_cmd': "cd /repo && GOFLAGS=-mod=mod GOPROXY=off go test -json -vet=off -count=1 -timeout 25m ./...",
            'source_commits': HOOK_COMMITS,
            'add_only': True,
        },
        'engines': [
            {'name': 'tlc', 'path': '/verif/spec', 'serves_properties': sorted(CHECKS), 'kind_free_text': 'TLA+ specifications checked with TLC 1.8 (exhaustive, simulation for behaviour generation, trace validation)'},
            {'name': 'kvh', 'path': '/verif/harness', 'serves_properties': sorted(CHECKS), 'kind_free_text': 'Go conformance harness built with -tags verif against /repo: replays TLC behaviours, records traces, crash children'},
        ],
        'checks': checks,
        'not_applicable': na,
        'notes': 'Single entry point ./check <id> [--tier quick|thorough] [--replay path]; exit 2 = machinery failure, never a verdict. Known findings: /verif/known_findings.json.',
    }
    with open(os.path.join(ROOT, 'MANIFEST.json'), 'w') as f:
        json.dump(man, f, indent=1)
        f.write('\n')


NOT_YET = {}
HOOK_COMMITS = ['1d3e1c9', 'c0ffee0']

if __name__ == '__main__':
    import subprocess
    out = subprocess.run(['git', '-C', '/repo', 'log', '--format=%h %s'], capture_output=True, text=True).stdout
    HOOK_COMMITS = [l.split()[0] for l in out.splitlines() if l.split(' ', 1)[1].startswith('verif:')]
    main()
