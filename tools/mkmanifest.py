#!/usr/bin/env python3
"""Regenerates MANIFEST.json from the table below (one source of truth for the registered checks)."""
import json
import os

ROOT = os.path.dirname(os.path.dirname(os.path.abspath(__file__)))

CHECKS = {
    'C13': ('model_checking', '§7 C13',
            'KevoRepl (primary log with same-sequence batches, four senders shipping whole batches, bounded stream with loss/dup/reorder, '
            'replica pipeline Deliver/ApplyBatch/Ack/Nack/Resend, disconnect/reconnect/restart) is model-checked: AppliedIsPrefix, '
            'NoSplitBatch, ExpectedFollowsApplied, ReportedMonotone, ReportedLeApplied. TLC-generated delivery schedules are replayed '
            'deterministically into the real WALBatchApplier through the real entry encoding with the predicted applied sequence / gap '
            'outcome as oracle; system traces of a real primary+replica pair (state sampled atomically) are decided by TLC (TRACE_Repl).',
            'bounded model; Replica.processEntries only through system scenarios; open finding KF_C13_restart_from_one',
            'TLC MC + deterministic replay of generated delivery schedules + TLC trace validation of system runs'),
    'C14': ('model_checking', '§7 C14',
            'KevoRepl liveness (Converges under LiveSpec, no state constraint; also beside a stalled second replica) is model-checked; system '
            'scenarios drawn from the specification (singles, deletes, transactions, rotation, flush; join before/during/after; restart) run '
            'a real primary and replica over loopback and compare both engines until equal within the deadline, then 3 more samples.',
            'scenario space sampled (exploration of programs); deadlines are fixed multiples of measured baselines; open finding KF_C13_restart_from_one',
            'TLC liveness MC + system scenarios generated from the specification'),
    'C15': ('exploration', '§7 C15',
            'KevoRepl: PWriteNeverWaits (ENABLED independent of stream/stall/session), PWriteReturns and StalledIsDropped under primary-only '
            'fairness are model-checked; fault scenarios attach a misbehaving replication client (never reads, never acknowledges, cuts TCP, '
            'slow apply) to a real primary with 0-1 healthy replicas; every Invoke of Put/Get/Commit needs a Return before a deadline that is a '
            'multiple of the baseline measured in the same run; traces decided by TLC (TRACE_Repl). Fault kinds/points are sampled.',
            'timing-based; two open findings (stalled reader blocks the primary; stalled reader is not dropped) whose witnesses reproduce each run',
            'TLC MC + fault scenarios with in-run baselines + TLC trace validation'),
    'C19': ('model_checking', '§7 C19',
            'KevoService states the embedded API once and defines every network action as limit checks + handle lookup + the embedded '
            'operator; TLC checks RejectedHasNoEffect, LimitsEnforced, HandleUnusableAfterFinish, ScanSound and RefinesEmbedded over key '
            'classes (empty, 1 byte, 4096, 4097 bytes), value classes (empty, ordinary, 10 MiB, 10 MiB+1), batch sizes 0/1-3/1000/1001 and '
            'handle states. TLC-generated request sequences (16 scripted scenario families incl. two sweeps of the whole scan-option product, '
            'plus random sequences) are sent to a real gRPC server wired as cmd/kevo (in process, and the real kevo -server binary); every '
            'response and, after every request, the store (engine iterator, Scan RPC, Get per key; once more after reopen) are compared with '
            'the prediction; every behaviour ends with the probe that a fresh read-write transaction is granted.',
            'sequential client (lock waiting is C17/C04); error texts and status codes not compared; bounded model constants, five ordinary keys',
            'TLC MC + replay of generated request sequences against a real gRPC server with predicted responses and store state'),
    'C16': ('model_checking', '§7 C16',
            'KevoService with a role: TLC checks ReadOnlyRejectsMutators, ApplyWorks, ApplyAndReadsAlwaysEnabled, NodeInfoTruthful and TableOK '
            'on the table of entry points. The entry points are ENUMERATED from the real interfaces by reflection (an unclassified method that '
            'changes a read-only engine is flagged); generated behaviours mix client requests, replicated applies (EngineApplier / '
            'ApplyBatchInternal) and role queries against a real replica-mode server (in process and the real binary with '
            '-replication-mode); client mutations are deterministically overlapped with applies parked at hook sites.',
            'accessors handing out internals (GetTransactionManager) are classified as internals, stated as an assumption; replication wire protocol is C13-C15',
            'TLC MC + reflection-enumerated entry points + replay of generated behaviours with gated apply/mutation overlaps'),
    'C09': ('model_checking', '§7 C09',
            'KevoWal models writer fragmentation and reader reassembly at record grain over 16 named shape classes (record-size boundaries, '
            'fragmented keys, batches below/above the buffer, rotation, reuse); TLC checks ReplayIsAppended, FromIsSuffix, SeqUp, NextMatchesLog. '
            'TLC-generated behaviours with predicted ReplayWALDir / ReplayWALFile / GetEntriesFrom(s) results are replayed on the wal package '
            'directly with byte-exact comparison under 3 byte styles x 3 sync modes (thorough: full boundary sweep of payload lengths).',
            'byte exactness is sampling over the shape classes; one sequential caller; OS/crash state is C02',
            'TLC MC + replay of generated behaviours on the wal package with byte comparison'),
    'C10': ('fault_enumeration', '§7 C10',
            'KevoWalReader (reader with StopAtDamage, reuse decision, post-recovery appends, second replay) is model-checked for every '
            'cut/flip descriptor: DeliveredIsSubSeq, FirstReplayRecoversPrefix, SecondReplay, FilesKept. On real logs written by the real '
            'writer EVERY truncation offset and, per byte, three corruptions are applied; the engine is opened, projected, written to, closed, '
            'opened again; each outcome is one trace line judged by TLC (TRACE_WalReader) with the specification\'s own operators.',
            'one damage per run; CRC collisions ignored; payload interior of files above 4 KB sampled; header type/length bytes are outside the checksum (format)',
            'TLC MC + exhaustive fault enumeration on real files judged by TLC trace validation'),
    'C18': ('model_checking', '§7 C18',
            'KevoMem models the skiplist at pointer level: Insert as PickHeight, RaiseMax, FindPreds and per level LinkNodeNext/LinkPredNext; '
            'readers (Find, Seek, SeekToFirst, Next with snapshot visibility) take one pointer load per step. TLC checks Level0Sorted, '
            'LevelsAreSublists, FindReturnsMaxSeq, ReaderSeesAtLeastPrefix, ImmutableNeverChanges exhaustively incl. mid-insert states '
            '(spec-level mutants must fail). Generated behaviours are bound deterministically: sequential replay on MemTable/MemTablePool, '
            'and gated interleavings - writer parked at every link step, reader parked between descent and landing - with each observation '
            'checked against the admissible set the specification computes; a -race stress run as a labelled extra.',
            'interleavings on the real code at hook granularity; heights above 2 only by retry; one writer',
            'TLC MC at pointer level + gated deterministic interleavings of generated behaviours'),
    'C11': ('model_checking', '§7 C11',
            'KevoSST transcribes writer (cuts, restart points, index = first keys, offset-labelled filters) and the lookup algorithms '
            '(index scan, restart binary search with step-back, linear decode, block hand-over, Get with filter) operationally; TLC checks '
            'SeekCorrect, GetCorrect, IterYieldsAllOnce, LastCorrect, CursorRefines, BloomNoFalseNegative and CorruptOpenFailsOrSubset '
            'exhaustively for small shapes (negative configs must fail). TLC-generated table shapes with full seek/get/iter tables and '
            'cursor programs are replayed on real files written by sstable.Writer in 4 byte shapes; single-byte corruption at every offset '
            'of small files and structure boundaries of large ones must fail or yield only written entries (fault enumeration).',
            'bytes are tokens in the spec (byte fidelity sampled in 4 shapes); single-byte damage only; no concurrency',
            'TLC MC of transcribed algorithms + replay of generated shapes on real files + corruption enumeration'),
    'C20': ('model_checking', '§7 C20',
            'KevoConfig: configurations as records of boundary classes over all fields, Validate both declaratively and as the if-chain in '
            'source order, and the manifest life-cycle (save = validate, tmp, rename; load; truncate/corrupt/tamper; open with and without '
            'data; reopen) model-checked exhaustively: ValidIffConstraints, SaveLoadIdentity, InvalidNeverWritten, BadManifestFailsOpen, '
            'ReopenUsesStored. TLC-generated behaviours (one per candidate configuration within two fields of a valid base; one per damage '
            'class with EVERY truncation length of the real MANIFEST; random life-cycle walks) are replayed against config.Validate, '
            'SaveManifest, LoadConfigFromManifest and engine.NewEngineFacade over directories with existing data.',
            'real values inside a boundary class are sampled (2-3 per class); constraints = those Validate and docs state',
            'TLC exhaustive MC + exhaustive spec-generated behaviours replayed on config/engine'),
    'C06': ('exploration', '§7 C06',
            'Recorded concurrent histories of the real engine (3-8 clients, put/get/delete with unique values, tiny memtables, background '
            'flush/compaction, seeded schedule perturbation at the hook sites) are validated by TLC against the sequential map KevoLin: a '
            'history is accepted iff a linearisation exists in which failed writes are no-ops and which produces the state observed after '
            'quiescence and after reopen. Deterministic gated interleavings park the flush path at each of its steps (and a writer inside its '
            'append) while clients write, read and afterwards rewrite the same keys; full-speed stress runs (writers reading their own key '
            'back while the log is rotated hundreds of times per second, nothing traced) contribute the head of every writer\'s history and '
            'the surroundings of every read that does not show the last acknowledged write. Each history is decided exactly; the schedules '
            'are sampled - hence exploration.',
            'schedules sampled; recorded intervals contain the true ones; search time-outs are machinery failures',
            'TLC trace validation (linearisation search) of recorded histories'),
    'C07': ('exploration', '§7 C07',
            'KevoConc (lock acquisition sequences of all public entry points, Go RWMutex semantics) is model-checked for deadlock freedom and '
            'EveryCallReturns; every pair of the 14 entry points (thorough: triples, quintuples) runs concurrently on the real engine in a '
            'harness compiled with the race detector under a watchdog, the run summary validated by TLC (TRACE_Conc). Entry points are '
            'cross-checked by reflection against the interfaces so that a new one cannot go unexercised silently.',
            'races decided by the Go race detector per execution (stated deviation); schedules sampled; Close concurrent with calls out of scope',
            'TLC MC of the lock protocol + race-detector runs of spec-derived call mixes + TLC trace acceptance'),
    'C05': ('model_checking', '§7 C05',
            'KevoIter transcribes the merging iterator, the range wrapper and the key filter operationally; TLC checks them against the '
            'abstract definition for all small arrangements (with the inductive invariant CursorsConsistent linking steps). TLC-generated '
            'arrangements + cursor programs (predicted position and supplying source after every operation) are replayed on the real engine '
            'with layers realised as table files, immutable memtables, mixed, and as a transaction buffer over stored layers; running scans '
            'stepped (Next, Seek, forward re-seek) between foreign writes/flush/compaction are validated by TLC against TRACE_Scan.',
            'bounded model; service-level scan options under C19; running-scan schedules sampled at Next granularity',
            'TLC MC of transcribed algorithms + replay of generated cursor programs + TLC trace validation of running scans'),
    'C17': ('model_checking', '§7 C17',
            'KevoTxn with the registry actions model-checked (UnlockByHolder, QuiescentLockFree; liveness EveryTxEnds under fairness of grants, '
            'clients and reaper). Recorded histories validated by TLC: registry scenarios (abandoned read-write and read-only transactions + idle/lifetime/connection/shutdown cleanup, '
            'a begin timing out after 10 s with its late grant) each followed by the probe that a fresh read-write transaction is granted, '
            'and free-running histories with double finish / use after finish.',
            'two transactions per client excluded; lifetime limit only in thorough tier; gRPC variants under C19',
            'TLC MC (safety+liveness) + TLC trace validation of recorded registry scenarios and histories'),
    'C02': ('fault_enumeration', '§7 C02',
            'KevoStore is model-checked to implement the client-level durability contract KevoDurable (what reached the OS is always a '
            'prefix of the issue order; with synchronous logging it holds every acknowledged write; a batch is one log element), including '
            'Die between any two sub-steps, Recover and a second Die. The real engine is then stopped (os.Exit without cleanup, in a child '
            'process) at EVERY (hook site, hit) of TLC-generated programs, reopened, observed, written to again, reopened and observed again; '
            'torn variants cut the write in flight; gated variants stop inside the log rotation while the client keeps writing; each outcome '
            'is a trace that TLC validates against KevoDurable - it has to find a surviving prefix that explains every observation. '
            'KevoRetention (the primary\'s log retention driven by replication acknowledgements - the only code that deletes log files) is '
            'model-checked (Recoverable, NextAbove, GuardSound; the unguarded variant must fail) and TLC-generated walks (put, flush, '
            'acknowledge, die also inside an append, recover) run on a real primary, one child process per life, with log files, readable '
            'entries, next number and unflushedFrom compared after every step.',
            'process death not power failure; stop points = hook sites; SyncBatch held to the SyncNone contract; bounded model',
            'TLC refinement MC + crash enumeration at hook sites + TLC trace validation (prefix search)'),
    'C03': ('model_checking', '§7 C03',
            'KevoTxn (CommitIsOneStep, RollbackLeavesNoTrace) and KevoStore=>KevoDurable model-checked; bound by gated interleavings (committer '
            'parked at every hook site of its commit while all keys are read from outside and a read-only transaction is requested; histories '
            'validated by TLC against TRACE_Txn), commits made to fail by a parked rotation, free-running histories with caller buffer reuse, '
            'and crash enumeration of batch-heavy programs.',
            'interleavings at hook granularity; waiting = not returned within 250 ms; crash assumptions as C02',
            'TLC MC + gated interleavings/recorded histories validated by TLC + crash enumeration'),
    'C04': ('model_checking', '§7 C04',
            'KevoTxn model-checked exhaustively (Mutex, SnapshotStable, CommitIsOneStep, liveness EveryTxEnds); recorded histories of 3-6 '
            'concurrent clients (every read with its result, grant/apply/unlock logged at their linearisation points inside the hooks) are '
            'validated by TLC: each history must be a behaviour of KevoTxn, i.e. every read = state at grant + own writes and the final state '
            'is the result of the commits in lock order. Schedules are sampled with seeded yield perturbation; each history is decided exactly.',
            'schedules sampled; direct writes excluded as the property says; pending-writer rule not demanded in validation',
            'TLC MC (safety+liveness) + TLC trace validation of recorded concurrent histories'),
    'C12': ('model_checking', '§7 C12',
            'KevoStore with the compactor (strategy selections and range compaction closed under overlap, tombstone kept while an older table '
            'outside the compaction may hold the key) is model-checked: DirView (lookup through the directory in recency order = abstract map) '
            'and DeepLevelsDisjoint. TLC-generated behaviours with flush/compaction (cycle, full range, sub-range)/retire/reopen are replayed: '
            'every key read back after every call - after retire+reopen from table files only - and around each compaction the merged '
            'newest-wins view of the table directory (real readers, recency as the spec defines it) must be unchanged and files sorted.',
            'bounded constants; tombstone retention by age not exercisable; background flush between directory snapshots voids that comparison',
            'TLC MC + replay with directory-view oracle'),
    'C01': ('model_checking', '§7 C01',
            'KevoStore.tla is model-checked exhaustively for small constants (ReadLatest, DirView: lookup through active/immutable/'
            'retained memtables and table files equals the abstract map whatever flush, rotation, compaction, retirement and reopen '
            'have done); TLC then generates API-level behaviours with the predicted state after every call, and each is replayed '
            'against the real engine under 4 configuration x byte-shape classes with a read-back of every key (and of untouched '
            'filler keys) after every call; a value-length sweep (classes edge:<base>, 156 lengths around the 32 KB log fragment and the '
            '64 KB buffer/block boundaries) replays short behaviours with reopen. Right level: the property is a for-all over programs and layer arrangements, which the '
            'model decides for the design and the replay transfers to the code by sampling the model\'s behaviours.',
            'bounded constants; replay samples the implementation; byte shapes sampled per class; hooks trusted for quiescence',
            'TLC exhaustive MC + TLC-generated behaviours replayed into the engine (observation equality)'),
    'C08': ('model_checking', '§7 C08',
            'KevoStore.tla: SeqStrictlyUp, NextAboveAll, LastSeqTruthful, LastSeqMonotone checked exhaustively over writes, batches, '
            'rotation, flush, crash, recovery; TLC-generated behaviours replayed with storage_last_sequence compared after every call '
            'and the whole log directory read back at the end (groups of equal numbers = issued operations in order, strictly increasing); '
            'gated interleavings park the rotation (and a writer inside its append) while clients write, the hook stream must keep the '
            'numbering rules of TRACE_StoreProto; full-speed stress runs (no tracing) whose log directory is read back as the append-event stream '
            'the monitor judges; crash recoveries (stops at hook sites incl. torn and record-boundary tails of fragmented '
            'entries) must continue the numbering behind the surviving operations (TRACE_Durable!TObs).',
            'bounded constants; log retirement while closed excluded (kevo keeps no persistent counter); live retention under KevoRetention (C02)',
            'TLC exhaustive MC + replay with sequence-number oracle + log read-back'),
}


def main():
    checks = []
    for pid, (cat, ref, text, note, tech) in sorted(CHECKS.items()):
        checks.append({
            'property_id': pid,
            'quick_cmd': f'./check {pid} --tier quick',
            'thorough_cmd': f'./check {pid} --tier thorough',
            'evidence_file': f'/verif/evidence/{pid}.json',
            'replay_cmd_template': f'./check {pid} --replay {{path}}',
            'engine': 'tlc+kvh',
            'level_claimed': {'category': cat, 'text': text, 'design_ref': 'DESIGN.md ' + ref},
            'level_note': note,
            'technique': tech,
        })
    props = [json.loads(l)['id'] for l in open(os.path.join(ROOT, 'properties.jsonl')) if l.strip()]
    na = [{'property_id': p, 'reason': NOT_YET.get(p, 'check not built yet in this round; the specification module for it is planned in DESIGN.md §3')}
          for p in props if p not in CHECKS]
    man = {
        'version': 1,
        'setup_cmd': './setup.sh',
        'hooks': {
            'guard': 'verif',
            'enable': 'go build -tags verif (the harness module under /verif/harness is built with this tag against /repo via a replace directive)',
            'baseline_off_cmd': "cd /repo && GOFLAGS=-mod=mod GOPROXY=off go test -json -vet=off -count=1 -timeout 25m ./...",
            'source_commits': HOOK_COMMITS,
            'add_only': True,
        },
        'engines': [
            {'name': 'tlc', 'path': '/verif/spec', 'serves_properties': sorted(CHECKS), 'kind_free_text': 'TLA+ specifications checked with TLC 1.8 (exhaustive, simulation for behaviour generation, trace validation)'},
            {'name': 'kvh', 'path': '/verif/harness', 'serves_properties': sorted(CHECKS), 'kind_free_text': 'Go conformance harness built with -tags verif against /repo: replays TLC behaviours, records traces, crash children'},
        ],
        'checks': checks,
        'not_applicable': na,
        'notes': 'Single entry point ./check <id> [--tier quick|thorough] [--replay path]; exit 2 = machinery failure, never a verdict. Known findings: /verif/known_findings.json.',
    }
    with open(os.path.join(ROOT, 'MANIFEST.json'), 'w') as f:
        json.dump(man, f, indent=1)
        f.write('\n')


NOT_YET = {}
HOOK_COMMITS = ['1d3e1c9', 'c0ffee0']

if __name__ == '__main__':
    import subprocess
    out = subprocess.run(['git', '-C', '/repo', 'log', '--format=%h %s'], capture_output=True, text=True).stdout
    HOOK_COMMITS = [l.split()[0] for l in out.splitlines() if l.split(' ', 1)[1].startswith('verif:')]
    main()
