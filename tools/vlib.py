"""Shared machinery of the kevo verification checks: TLC drivers (exhaustive, simulation, trace validation),
harness build, evidence, known findings, verdict rules.  Python 3 standard library only."""
import hashlib
import json
import os
import re
import shutil
import subprocess
import sys
import threading
import time

ROOT = os.path.dirname(os.path.dirname(os.path.abspath(__file__)))
SPEC = os.path.join(ROOT, 'spec')
REPO = os.environ.get('VERIF_REPO', '/repo')
TLA_CP = '/opt/veriftools/tla/tla2tools.jar:/opt/veriftools/tla/CommunityModules-deps.jar'
NCPU = os.cpu_count() or 4

EXIT_OK, EXIT_VIOLATION, EXIT_INFRA = 0, 1, 2


class Infra(Exception):
    """Something in the machinery (not in kevo) went wrong: exit 2, never a violation."""


class KevoPanic(Infra):
    """The harness process died from a Go panic / fatal error raised INSIDE kevo's code (top frame in github.com/KevoDB/kevo/pkg):
    that is an observation of the code under test, not a machinery failure.  The driver re-runs the command and reports a
    violation if it happens again."""

    def __init__(self, msg, cmd, env, stderr):
        super().__init__(msg)
        self.cmd, self.env, self.stderr = cmd, env, stderr


def kevo_panic(stderr):
    """Returns a one-line description if stderr shows a panic whose first frame below the runtime is kevo code."""
    m = re.search(r'^(panic: .*|fatal error: .*)$', stderr, re.M)
    if not m:
        return None
    frames = re.findall(r'^([\w./()*\-]+)\(.*\)\n\t(\S+):(\d+)', stderr[m.start():], re.M)
    for fn, path, line in frames:
        if fn.startswith('runtime.') or fn.startswith('panic(') or '/runtime/' in path:
            continue
        if fn.startswith('github.com/KevoDB/kevo/'):
            return f'{m.group(1)} in {fn} ({os.path.basename(path)}:{line})'
        return None
    return None


def log(*a):
    print(*a, file=sys.stderr, flush=True)


class Ctx:
    """One check run: scratch directory, seed, tier, timers, accumulated coverage."""

    def __init__(self, prop, tier, seed):
        self.prop, self.tier, self.seed = prop, tier, seed
        self.t0 = time.time()
        self.work = os.path.join(ROOT, '.work', f'{prop}-{tier}-{os.getpid()}')
        shutil.rmtree(self.work, ignore_errors=True)
        os.makedirs(self.work)
        self.states = 0
        self.transitions = 0
        self.traces = 0
        self.evaluations = 0
        self.nontrivial = set()
        self.samples = []
        self.mc_runs = []
        self.notes = {}
        self.violations = []        # dicts: what, replay
        self.known_seen = []
        self.unreproduced = []
        self.assumptions = []
        self._kvh = {}
        self._lock = threading.Lock()

    def sub(self, name):
        d = os.path.join(self.work, name)
        os.makedirs(d, exist_ok=True)
        return d

    def cleanup(self):
        shutil.rmtree(self.work, ignore_errors=True)

    def quick(self):
        return self.tier == 'quick'

    # ---------------------------------------------------------------- harness
    def kvh(self, race=False):
        with self._lock:
            return self._kvh_locked(race)

    def _kvh_locked(self, race):
        key = 'race' if race else 'plain'
        if key in self._kvh:
            return self._kvh[key]
        mod = self.sub('hmod-' + key)
        # only integrated harness files (harness/INTEGRATED) plus those named in $VERIF_HARNESS_EXTRA are compiled, so that
        # files other contributors are still working on cannot break a check
        src = os.path.join(ROOT, 'harness', 'cmd', 'kvh')
        with open(os.path.join(ROOT, 'harness', 'INTEGRATED')) as f:
            keep = set(f.read().split())
        keep |= set(x for x in os.environ.get('VERIF_HARNESS_EXTRA', '').split(',') if x)
        os.makedirs(os.path.join(mod, 'cmd', 'kvh'), exist_ok=True)
        for fn in os.listdir(src):
            if fn in keep:
                shutil.copy(os.path.join(src, fn), os.path.join(mod, 'cmd', 'kvh', fn))
        with open(os.path.join(ROOT, 'harness', 'go.mod.tmpl')) as f:
            gm = f.read().replace('@REPO@', REPO)
        with open(os.path.join(mod, 'go.mod'), 'w') as f:
            f.write(gm)
        shutil.copy(os.path.join(REPO, 'go.sum'), os.path.join(mod, 'go.sum'))
        out = os.path.join(self.work, 'kvh-' + key)
        cmd = ['go', 'build', '-tags', 'verif'] + (['-race'] if race else []) + ['-o', out, './cmd/kvh']
        for attempt in range(3):
            p = subprocess.run(cmd, cwd=mod, env=goenv(), capture_output=True, text=True)
            if p.returncode == 0 or 'requires go >=' not in (p.stdout + p.stderr):
                break
            time.sleep(2)       # the offline toolchain switch occasionally fails when several builds start at once
        if p.returncode != 0:
            raise Infra('harness build failed (does /repo compile with -tags verif?):\n' + p.stdout + p.stderr)
        self._kvh[key] = out
        return out

    def run_kvh(self, args, race=False, timeout=600, env=None, check=True):
        e = dict(os.environ)
        if env:
            e.update(env)
        try:
            p = subprocess.run([self.kvh(race)] + args, capture_output=True, text=True, timeout=timeout, env=e)
        except subprocess.TimeoutExpired:
            raise Infra(f'harness timed out after {timeout}s: kvh {" ".join(args[:3])}')
        if check and p.returncode != 0:
            kp = kevo_panic(p.stderr)
            if kp:
                raise KevoPanic(f'kevo code panicked while the harness ran `kvh {" ".join(args[:2])} ...`: {kp}', [self.kvh(race)] + args,
                                env or {}, p.stderr[-4000:])
            raise Infra(f'harness failed ({p.returncode}): kvh {" ".join(args)}\n{p.stderr[-3000:]}')
        return p


def goenv():
    e = dict(os.environ)
    e['GOFLAGS'] = '-mod=mod'
    e['GOPROXY'] = 'off'
    e.pop('GOTOOLCHAIN', None) if e.get('GOTOOLCHAIN') == 'local' else None
    e.pop('GOSUMDB', None) if e.get('GOSUMDB') == 'off' else None
    return e


# -------------------------------------------------------------------------------------------- TLC
def _tlc(ctx, module, cfg, extra, timeout, tag, workers, javaopts=()):
    d = ctx.sub('tlc-' + tag)
    for f in os.listdir(SPEC):
        if f.endswith('.tla') or f.endswith('.cfg'):
            shutil.copy(os.path.join(SPEC, f), d)
    tmp = os.path.join(d, 'tmp')
    os.makedirs(tmp, exist_ok=True)
    heap = '-Xmx6g' if workers > 1 else '-Xmx2g'       # the JVM default (a quarter of the RAM per process) does not survive parallel checks
    cmd = ['java', '-XX:+UseParallelGC', heap, '-Xss64m', f'-Djava.io.tmpdir={tmp}'] + list(javaopts) + \
          ['-cp', TLA_CP, 'tlc2.TLC', '-workers', str(workers), '-metadir', os.path.join(d, 'md'),
           '-config', cfg] + extra + [module]
    t = time.time()
    try:
        p = subprocess.run(cmd, cwd=d, capture_output=True, text=True, timeout=timeout)
    except subprocess.TimeoutExpired:
        subprocess.run(['pkill', '-f', os.path.join(d, 'md')])
        raise Infra(f'TLC timed out after {timeout}s on {module}/{cfg}')
    return p.stdout + p.stderr, time.time() - t, d


def parse_tlc_stats(out):
    st = {}
    m = re.search(r'(\d+) states generated, (\d+) distinct states found, (\d+) states left on queue', out)
    if m:
        st['generated'], st['distinct'], st['queue'] = int(m.group(1)), int(m.group(2)), int(m.group(3))
    m = re.search(r'The depth of the complete state graph search is (\d+)', out)
    if m:
        st['depth'] = int(m.group(1))
    return st


def tlc_mc(ctx, module, cfg, timeout=600, workers=None, tag=None, expect_violation=False):
    """Exhaustive check of a bounded configuration.  Raises Infra on tool errors or if the SPECIFICATION itself
    violates its property (then the machinery is wrong, not kevo)."""
    out, dt, d = _tlc(ctx, module + '.tla', cfg, ['-coverage', '0'] if False else [], timeout, tag or cfg.replace('.cfg', ''), workers or NCPU)
    st = parse_tlc_stats(out)
    bad = ('is violated' in out) or ('Error:' in out)
    done = 'Model checking completed' in out
    if expect_violation:
        return bad, st, out
    if bad or not done or 'distinct' not in st:
        raise Infra(f'TLC did not verify {module}/{cfg} (the specification violates its own property or failed to run):\n' + out[-4000:])
    ctx.states += st['distinct']
    ctx.transitions += st['generated']
    ctx.mc_runs.append({'module': module, 'cfg': cfg, 'distinct_states': st['distinct'], 'generated': st['generated'],
                        'depth': st.get('depth'), 'seconds': round(dt, 1)})
    return st


def tlc_sim(ctx, module, cfg, num, depth, seed, timeout=300, tag=None):
    """Simulation mode: returns the behaviours printed as <<"BEHAVIOUR", ToJson(h)>> (deduplicated)."""
    out, dt, d = _tlc(ctx, module + '.tla', cfg, ['-simulate', f'num={num}', '-depth', str(depth), '-seed', str(seed)],
                      timeout, tag or ('sim-' + cfg.replace('.cfg', '')), 1)
    if 'Error:' in out and 'BEHAVIOUR' not in out:
        raise Infra(f'TLC simulation failed for {module}/{cfg}:\n' + out[-4000:])
    if re.search(r'Error: .*(violated|Evaluating|exception)', out):
        raise Infra(f'TLC simulation reported an error for {module}/{cfg}:\n' + out[-4000:])
    seen, res = set(), []
    for line in out.splitlines():
        if line.startswith('<<"BEHAVIOUR", '):
            s = line.strip()[len('<<"BEHAVIOUR", '):-2]
            try:
                js = json.loads(s)
            except Exception:
                raise Infra('cannot parse behaviour printed by TLC: ' + line[:200])
            if js not in seen:
                seen.add(js)
                res.append(json.loads(js))
    m = re.search(r'The number of states generated: (\d+)', out)
    if m:
        ctx.transitions += int(m.group(1))
    if not res:
        raise Infra(f'TLC simulation produced no behaviour for {module}/{cfg}:\n' + out[-2000:])
    return res


def tlc_enumerate(ctx, module, cfg, timeout=600, tag=None):
    """Model-checking mode used as an exhaustive GENERATOR: the module prints every complete behaviour once (from an action) as
    <<"BEHAVIOUR", ToJson(h)>>; returns them all.  TLC's state count is added to the coverage."""
    out, dt, d = _tlc(ctx, module + '.tla', cfg, [], timeout, tag or ('enum-' + cfg.replace('.cfg', '')), 1)
    st = parse_tlc_stats(out)
    if 'Error:' in out or 'distinct' not in st or st.get('queue', 1) != 0:
        raise Infra(f'TLC enumeration failed for {module}/{cfg}:\n' + out[-3000:])
    ctx.states += st['distinct']
    ctx.transitions += st['generated']
    res = []
    for line in out.splitlines():
        if line.startswith('<<"BEHAVIOUR", '):
            res.append(json.loads(json.loads(line.strip()[len('<<"BEHAVIOUR", '):-2])))
    if not res:
        raise Infra(f'TLC enumeration produced no behaviour for {module}/{cfg}')
    return res


def tlc_trace(ctx, module, cfg, trace_path, timeout=300, tag=None, trace_name='trace.ndjson', done_inv=None):
    """Trace validation: copies the trace next to the spec, runs TLC (1 worker, depth-first queue) and reports
    (accepted, highwater, stats, out).  Acceptance is decided by the POSTCONDITION of the cfg."""
    tag = tag or ('trace-' + cfg.replace('.cfg', ''))
    d = ctx.sub('tlc-' + tag)
    shutil.copy(trace_path, os.path.join(d, trace_name))
    out, dt, d = _tlc(ctx, module + '.tla', cfg, [], timeout, tag, 1,
                      javaopts=['-Dtlc2.tool.queue.IStateQueue=StateDeque'])
    st = parse_tlc_stats(out)
    hw = None
    m = re.findall(r'"HIGHWATER", (\d+)', out)
    if m:
        hw = max(int(x) for x in m)
    if 'distinct' not in st and 'Error' in out and 'Postcondition' not in out and 'postcondition' not in out:
        raise Infra(f'TLC failed on trace {module}/{cfg}:\n' + out[-4000:])
    accepted = ('Model checking completed. No error has been found' in out)
    if done_inv and f'Invariant {done_inv} is violated' in out:
        # the cfg lists "the trace is not yet consumed" as an INVARIANT: its violation means a complete explanation of the
        # trace was found, and lets the depth-first search stop there instead of enumerating every other explanation
        accepted = True
    if not accepted and not re.search(r'[Pp]ostcondition|is violated|Invariant .* is violated', out):
        raise Infra(f'TLC failed on trace {module}/{cfg}:\n' + out[-4000:])
    ctx.states += st.get('distinct', 0)
    ctx.transitions += st.get('generated', 0)
    return accepted, hw, st, out


# ------------------------------------------------------------------------------------ known findings
def load_known():
    p = os.path.join(ROOT, 'known_findings.json')
    if not os.path.exists(p):
        return []
    with open(p) as f:
        return json.load(f).get('findings', [])


def open_findings(prop):
    return [k for k in load_known() if k.get('status') == 'open' and k.get('property') == prop]


# ------------------------------------------------------------------------------------------ evidence
LEVELS = {}


def write_evidence(ctx, level, rule, exhaustive=False, extra=None):
    cov = {
        'states': ctx.states,
        'transitions': ctx.transitions,
        'traces_validated_against_impl': ctx.traces,
        'evaluations': ctx.evaluations,
        'distinct_nontrivial': len(ctx.nontrivial),
        'rule': rule,
        'samples': ctx.samples[:6] if ctx.samples else [],
        'exhaustive': exhaustive,
        'mc_runs': ctx.mc_runs,
        'known_findings_seen': ctx.known_seen,
        'unreproduced': ctx.unreproduced,
    }
    cov.update(ctx.notes)
    if extra:
        cov.update(extra)
    ev = {
        'property_id': ctx.prop,
        'tier': ctx.tier,
        'seed': ctx.seed,
        'level': level,
        'coverage': cov,
        'assumptions': ctx.assumptions,
        'wall_s': round(time.time() - ctx.t0, 1),
        'violations': len(ctx.violations),
    }
    # /verif/evidence describes runs against /repo itself; a run against another tree (a seeded change, a reverted fix: VERIF_REPO)
    # leaves its evidence in a scratch directory of its own
    edir = os.path.join(ROOT, 'evidence')
    if os.path.realpath(os.environ.get('VERIF_REPO', '/repo')) != '/repo':
        edir = os.path.join(ROOT, '.work', 'evidence-other-trees')
    os.makedirs(edir, exist_ok=True)
    with open(os.path.join(edir, ctx.prop + '.json'), 'w') as f:
        json.dump(ev, f, indent=1, sort_keys=True)
        f.write('\n')


def save_replay(ctx, kind, payload):
    """Persist one failing case so that `./check <id> --replay <path>` can re-execute it."""
    d = os.path.join(ROOT, 'findings', 'tmp')
    os.makedirs(d, exist_ok=True)
    body = json.dumps({'property': ctx.prop, 'kind': kind, 'seed': ctx.seed, 'payload': payload}, sort_keys=True)
    name = f'{ctx.prop}-{kind}-{hashlib.sha1(body.encode()).hexdigest()[:10]}.json'
    p = os.path.join(d, name)
    with open(p, 'w') as f:
        f.write(body + '\n')
    return p


def read_ndjson(path):
    res = []
    with open(path) as f:
        for line in f:
            line = line.strip()
            if line:
                res.append(json.loads(line))
    return res


def write_ndjson(path, items):
    with open(path, 'w') as f:
        for it in items:
            f.write(json.dumps(it, sort_keys=True) + '\n')


def action_sig(beh):
    return ' '.join(s.get('a', '?') for s in beh)


def validate_batch(ctx, module, cfg, runs, tag, bad_events=('error', 'hang', 'notreached', 'openerror', 'childerror'), done_inv=None, timeout=900):
    """runs: list of event lists (each starting with a reset event).  All runs are concatenated and validated by ONE TLC
    run; on rejection the high-water mark names the run that could not be explained, which is removed and the rest is
    validated again.  Returns the indexes of the rejected runs."""
    rejected = []
    live = list(range(len(runs)))
    for i in list(live):
        if any(e.get('e') in bad_events for e in runs[i]):
            rejected.append(i)
            live.remove(i)
    rounds = 0
    # every run starts with a reset event, so the runs in front of a rejected one are accepted for good: only the runs behind it
    # are validated again (the number of rounds is the number of rejected runs + 1; capped, the rest is then reported as rejected
    # by a last resort of one run per TLC call being too slow)
    while live and rounds < 40:
        rounds += 1
        lines, owner = [], []
        for i in live:
            for e in runs[i]:
                lines.append(e)
                owner.append(i)
        tp = os.path.join(ctx.sub('traces'), f'{tag}-{rounds}.ndjson')
        write_ndjson(tp, lines)
        ok, hw, st, out = tlc_trace(ctx, module, cfg, tp, timeout=timeout, tag=f'{tag}-{rounds}', done_inv=done_inv)
        if ok:
            break
        if hw is None or hw < 1 or hw > len(lines):
            raise Infra('trace validation rejected a batch but reported no position:\n' + out[-2000:])
        bad = owner[hw - 1]
        rejected.append(bad)
        live = live[live.index(bad) + 1:]
    # (after 40 rejected runs the rest stays unjudged: there is more than enough to reproduce and report)
    return rejected
