#!/usr/bin/env python3
"""Fast variant of the pinned baseline (guard OFF): every package with a normal timeout, pkg/replication
with a short one (one of its tests hangs on the pinned tree and only ends at the suite timeout; the 47
baseline tests of that package finish before it).  Compares the set of passing tests with
/root/.vp/BASELINE.json stable_pass.  Usage: fastbase.py [repo] [pkgpattern...]"""
import json, os, subprocess, sys
repo = sys.argv[1] if len(sys.argv) > 1 else '/repo'
pk = sys.argv[2:]
env = dict(os.environ, GOFLAGS='-mod=mod', GOPROXY='off')
base = set(json.load(open('/root/.vp/BASELINE.json'))['stable_pass'])
passed, failed = set(), set()
def run(args, timeout):
    p = subprocess.run(['go', 'test', '-json', '-vet=off', '-count=1', '-timeout', timeout] + args,
                       cwd=repo, env=env, capture_output=True, text=True)
    for l in p.stdout.splitlines():
        try: e = json.loads(l)
        except Exception: continue
        if e.get('Test') and e.get('Action') in ('pass', 'fail'):
            (passed if e['Action'] == 'pass' else failed).add(e['Package'] + '::' + e['Test'])
if pk:
    run(pk, '300s')
    base = {b for b in base if any(b.split('::')[0].endswith(x.strip('./')) for x in pk)}
else:
    pkgs = subprocess.run(['go', 'list', './...'], cwd=repo, env=env, capture_output=True, text=True).stdout.split()
    rest = [p for p in pkgs if not p.endswith('/pkg/replication')]
    import concurrent.futures as cf
    with cf.ThreadPoolExecutor(2) as ex:
        a = ex.submit(run, rest, '600s'); b = ex.submit(run, ['./pkg/replication/'], '150s')
        a.result(); b.result()
missing = sorted(base - passed)
print(f'baseline={len(base)} passed={len(passed)} missing={len(missing)} failed={len(failed & base)}')
for m in missing: print('  MISSING', m, '(FAILED)' if m in failed else '')
sys.exit(1 if missing else 0)
