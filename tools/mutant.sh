#!/bin/bash
# tools/mutant.sh <prop> (revert:<commit> | <patch-file>) [tier]
# Sensitivity test: a scratch worktree of /repo (outside /repo and /verif) gets one change - a fix: commit reverted, or a
# seeded patch applied - and the property's check is run against it with VERIF_REPO.  Expected: exit 1.  The worktree
# and its build output are removed afterwards.  Never part of a registered command.
set -u
prop=$1; what=$2; tier=${3:-quick}
wt=/var/tmp/kevo-mut-$$
git -C /repo worktree add -q --detach "$wt" HEAD || exit 2
cleanup() { git -C /repo worktree remove --force "$wt" >/dev/null 2>&1; rm -rf "$wt"; }
trap cleanup EXIT
case "$what" in
  revert:*) (cd "$wt" && git revert --no-commit "${what#revert:}" >/dev/null 2>&1) || { echo "revert failed"; exit 2; } ;;
  *) (cd "$wt" && git apply "$what") || { echo "patch failed"; exit 2; } ;;
esac
(cd "$wt" && GOFLAGS=-mod=mod GOPROXY=off go build ./... ) || { echo "mutant does not compile"; exit 2; }
cd /verif && VERIF_REPO="$wt" ./check "$prop" --tier "$tier" > "/verif/.work/mutant-$$.log" 2>&1
rc=$?
grep -m3 -E "^(VIOLATION|disagreement|INFRA|KNOWN)" "/verif/.work/mutant-$$.log" | cut -c1-300
echo "mutant $what on $prop: exit=$rc"
rm -f "/verif/.work/mutant-$$.log"
exit $rc
