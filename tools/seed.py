#!/usr/bin/env python3
"""tools/seed.py <mutant-dir> <seed-id> <Cxx,Cyy,...>  (never part of a registered command)
Confirms a seeded change produced by an independent sub-agent in a scratch worktree (outside /repo and /verif): it applies, compiles,
the existing tests of the main packages still pass with it, its demonstration fails with it and passes without it.  Only then it is
kept as /verif/seeded/<seed-id>/ (patch.diff, demo_test.go, meta.json) and the quick checks of the named properties are run against
the changed tree (VERIF_REPO); the outcome is recorded in meta.json.  The worktree is removed afterwards."""
import json
import os
import re
import shutil
import subprocess
import sys

ROOT = os.path.dirname(os.path.dirname(os.path.abspath(__file__)))
PKGS = ['./pkg/wal/', './pkg/memtable/', './pkg/sstable/...', './pkg/compaction/', './pkg/engine/...', './pkg/transaction/',
        './pkg/common/...', './pkg/config/', './pkg/client/', './pkg/stats/']
env = dict(os.environ, GOFLAGS='-mod=mod', GOPROXY='off')


def sh(cmd, cwd, timeout=900):
    p = subprocess.run(cmd, cwd=cwd, env=env, capture_output=True, text=True, timeout=timeout)
    return p.returncode, p.stdout + p.stderr


def recheck(sid, props):
    """Re-run checks against an already confirmed seed (seeded/<id>/patch.diff) and update its meta.json."""
    dst = os.path.join(ROOT, 'seeded', sid)
    meta = json.load(open(os.path.join(dst, 'meta.json')))
    wt = f'/var/tmp/kevo-seed-{os.getpid()}'
    subprocess.run(['git', '-C', '/repo', 'worktree', 'add', '-q', '--detach', wt, 'HEAD'], check=True)
    try:
        import glob
        for pf in [os.path.join(dst, 'patch.diff')] + sorted(glob.glob(os.path.join(dst, 'patch_rebased_on_*.diff')), reverse=True):
            rc, out = sh(['git', 'apply', pf], wt)
            if not rc:
                break
        if rc:
            print('patch no longer applies on HEAD:', out[-300:])
            return 1
        rc, out = sh(['go', 'build', './...'], wt)
        if rc:
            print('does not compile on HEAD')
            return 1
        det = meta.get('checks_run_against_it', {})
        for pr in props:
            p = subprocess.run(['./check', pr, '--tier', 'quick'], cwd=ROOT, env=dict(os.environ, VERIF_REPO=wt), capture_output=True, text=True)
            first = [l for l in p.stdout.splitlines() if l.startswith('disagreement')][:1] or \
                    [l for l in (p.stdout + p.stderr).splitlines() if l.startswith('INFRA')][:1]
            det[pr] = {'exit': p.returncode, 'first': first[0][:400] if first else ''}
            print(sid, pr, det[pr], flush=True)
        meta['checks_run_against_it'] = det
        meta['detected_by'] = sorted(k for k, v in det.items() if v['exit'] == 1)
        with open(os.path.join(dst, 'meta.json'), 'w') as f:
            json.dump(meta, f, indent=1)
            f.write('\n')
        return 0
    finally:
        subprocess.run(['git', '-C', '/repo', 'worktree', 'remove', '--force', wt], capture_output=True)
        subprocess.run(['rm', '-rf', wt])


def recheck_all(only=None):
    """Every confirmed seed against the check of the property it breaks and every check it was ever run against."""
    import glob
    for mp in sorted(glob.glob(os.path.join(ROOT, 'seeded', '*', 'meta.json'))):
        meta = json.load(open(mp))
        sid = os.path.basename(os.path.dirname(mp))
        if only and not any(sid.startswith(o) for o in only):
            continue
        props = sorted(set(meta.get('checks_run_against_it', {})) | {meta.get('breaks_property') or meta.get('property')})
        recheck(sid, [p for p in props if p])
    return 0


def main():
    if sys.argv[1] == '--recheck-all':
        return recheck_all(sys.argv[2].split(',') if len(sys.argv) > 2 else None)
    if sys.argv[1] == '--recheck':
        return recheck(sys.argv[2], sys.argv[3].split(','))
    mdir, sid, props = sys.argv[1], sys.argv[2], sys.argv[3].split(',')
    wt = f'/var/tmp/kevo-seed-{os.getpid()}'
    subprocess.run(['git', '-C', '/repo', 'worktree', 'add', '-q', '--detach', wt, 'HEAD'], check=True)
    meta = json.load(open(os.path.join(mdir, 'meta.json')))
    ran = []
    try:
        patch = os.path.join(mdir, 'patch.diff')
        rc, out = sh(['git', 'apply', patch], wt)
        if rc:
            print('REJECTED: patch does not apply on HEAD:', out[-300:])
            return 1
        rc, out = sh(['go', 'build', './...'], wt)
        ran.append('go build ./... -> %d' % rc)
        if rc:
            print('REJECTED: does not compile')
            return 1
        rc, out = sh(['go', 'test', '-vet=off', '-count=1'] + PKGS, wt, timeout=1500)
        ran.append('go test (main packages) with the change -> %d' % rc)
        if rc:
            print('REJECTED: existing tests fail with the change:\n' + '\n'.join(l for l in out.splitlines() if 'FAIL' in l)[:600])
            return 1
        demo = open(os.path.join(mdir, 'demo_test.go')).read()
        m = re.search(r'(pkg/[\w/]+|cmd/[\w/]+)', '\n'.join(demo.splitlines()[:25]))
        pk = re.search(r'^package (\w+)', demo, re.M).group(1)
        tests = re.findall(r'^func (Test\w+)\(', demo, re.M)
        if not m:
            m = re.search(r'(pkg)', 'pkg')
        if not tests:
            print('REJECTED: cannot find the demo\'s package directory / test name')
            return 1
        pdir = m.group(1).rstrip('/')
        try:
            pdir = json.load(open(os.path.join(mdir, 'meta.json'))).get('demo_package') or pdir
        except Exception:
            pass
        shutil.copy(os.path.join(mdir, 'demo_test.go'), os.path.join(wt, pdir, 'zz_seed_demo_test.go'))
        try:
            dflags = (json.load(open(os.path.join(mdir, 'meta.json'))).get('demo_flags') or '').split()
        except Exception:
            dflags = []
        run = ['go', 'test', '-vet=off', '-count=1'] + dflags + ['-run', '^(' + '|'.join(tests) + ')$', './' + pdir + '/']
        rc1, out1 = sh(run, wt)
        ran.append(f'demo with the change -> {rc1}')
        sh(['git', 'apply', '-R', patch], wt)
        rc2, out2 = sh(run, wt)
        ran.append(f'demo without the change -> {rc2}')
        if rc1 == 0 or rc2 != 0:
            print(f'REJECTED: demo with change rc={rc1}, without rc={rc2}\n{out1[-400:]}\n----\n{out2[-400:]}')
            return 1
        os.remove(os.path.join(wt, pdir, 'zz_seed_demo_test.go'))
        sh(['git', 'apply', patch], wt)
        dst = os.path.join(ROOT, 'seeded', sid)
        os.makedirs(dst, exist_ok=True)
        shutil.copy(patch, os.path.join(dst, 'patch.diff'))
        shutil.copy(os.path.join(mdir, 'demo_test.go'), os.path.join(dst, 'demo_test.go'))
        det = {}
        for pr in props:
            p = subprocess.run(['./check', pr, '--tier', 'quick'], cwd=ROOT, env=dict(os.environ, VERIF_REPO=wt), capture_output=True, text=True)
            first = [l for l in p.stdout.splitlines() if l.startswith('disagreement')][:1] or \
                    [l for l in (p.stdout + p.stderr).splitlines() if l.startswith('INFRA')][:1]
            det[pr] = {'exit': p.returncode, 'first': first[0][:400] if first else ''}
            print(pr, det[pr])
        meta.update({'seed_id': sid, 'breaks_property': meta.get('property'), 'confirmed': ran, 'demo_package': pdir,
                     'demo_tests': tests, 'checks_run_against_it': det,
                     'detected_by': sorted(k for k, v in det.items() if v['exit'] == 1)})
        with open(os.path.join(dst, 'meta.json'), 'w') as f:
            json.dump(meta, f, indent=1)
            f.write('\n')
        print('KEPT', sid, 'detected_by', meta['detected_by'])
        return 0
    finally:
        subprocess.run(['git', '-C', '/repo', 'worktree', 'remove', '--force', wt], capture_output=True)
        subprocess.run(['rm', '-rf', wt])


if __name__ == '__main__':
    sys.exit(main())
