"""C11: an SSTable reads back exactly what was written into it.

KevoSST (writer, file layout, reader and cursor algorithms transcribed operationally, damage classes) is model-checked
exhaustively for small shapes; GEN_SST draws tables (restart interval 16, block lengths around the restart-interval
boundaries, 1..34 blocks) with the complete prediction tables of the operational algorithms and cursor programs; the
harness writes each table as a REAL file with sstable.Writer (64 KB blocks reproduced through value / key sizes) and
compares Reader.NewIterator / IteratorAdapter / Reader.Get with the predictions under three byte shapes; then a
single-byte corruption sweep (every offset of small files, structure boundaries + seeded interior of multi-block files)
checks CorruptOpenFailsOrSubset on the real reader."""
import collections
import concurrent.futures as cf
import json
import os
import time

from vlib import Infra, NCPU, log, open_findings, read_ndjson, save_replay, tlc_mc, tlc_sim, write_evidence, write_ndjson

VARIANTS = ['ascii', 'binary', 'prefix', 'emptykey']
BAD_OUTCOMES = ('fabricated', 'panic', 'hang', 'crash')
# what KevoSST predicts for one altered byte per region (OpenResult / LoadRes / GetImpl with Covered = data, restart,
# index, footer); anything else that still satisfies the property is listed in the evidence, it is no violation
SPEC_OUTCOMES = {
    'data': {'error'}, 'restart': {'error'}, 'sum': {'error'},
    'index': {'openfail'}, 'footer': {'openfail'},
    'bloomhdr': {'openfail', 'subset', 'clean'}, 'bloomparam': {'openfail', 'subset', 'clean'},
    'bloombits': {'subset', 'clean'},
}


def _env(ctx):
    return {'TMPDIR': ctx.sub('tmp')}      # sstable writes its bloom filters through os.CreateTemp("")


# ------------------------------------------------------------------------------------------------ model checking
def model_check(ctx):
    if ctx.quick():
        tlc_mc(ctx, 'KevoSST', 'MC_SST_quick.cfg', timeout=900)
        tlc_mc(ctx, 'KevoSST', 'MC_SST_cor.cfg', timeout=900)
    else:
        tlc_mc(ctx, 'KevoSST', 'MC_SST_thorough.cfg', timeout=1400)
        tlc_mc(ctx, 'KevoSST', 'MC_SST_cor_thorough.cfg', timeout=1400)
        tlc_mc(ctx, 'KevoSST', 'MC_SST_min.cfg', timeout=600)
    # the damage model has teeth: without a verified checksum over the restart array (resp. the entries) TLC must find a
    # fabricated observation
    for cfg in ['MC_SST_neg_restart.cfg'] + ([] if ctx.quick() else ['MC_SST_neg_data.cfg']):
        bad, st, out = tlc_mc(ctx, 'KevoSST', cfg, timeout=280, expect_violation=True)
        if not bad or 'Invariant Inv is violated' not in out:
            raise Infra(f'{cfg}: TLC found no violation although a damaged region is left unverified (vacuous damage model)')
    ctx.notes['spec_negative_configs'] = 'CorruptOpenFailsOrSubset is violated in the model as soon as the restart array or the entries are outside the verified checksum'


def generate(ctx):
    runs = 3 if ctx.quick() else 9
    num = 180 if ctx.quick() else 400
    behs, seen = [], set()
    # at most 3 simulations at a time: together with the model-checking run that is 4 TLC processes (memory)
    with cf.ThreadPoolExecutor(max_workers=3) as ex:
        futs = [ex.submit(tlc_sim, ctx, 'GEN_SST', 'GEN_SST.cfg', num, 700, ctx.seed * 31 + 7 + i, 900, f'gen-sst-{i}')
                for i in range(runs)]
        for f in futs:
            for b in f.result():
                key = json.dumps(b, sort_keys=True)
                if key not in seen:
                    seen.add(key)
                    behs.append(b)
    return behs


# ------------------------------------------------------------------------------------------------------- replay
def replay(ctx, behs, variant, tag, seed=None, extra=()):
    d = ctx.sub(f'sst-{tag}-{variant}')
    inp, out = os.path.join(d, 'in.ndjson'), os.path.join(d, 'out.ndjson')
    write_ndjson(inp, behs)
    ctx.run_kvh(['sst-replay', '-in', inp, '-out', out, '-work', os.path.join(d, 'files'), '-seed', str(seed or ctx.seed),
                 '-variant', variant, '-par', str(NCPU)] + list(extra), timeout=900, env=_env(ctx))
    res = read_ndjson(out)
    if len(res) != len(behs):
        raise Infra(f'sst-replay {variant}: {len(res)} results for {len(behs)} tables')
    for r in res:
        if r.get('infra'):
            raise Infra(f"sst-replay {variant}: table {r['b']} (blocks {behs[r['b']]['lens']}): {r['infra']}")
    return res


def mm_sig(m):
    return (m.get('kind'), m.get('step'), m.get('exp'), m.get('got'))


def reproduce_replay(ctx, beh, variant, first):
    again = 0
    for i in range(2):
        r = replay(ctx, [beh], variant, f'repro{i}')[0]
        if any(mm_sig(m) == mm_sig(first) for m in r.get('mism', [])):
            again += 1
    return again == 2


def matches_known(mm, region=None):
    for k in open_findings('C11'):
        pat = k.get('pattern', {})
        if pat.get('kind') and pat['kind'] != mm.get('kind', mm.get('outcome')):
            continue
        if pat.get('region') and pat['region'] != region:
            continue
        if pat.get('contains') and pat['contains'] not in (mm.get('msg', '') + mm.get('got', '') + mm.get('detail', '')):
            continue
        return k
    return None


def run_replays(ctx, behs):
    total = 0
    with cf.ThreadPoolExecutor(max_workers=len(VARIANTS)) as ex:
        futs = {v: ex.submit(replay, ctx, behs, v, 'all') for v in VARIANTS}
        results = {v: f.result() for v, f in futs.items()}
    handled = set()
    for v in VARIANTS:
        for r in results[v]:
            total += 1
            ctx.evaluations += r.get('calls', 0)
            beh = behs[r['b']]
            if len(beh['lens']) > 1 or len(beh['ents']) > 16:    # more than one block or more than one restart interval
                ctx.nontrivial.add((tuple(beh['lens']), beh['seed'], v))
            for m in r.get('mism', [])[:1]:
                sig = m.get('kind')
                if sig in handled:
                    continue
                if len(ctx.violations) >= 5:
                    continue
                handled.add(sig)
                if not reproduce_replay(ctx, beh, v, m):
                    ctx.unreproduced.append({'variant': v, 'lens': beh['lens'], 'mismatch': m})
                    continue
                k = matches_known(m)
                if k:
                    if k['id'] not in ctx.known_seen:
                        ctx.known_seen.append(k['id'])
                    continue
                path = save_replay(ctx, 'sst', {'what': 'replay', 'behaviour': beh, 'variant': v, 'seed': ctx.seed, 'mismatch': m})
                ctx.violations.append({'what': f"table with blocks {beh['lens']} ({v} bytes): {m.get('kind')} at {m.get('step')}"
                                               f" target {m.get('t', '-')}: expected {m.get('exp')}, got {m.get('got')} {m.get('msg', '')}"
                                               f" [{r.get('nmism')} disagreement(s) in this table]", 'replay': path})
    return total


def selftest_replay(ctx, behs):
    """The replay must notice a wrong expectation in each prediction table and in a cursor program."""
    beh = next((b for b in behs if len(b['ents']) >= 4 and any(s['a'] != 'newiter' and s['pos'] != 0 for s in b['prog'])), None)
    if beh is None:
        raise Infra('binding self-test: no suitable behaviour')
    noticed = []
    lim = ['-limit', '100000']
    base = set(mm_sig(m) for m in replay(ctx, [beh], 'binary', 'selftest-base', extra=lim)[0].get('mism', []))
    for field in ('seek', 'get', 'iter', 'prog', 'last', 'seq', 'value', 'tomb'):
        b2 = json.loads(json.dumps(beh))
        if field == 'seek':
            b2['seek'][3] = b2['seek'][3] % len(b2['ents']) + 1
        elif field == 'get':
            b2['get'][1] = 0
        elif field == 'iter':
            b2['iter'] = b2['iter'][:-1]
        elif field == 'last':
            b2['last'] = 1 if b2['last'] != 1 else 2
        elif field in ('seq', 'value', 'tomb'):
            pass        # the table is written as generated; the harness falsifies its own expectation about entry 2 (-skew)
        else:
            b2['prog'][0]['pos'] = b2['prog'][0]['pos'] % len(b2['ents']) + 1     # first call of the first program
        r = replay(ctx, [b2], 'binary', 'selftest-' + field,
                   extra=lim + (['-skew', field] if field in ('seq', 'value', 'tomb') else []))[0]
        # noticed = a disagreement that the unmodified behaviour does not produce (the tree under test may have defects of its own)
        if not any(mm_sig(m) not in base for m in r.get('mism', [])):
            raise Infra(f'binding self-test failed: a corrupted {field} prediction was not noticed by the replay')
        noticed.append(field)
    ctx.notes['binding_selftest'] = 'corrupted predictions noticed by the replay: ' + ', '.join(noticed)


# ---------------------------------------------------------------------------------------------- corruption sweep
def no_big(b):
    return all(e['c'] != 'big' for e in b['ents'])


def pick_tables(ctx, behs):
    """(behaviour, every offset?, samples) - small single-block files are swept exhaustively."""
    def first(pred, n=1):
        return [b for b in behs if pred(b)][:n]
    one = first(lambda b: b['lens'] == [1] and no_big(b))
    few = first(lambda b: len(b['lens']) == 1 and 2 <= b['lens'][0] <= 3 and no_big(b) and any(e['c'] == 'tomb' for e in b['ents']))
    mid = first(lambda b: len(b['lens']) == 1 and 17 <= b['lens'][0] <= 34 and no_big(b))
    two = first(lambda b: len(b['lens']) == 2 and 4 <= len(b['ents']) <= 60, 1 if ctx.quick() else 2) + \
        first(lambda b: len(b['lens']) == 3 and 4 <= len(b['ents']) <= 70 and any(e['c'] == 'big' for e in b['ents']), 1 if ctx.quick() else 2)
    many = first(lambda b: len(b['lens']) >= 17, 1 if ctx.quick() else 2)
    picks = [(b, True, 0) for b in one + few + mid] + [(b, False, 400 if ctx.quick() else 3000) for b in two]
    picks += [(b, False, 200 if ctx.quick() else 2000) for b in many]
    if not ctx.quick():
        picks += [(b, True, 0) for b in first(lambda b: len(b['lens']) == 2 and len(b['ents']) <= 6)]   # every offset of a 2-block file
    if len(picks) < 3 or not two:
        raise Infra('corruption sweep: the generated behaviours contain no suitable small and multi-block tables')
    return picks


def sweep(ctx, f, beh, every, samples, variant, tag, forge=False, only=None, seed=None):
    d = ctx.sub(f'cor-{tag}-{f}')
    spec = os.path.join(d, 'sweep.json')
    with open(spec, 'w') as fh:
        json.dump({'beh': beh, 'variant': variant, 'seed': seed or ctx.seed, 'every': every, 'samples': samples, 'forge': forge,
                   'only': only or []}, fh)
    out = os.path.join(d, 'out.ndjson')
    ctx.run_kvh(['sst-corrupt', '-spec', spec, '-f', str(f), '-work', os.path.join(d, 'w'), '-par', str(NCPU), '-out', out],
                timeout=2400, env=_env(ctx))
    return read_ndjson(out)


def run_sweeps(ctx, behs):
    picks = pick_tables(ctx, behs)
    matrix = collections.Counter()
    unexpected = collections.Counter()
    swept = []
    handled = set()
    for f, (beh, every, samples) in enumerate(picks):
        variant = VARIANTS[(f + 1) % len(VARIANTS)]
        t0 = time.time()
        res = sweep(ctx, f, beh, every, samples, variant, 'sweep')
        log(f"C11 sweep {f}: blocks {beh['lens'][:6]}{'...' if len(beh['lens']) > 6 else ''} {variant} {len(res)} cases {time.time() - t0:.1f} s")
        judged = [r for r in res if r['outcome'] != 'same']
        swept.append({'blocks': beh['lens'], 'bytes': variant, 'offsets': 'every' if every else 'boundaries+seeded',
                      'cases': len(judged)})
        ctx.evaluations += len(judged)
        for r in judged:
            matrix[f"{r['region']}:{r['outcome']}"] += 1
            ctx.nontrivial.add(('cor', f, r['off'], r['mode']))
            if r['outcome'] in BAD_OUTCOMES:
                sig = (r['region'], r['outcome'])
                if sig in handled or len(ctx.violations) >= 6:
                    continue
                handled.add(sig)
                case = {'off': r['off'], 'mode': r['mode']}
                again = [sweep(ctx, f, beh, every, samples, variant, f'repro{i}', only=[case])[0] for i in range(2)]
                if not all(a['outcome'] == r['outcome'] for a in again):
                    ctx.unreproduced.append({'blocks': beh['lens'], 'case': r})
                    continue
                k = matches_known(r, region=r['region'])
                if k:
                    if k['id'] not in ctx.known_seen:
                        ctx.known_seen.append(k['id'])
                    continue
                path = save_replay(ctx, 'sst', {'what': 'corrupt', 'behaviour': beh, 'variant': variant, 'seed': ctx.seed,
                                                'case': case, 'result': r})
                ctx.violations.append({'what': f"table with blocks {beh['lens']} ({variant} bytes), byte {r['off']} ({r['region']}) "
                                               f"{r['mode']}: {r['outcome']}: {r.get('detail', '')[:300]}", 'replay': path})
            elif r['outcome'] not in SPEC_OUTCOMES.get(r['region'], set()):
                unexpected[f"{r['region']}:{r['outcome']}"] += 1
    ctx.notes['corruption_tables'] = swept
    ctx.notes['corruption_region_outcome'] = dict(sorted(matrix.items()))
    ctx.notes['corruption_outcomes_allowed_but_not_predicted'] = dict(sorted(unexpected.items()))
    return picks


def selftest_sweep(ctx, picks):
    """The sweep's oracle must notice a fabricated entry: a value byte / sequence-number byte / value-length byte is altered
    and the block checksum repaired, so the reader cannot know."""
    beh = picks[-1][0] if len(picks[0][0]['ents']) < 2 else picks[0][0]
    res = sweep(ctx, 99, beh, False, 0, 'binary', 'forge', forge=True)
    # (whether the second forged byte - in a length or sequence-number field - shows as a fabricated entry or only hides entries
    # behind it depends on the table's shape; the altered value byte always must)
    if sum(r['outcome'] == 'fabricated' for r in res) < 1:
        raise Infra('binding self-test failed: forged entries (checksum repaired) were not called fabricated: ' + json.dumps(res)[:600])
    ctx.notes['binding_selftest_sweep'] = f"{sum(r['outcome'] == 'fabricated' for r in res)} forged entries (block checksum repaired) reported as fabricated"


# ----------------------------------------------------------------------------------------------------- the check
def check_C11(ctx):
    ctx.assumptions += [
        'bounded model: <= 3 blocks x <= 5 entries x restart interval 1..3 exhaustively (cfg files under mc_runs); the real restart '
        'interval 16 and up to 34 blocks are covered by the generated tables, on which TLC evaluates the same invariants',
        'keys and values are tokens in the specification; byte fidelity is sampled over three byte shapes (ascii / binary with 0x00,0xFF '
        '/ 300-byte shared prefix), value classes tombstone, empty, 1 byte, normal, > 1 block, keys up to 65 504 bytes; '
        'values near 4 GB (the format limit) are not exercised',
        'single-byte damage: low bit flipped, 0x00, 0xFF; every offset only for small single-block files, structure boundaries + '
        'seeded interior for multi-block files; a crash, panic or hang of the reader counts as a violation (it is no error return)',
        'xxhash64 collisions are not modelled: a damaged region inside a verified checksum is assumed to be detected',
    ]
    with cf.ThreadPoolExecutor(max_workers=3) as ex:
        fm = ex.submit(model_check, ctx)
        fg = ex.submit(generate, ctx)
        fb = ex.submit(ctx.kvh)
        fm.result()
        behs = fg.result()
        fb.result()
    log(f'C11: model checking + generation of {len(behs)} tables + harness build {time.time() - ctx.t0:.0f} s')
    if len(behs) < 30:
        raise Infra(f'only {len(behs)} behaviours generated')
    shapes = collections.Counter('>= 9 restart points in a block' if max(b['lens']) >= 130 else
                                 '1 block' if len(b['lens']) == 1 else '2-3 blocks' if len(b['lens']) <= 3 else
                                 '4-6 blocks' if len(b['lens']) <= 6 else '17-34 blocks' for b in behs)
    if len(shapes) < 5:
        raise Infra(f'generated tables do not cover all shape families: {dict(shapes)}')
    ctx.notes['generated_tables'] = dict(shapes)
    ctx.samples = [{'lens': b['lens'], 'classes': [e['c'] for e in b['ents']][:8], 'prog': b['prog'][:6]} for b in behs[:3]]
    ctx.traces += run_replays(ctx, behs)
    log(f'C11: replays done at {time.time() - ctx.t0:.0f} s')
    try:
        picks = run_sweeps(ctx, behs)
        log(f'C11: sweeps done at {time.time() - ctx.t0:.0f} s')
        selftest_replay(ctx, behs)
        selftest_sweep(ctx, picks)
    except Infra as e:
        if not ctx.violations:
            raise
        # a tree that already disagrees with the specification (say, a writer that breaks the file format) can stop the sweep or
        # mask a planted disagreement: the verdict about the reproduced disagreements stands
        ctx.notes['after_violations'] = 'sweep / binding self-test inconclusive on a tree with violations: ' + str(e)[:300]
    write_evidence(ctx, 'model_checking',
                   'model checking: KevoSST (operational index scan, restart binary search with step-back, linear decode, block hand-over, '
                   'Get with per-block bloom filter; writer with offset-labelled filters) checked exhaustively for all shapes of the bounded '
                   'configurations against LeastGE / Lookup / IterYieldsAllOnce / BloomNoFalseNegative / CursorRefines (every sequence of '
                   'cursor calls) and CorruptOpenFailsOrSubset over all modelled damage classes.  binding = byte sampling: '
                   'traces_validated_against_impl = generated tables x 3 byte shapes written with sstable.Writer, each compared call by call '
                   '(forward iteration directly and through IteratorAdapter, Seek of every target on a fresh and on a re-used cursor, '
                   'SeekToLast, Get of every present and absent key, cursor programs of <= 6 calls) with the prediction tables TLC printed; '
                   'evaluations = API calls compared + damaged files judged; distinct_nontrivial = tables with > 1 block or > 1 restart '
                   'interval (per byte shape) + distinct (file, offset, mode) damage cases.  fault enumeration (corruption part): every '
                   'offset x {flip low bit, 0x00, 0xFF} of small files, boundaries + seeded interior of multi-block files; each damaged '
                   'copy is opened in a child process and judged: open error | call error | only written entries (key, value, flag, seq).')


def replay_saved(ctx, payload):
    if payload.get('what') == 'corrupt':
        r = sweep(ctx, 0, payload['behaviour'], False, 0, payload['variant'], 'saved', only=[payload['case']], seed=payload.get('seed'))[0]
        return r if r['outcome'] in BAD_OUTCOMES else None
    d_seed = payload.get('seed', ctx.seed)
    r = replay(ctx, [payload['behaviour']], payload['variant'], 'saved', seed=d_seed)[0]
    return None if r.get('ok') else (r.get('mism') or [r])[0]
