"""C01, C08 (and the replay part of C12): KevoStore behaviours replayed into the real engine."""
import concurrent.futures as cf
import json
import os

from vlib import Infra, action_sig, tlc_enumerate, read_ndjson, save_replay, tlc_mc, tlc_sim, tlc_trace, write_ndjson, write_evidence, open_findings, ROOT, log

# configuration x concretisation classes: (name, concretisation, manifest settings, behaviour limit factor)
CLASSES = [
    ('ascii-bigmem-nosync', 'ascii', {'memtable_size': 1 << 20, 'sync_mode': 0, 'compact_sec': 3600}, 1.0),
    ('ascii-tinymem-immsync', 'ascii', {'memtable_size': 100, 'max_memtables': 2, 'sync_mode': 2, 'compact_sec': 3600}, 1.0),
    ('binary-smallmem-batchsync', 'binary', {'memtable_size': 300, 'max_memtables': 4, 'sync_mode': 1, 'sync_bytes': 200, 'compact_sec': 1}, 1.0),
    ('big-midmem-nosync', 'big', {'memtable_size': 100000, 'max_memtables': 4, 'sync_mode': 0, 'compact_sec': 3600}, 0.15),
]


def replay_class(ctx, behs, cls, flags, tag):
    name, conc, cfg, frac = cls
    n = max(1, int(len(behs) * frac))
    d = ctx.sub(f'replay-{tag}-{name}')
    inp = os.path.join(d, 'in.ndjson')
    out = os.path.join(d, 'out.ndjson')
    write_ndjson(inp, behs[:n])
    hooks = os.path.join(d, 'hooks.ndjson')
    if os.path.exists(hooks):
        os.remove(hooks)
    ctx.run_kvh(['replay-store', '-in', inp, '-out', out, '-work', os.path.join(d, 'db'), '-class', conc,
                 '-seed', str(ctx.seed), '-cfg', json.dumps(cfg)] + flags, timeout=1500, env={'VERIF_TRACE': hooks})
    res = read_ndjson(out)
    if len(res) != n:
        raise Infra(f'replay {name}: {len(res)} results for {n} behaviours')
    mms = [(r, behs[r['b']]) for r in res if not r.get('ok')]
    # the hook-event stream of the same run must follow the ordering rules of KevoStore's actions (TRACE_StoreProto)
    if conc != 'big' and not conc.startswith('edge:') and os.path.exists(hooks) and not mms:
        # validated in chunks that start at an h.reset event (the monitor's state is reset there): TLC time grows with the length
        lines = open(hooks).read().splitlines()
        chunks, cur, nb = [], [], 0
        for x in lines:
            if '"h.reset"' in x and len(cur) >= 120000:
                chunks.append((nb, cur))
                nb += sum(1 for y in cur if '"h.reset"' in y)
                cur = []
            cur.append(x)
        if cur:
            chunks.append((nb, cur))
        for ci, (b0, chunk) in enumerate(chunks):
            hp = hooks if len(chunks) == 1 else f'{hooks}.{ci}'
            if len(chunks) > 1:
                open(hp, 'w').write('\n'.join(chunk) + '\n')
            ok, hw, st, outp = tlc_trace(ctx, 'TRACE_StoreProto', 'TRACE_StoreProto.cfg', hp, timeout=900, tag=f'proto-{tag}-{name}-{ci}')
            ctx.notes['hook_events_validated'] = ctx.notes.get('hook_events_validated', 0) + st.get('distinct', 0)
            if not ok:
                if not hw:
                    raise Infra('hook trace rejected without a position:\n' + outp[-1500:])
                b = b0 + sum(1 for x in chunk[:hw] if '"h.reset"' in x) - 1
                ev = json.loads(chunk[hw - 1]) if hw <= len(chunk) else {}
                prev = [json.loads(x).get('site') for x in chunk[max(0, hw - 6):hw - 1]]
                mms.append(({'b': b, 'step': -2, 'a': 'hooks', 'kind': 'order', 'key': ev.get('site'), 'exp': 'an event order KevoStore allows',
                             'got': f"{ev.get('site')}(a={ev.get('a')}, b={ev.get('b')}) after {prev}"}, behs[b]))
                break
    return mms, n


def reproduce(ctx, beh, cls, flags, first):
    """Re-execute one failing behaviour twice; it counts only if it fails again at the same step in the same way."""
    again = 0
    for i in range(2):
        mm, _ = replay_class(ctx, [beh], (cls[0], cls[1], cls[2], 1.0), flags, f'repro{i}')
        if mm and mm[0][0].get('kind') == first.get('kind') and (mm[0][0].get('step') == first.get('step') or first.get('kind') == 'order'):
            again += 1
    return again == 2


def matches_known(prop, mm, beh, cls):
    """A mismatch is attributed to an open known finding only if the finding's predicate holds for it."""
    for k in open_findings(prop):
        pat = k.get('pattern', {})
        if pat.get('kind') and pat['kind'] != mm.get('kind'):
            continue
        if pat.get('action') and pat['action'] != mm.get('a'):
            continue
        if pat.get('class') and pat['class'] != cls[0]:
            continue
        if pat.get('requires_action') and pat['requires_action'] not in [s['a'] for s in beh[:mm.get('step', 0) + 1]]:
            continue
        return k
    return None


def run_replays(ctx, prop, behs, flags, classes, tag):
    """Replay behaviours under every class (in parallel); classify mismatches; return number of replays."""
    total = 0
    with cf.ThreadPoolExecutor(max_workers=len(classes)) as ex:
        futs = {ex.submit(replay_class, ctx, behs, cls, flags, tag): cls for cls in classes}
        results = [(futs[f], f.result()) for f in cf.as_completed(futs)]
    for cls, (mms, n) in results:
        total += n
        handled = set()
        for mm, beh in mms:
            sig = (mm.get('kind'), mm.get('a'), mm.get('key'), mm.get('exp'), mm.get('got'))
            if sig in handled and len(handled) > 3:
                continue
            handled.add(sig)
            if not reproduce(ctx, beh, cls, flags, mm):
                ctx.unreproduced.append({'class': cls[0], 'mismatch': mm})
                continue
            k = matches_known(prop, mm, beh, cls)
            if k:
                if k['id'] not in ctx.known_seen:
                    ctx.known_seen.append(k['id'])
                continue
            path = save_replay(ctx, 'store', {'behaviour': beh, 'class': list(cls), 'flags': flags, 'mismatch': mm})
            ctx.violations.append({'what': f"{cls[0]}: step {mm.get('step')} {mm.get('a')}: {mm.get('kind')} "
                                           f"key={mm.get('key')} expected {mm.get('exp')} got {mm.get('got')} {mm.get('msg', '')}",
                                   'replay': path})
            if len(ctx.violations) >= 5:
                return total
    return total


def selftest_hooks(ctx, behs):
    """The hook-order validation must notice a reordered stream: move a sync behind the acknowledgement it covers."""
    d = ctx.sub('replay-selftest-hooks')
    inp, out, hooks = os.path.join(d, 'in.ndjson'), os.path.join(d, 'out.ndjson'), os.path.join(d, 'hooks.ndjson')
    write_ndjson(inp, behs[:6])
    ctx.run_kvh(['replay-store', '-in', inp, '-out', out, '-work', os.path.join(d, 'db'), '-class', 'ascii', '-cfg',
                 json.dumps(CLASSES[1][2])], env={'VERIF_TRACE': hooks})
    lines = open(hooks).read().splitlines()
    idx = [i for i, x in enumerate(lines) if '"wal.sync.done"' in x and i + 1 < len(lines) and '"wal.append.done"' in lines[i + 1]]
    if not idx:
        raise Infra('hook self-test: no sync/ack pair in the stream')
    i = idx[len(idx) // 2]
    lines[i], lines[i + 1] = lines[i + 1], lines[i]
    bad = os.path.join(d, 'swapped.ndjson')
    open(bad, 'w').write('\n'.join(lines) + '\n')
    ok, hw, st, outp = tlc_trace(ctx, 'TRACE_StoreProto', 'TRACE_StoreProto.cfg', bad, tag='proto-selftest')
    if ok:
        raise Infra('binding self-test failed: a hook stream with the acknowledgement before its sync was accepted')
    ctx.notes['hook_selftest'] = 'stream with an acknowledgement moved before its sync rejected at event %d' % hw


def selftest_binding(ctx, behs, flags):
    """The replay must notice a wrong expectation: corrupt one predicted observation and demand a mismatch."""
    for beh in behs:
        idx = [i for i, s in enumerate(beh) if s['a'] in ('put', 'commit') and any(v != 'NONE' for v in s['st'].values())]
        if not idx:
            continue
        b2 = json.loads(json.dumps(beh))
        i = idx[-1]
        k = [k for k, v in b2[i]['st'].items() if v != 'NONE'][0]
        b2[i]['st'][k] = 'v1' if b2[i]['st'][k] != 'v1' else 'v2'
        mm, _ = replay_class(ctx, [b2], CLASSES[0], flags, 'selftest')
        if mm and mm[0][0].get('step', 99) < i:
            continue            # the code under test disagrees earlier in this behaviour: the main replay reports that, try another one
        if not mm or mm[0][0].get('step') != i:
            raise Infra('binding self-test failed: a corrupted expectation was not noticed by the replay')
        ctx.notes['binding_selftest'] = 'corrupted expectation at step %d noticed (%s)' % (i, mm[0][0].get('kind'))
        return
    ctx.notes['binding_selftest'] = 'skipped: every candidate behaviour already disagrees before the corrupted step'


def gen(ctx, cfg, num, depth=110, seed_off=0):
    return tlc_sim(ctx, 'GEN_Store', cfg, num, depth, ctx.seed * 7 + 11 + seed_off, timeout=600, tag=f'gen-{cfg}-{seed_off}')


def corpus(name):
    p = os.path.join(ROOT, 'corpus', name)
    return read_ndjson(p) if os.path.exists(p) else []


def nontrivial(ctx, behs):
    for b in behs:
        acts = [s['a'] for s in b]
        if any(a in ('flush', 'compact', 'compactrange', 'reopen', 'retire') for a in acts) and \
           any(a in ('put', 'delete', 'commit') for a in acts):
            ctx.nontrivial.add(action_sig(b) + '|' + json.dumps([s['op'] for s in b], sort_keys=True))


def check_C01(ctx):
    ctx.assumptions += ['bounded model (constants in the cfg files named under mc_runs)',
                        'byte fidelity is sampled over the shape classes of the concretisation, not exhaustive',
                        'hook counters are trusted to tell when background flush/compaction is idle']
    tlc_mc(ctx, 'MC_Store', 'MC_Store_quick.cfg' if ctx.quick() else 'MC_Store_thorough.cfg', timeout=900 if ctx.quick() else 3000)
    if not ctx.quick():
        tlc_mc(ctx, 'MC_Store', 'MC_Store_quick_imm.cfg', timeout=900)
    n = 250 if ctx.quick() else 2500
    behs = gen(ctx, 'GEN_Store.cfg', n)
    if not ctx.quick():
        behs += gen(ctx, 'GEN_Store_long.cfg', 600, depth=220, seed_off=1)
    behs = corpus('store.ndjson') + behs
    nontrivial(ctx, behs)
    ctx.samples = [behs[len(behs) // 2][:8]]
    ctx.traces += run_replays(ctx, 'C01', behs, ['-ballast', '24'], CLASSES, 'c01')
    if not ctx.violations:
        selftest_binding(ctx, behs[-20:], [])
        selftest_hooks(ctx, behs[-20:])
    ctx.traces += edge_sweep(ctx, 'C01', behs)
    ctx.evaluations = ctx.traces
    write_evidence(ctx, 'model_checking',
                   'behaviours = API-level call sequences drawn by TLC simulation of GEN_Store (plus the committed corpus), each replayed '
                   'under 4 configuration x byte-shape classes with a read-back of every key after every call; distinct_nontrivial counts '
                   'distinct (call sequence, arguments) that contain a write and at least one of flush/compact/reopen/retire')


def edge_sweep(ctx, prop, behs):
    """Value lengths around the format boundaries (one log fragment = 32 KB; log buffer and table block = 64 KB): short behaviours
    with writes, flush and reopen are replayed once per base length; value token v<n> is base+n bytes long, so the bases (step 3)
    cover every length from boundary-66 to boundary+11.  Predictions are the specification's, as in every replay."""
    short = [b for b in behs if 4 <= len(b) <= 14 and any(s['a'] == 'reopen' for s in b) and any(s['a'] in ('put', 'commit') for s in b)
             and 'retire' not in [s['a'] for s in b]][:5 if ctx.quick() else 20]
    if len(short) < 3:
        raise Infra('size sweep: not enough short behaviours with a write and a reopen')
    bases = [bd - 66 + 3 * i for bd in (32768, 65536) for i in range(26)]
    classes = [(f'edge-{b}', f'edge:{b}', {'memtable_size': 1 << 22, 'max_memtables': 4, 'sync_mode': [0, 2][(b // 3) % 2], 'compact_sec': 3600}, 1.0)
               for b in bases]
    total = 0
    with cf.ThreadPoolExecutor(max_workers=8) as ex:
        results = list(ex.map(lambda cls: (cls, replay_class(ctx, short, cls, [], 'edge')), classes))
    for cls, (mms, n) in results:
        total += n
        for mm, beh in mms[:1]:
            if not reproduce(ctx, beh, cls, [], mm):
                ctx.unreproduced.append({'class': cls[0], 'mismatch': mm})
                continue
            path = save_replay(ctx, 'store', {'behaviour': beh, 'class': list(cls), 'flags': [], 'mismatch': mm})
            ctx.violations.append({'what': f"values of {cls[1][5:]}+1..3 bytes: step {mm.get('step')} {mm.get('a')}: {mm.get('kind')} "
                                           f"key={mm.get('key')} expected {mm.get('exp')} got {mm.get('got')} {mm.get('msg', '')}", 'replay': path})
            if len(ctx.violations) >= 5:
                break
    ctx.notes['size_sweep_value_lengths'] = f'{len(bases) * 3} lengths around 32768 and 65536, {len(short)} behaviours each'
    return total


def gated_numbering(ctx):
    """C08 under the interleavings of C06's gated scenarios: the flush path is parked at each step of the rotation while clients
    write; the hook-event stream of each run must keep the numbering rules of TRACE_StoreProto (every record gets exactly the next
    number, the counter is handed over exactly)."""
    from props import lin
    import subprocess
    n = 0
    jobs = []
    for site in ['wal.append.written', 'wal.sync.flushed', 'sm.put.logged', 'sl.insert.node_next']:
        for sync in (2, 1):
            jobs.append((site, False, ['-parkwriter', '-sync', str(sync)]))
    for site in ['sm.flush.snapshot', 'sm.rotate.begin', 'sm.rotate.marked', 'sm.rotate.oldsafe', 'wal.new', 'sm.rotate.created',
                 'sm.rotate.swapped', 'wal.close.pre', 'sm.rotate.closed', 'sm.flush.table.renamed']:
        for imm in (False, True):
            jobs.append((site, imm, []))
    def one(job):
        site, imm, extra = job
        d = ctx.sub(f"c08-gated-{site}-{int(imm)}-{'-'.join(extra)}")
        hooks = os.path.join(d, 'hooks.ndjson')
        if os.path.exists(hooks):
            os.remove(hooks)
        import shutil
        shutil.rmtree(os.path.join(d, 'db'), ignore_errors=True)
        args = [ctx.kvh(), 'lin-gated', '-dir', os.path.join(d, 'db'), '-out', os.path.join(d, 'trace.ndjson'), '-site', site] + (['-imm'] if imm else []) + extra
        p = subprocess.run(args, capture_output=True, text=True, timeout=120, env=dict(os.environ, VERIF_TRACE=hooks))
        if p.returncode == 5 or not os.path.exists(hooks):
            return None
        ok, hw, st, outp = tlc_trace(ctx, 'TRACE_StoreProto', 'TRACE_StoreProto.cfg', hooks, timeout=300, tag=f"c08-gated-{site}-{int(imm)}-{'-'.join(extra)}")
        if ok:
            return True
        lines = open(hooks).read().splitlines()
        ev = json.loads(lines[hw - 1]) if hw and hw <= len(lines) else {}
        return {'what': f"flush path parked at {site}: the numbering rules are broken at event {ev.get('site')}(a={ev.get('a')}, b={ev.get('b')})",
                'job': {'site': site, 'imm': imm, 'extra': extra}}
    ctx.kvh()
    with cf.ThreadPoolExecutor(max_workers=6) as ex:
        results = list(ex.map(one, jobs))
    for r in results:
        if r is None:
            continue
        n += 1
        if r is not True:
            ctx.violations.append({'what': r['what'], 'replay': save_replay(ctx, 'store-gated', r['job'])})
    if n < 10:
        raise Infra(f'only {n} gated numbering scenarios ran')
    ctx.traces += n
    ctx.notes['gated_numbering_scenarios'] = n


def check_C08(ctx):
    ctx.assumptions += ['bounded model (constants in the cfg files named under mc_runs)',
                        'log retirement while the database is closed is outside C08 (once the files are gone nothing records their numbers); the primary\'s live retention is covered by KevoRetention!NextAbove under C02']
    tlc_mc(ctx, 'MC_Store', 'MC_Store_quick.cfg' if ctx.quick() else 'MC_Store_thorough.cfg', timeout=900 if ctx.quick() else 3000)
    n = 250 if ctx.quick() else 2500
    behs = gen(ctx, 'GEN_Store_noretire.cfg', n)
    behs = [b for b in corpus('store.ndjson') if 'retire' not in [s['a'] for s in b]] + behs
    nontrivial(ctx, behs)
    ctx.samples = [[{'a': s['a'], 'op': s['op'], 'seq': s['seq']} for s in behs[len(behs) // 2][:10]]]
    flags = ['-checkseq', '-checkwal']
    ctx.traces += run_replays(ctx, 'C08', behs, flags, CLASSES[:3], 'c08')
    if not ctx.violations:
        # (on a tree that already disagrees the self-tests have nothing to stand on: the disagreements are the verdict)
        selftest_seq(ctx, behs[-20:], flags)
        selftest_hooks(ctx, behs[-20:])
    gated_numbering(ctx)
    stress_numbering(ctx)
    stress_log_numbering(ctx)
    # the numbering across log retention on a primary (KevoRetention!NextAbove: the files retention may delete never include the
    # one that records the highest number given so far), walks replayed on a real primary as under C02
    from props import crash as _crash
    _crash.retention(ctx, 'C08')
    # crash recoveries: the committed crash programs (large, fragmented entries; unsynced log) and two generated ones, stopped at
    # hook sites incl. torn final writes; after the recovery the numbering must continue behind the surviving operations
    # (TRACE_Durable!TObs: seq = number of surviving operations; then further writes, reopen, observed again).  The
    # configuration that also accepts the outcome of the open torn-batch finding is used: that finding is about C02/C03
    from props import crash
    cprogs = read_ndjson(os.path.join(ROOT, 'corpus', 'crash.ndjson'))
    crash.enumerate_crashes(ctx, 'C08', cprogs, [crash.CRASH_CLASSES[4]], cap=3 if ctx.quick() else 10, cfg='TRACE_Durable_kf.cfg')
    crash.enumerate_crashes(ctx, 'C08', crash.programs(ctx, 2 if ctx.quick() else 20), crash.CRASH_CLASSES[:3], cap=3 if ctx.quick() else 8,
                            cfg='TRACE_Durable_kf.cfg')
    ctx.evaluations = ctx.traces
    write_evidence(ctx, 'model_checking',
                   'behaviours drawn by TLC simulation of GEN_Store (no log retirement) replayed under 3 configuration classes; after every '
                   'call storage_last_sequence must equal the number the specification assigns, and at the end the whole log directory is '
                   'read back: groups of equal numbers = issued operations in issue order, numbers strictly increasing')


def stress_numbering(ctx):
    """Free-running writers against a flush path that rotates the log every few writes (no gates, real parallelism): the windows
    that have no hook site inside them - two lock acquisitions in a row - are reached only this way.  The hook-event stream of
    each run must keep the numbering rules of TRACE_StoreProto."""
    import subprocess
    runs = 8 if ctx.quick() else 32

    def one(i):
        d = ctx.sub(f'c08-stress-{i}')
        hooks = os.path.join(d, 'hooks.ndjson')
        if os.path.exists(hooks):
            os.remove(hooks)
        import shutil
        shutil.rmtree(os.path.join(d, 'db'), ignore_errors=True)
        cfg = json.dumps({'memtable_size': [200, 400, 120][i % 3], 'max_memtables': 3, 'sync_mode': [0, 2, 1][i % 3], 'sync_bytes': 300, 'compact_sec': 3600})
        args = [ctx.kvh(), 'lin-run', '-dir', os.path.join(d, 'db'), '-out', os.path.join(d, 'trace.ndjson'), '-seed', str(ctx.seed * 100 + i),
                '-clients', '8', '-ops', str(500 if ctx.quick() else 1500), '-keys', '4', '-cfg', cfg]
        p = subprocess.run(args, capture_output=True, text=True, timeout=300, env=dict(os.environ, VERIF_TRACE=hooks))
        if not os.path.exists(hooks):
            raise Infra(f'stress run {i} left no hook stream: rc={p.returncode} {p.stderr[-300:]}')
        # the log's part of the stream only: with compaction and flush writing table files at the same time the monitor's table rules
        # (one table writer at a time, as in the replays) do not apply, and they are not the subject here
        keep = [x for x in open(hooks).read().splitlines() if not any(t in x for t in ('"site":"sst.', '"site":"cmp.', '"site":"sm.flush.table.'))]
        open(hooks, 'w').write('\n'.join(keep) + '\n')
        ok, hw, st, outp = tlc_trace(ctx, 'TRACE_StoreProto', 'TRACE_StoreProto.cfg', hooks, timeout=900, tag=f'c08-stress-{i}')
        n = len(keep)
        if ok:
            return n, None
        lines = open(hooks).read().splitlines()
        ev = json.loads(lines[hw - 1]) if hw and hw <= len(lines) else {}
        return n, f"free-running writers and flushes (run {i}): the numbering rules are broken at event {ev.get('site')}(a={ev.get('a')}, b={ev.get('b')})"
    with cf.ThreadPoolExecutor(max_workers=8) as ex:
        res = list(ex.map(one, range(runs)))
    ctx.traces += runs
    ctx.notes['stress_hook_events_validated'] = sum(n for n, _ in res)
    bad = [(i, w) for i, (n, w) in enumerate(res) if w]
    if bad:
        # the window is a matter of scheduling: any further run of the same kind that breaks the rules again counts as reproduction
        again = [one(100 + k)[1] for k in range(8)] if len(bad) < 2 else [w for _, w in bad[1:]]
        if any(again):
            ctx.violations.append({'what': bad[0][1], 'replay': save_replay(ctx, 'store-stress', {'stress': True, 'run': bad[0][0]})})
        else:
            ctx.unreproduced.append({'what': bad[0][1]})


def stress_log_numbering(ctx):
    """Full-speed writers against a goroutine that flushes (and so rotates the log) in a loop, nothing traced while it runs; the
    log directory read back afterwards is the event stream the protocol monitor judges (every record exactly the next number)."""
    import subprocess
    runs = 8 if ctx.quick() else 24

    def one(i):
        d = ctx.sub(f'c08-seqstress-{i}')
        import shutil
        shutil.rmtree(os.path.join(d, 'db'), ignore_errors=True)
        out = os.path.join(d, 'stream.ndjson')
        args = [ctx.kvh(), 'seq-stress', '-dir', os.path.join(d, 'db'), '-out', out, '-ms', str(1500 if ctx.quick() else 5000),
                # few writers and a table that is large compared with what is written between two flushes: the flush of the active
                # table stays cheap, so the log is rotated hundreds of times per second
                '-writers', str(2 + i % 3), '-mem', str([65536, 65536, 16384, 262144][i % 4]), '-sync', str([0, 0, 1][i % 3])]
        p = subprocess.run(args, capture_output=True, text=True, timeout=300)
        if p.returncode != 0 or not os.path.exists(out):
            raise Infra(f'seq-stress run {i}: rc={p.returncode} {p.stderr[-300:]}')
        lines = open(out).read().splitlines()
        # TLC time grows with the length: the head of the log and the part around every irregularity would be enough, the first
        # 150000 events are what is judged
        if len(lines) > 150000:
            open(out, 'w').write('\n'.join(lines[:150000]) + '\n')
        ok, hw, st, outp = tlc_trace(ctx, 'TRACE_StoreProto', 'TRACE_StoreProto.cfg', out, timeout=900, tag=f'c08-seqstress-{i}')
        if ok:
            return len(lines), None
        ev = json.loads(lines[hw - 1]) if hw and hw <= len(lines) else {}
        prev = json.loads(lines[hw - 2]) if hw and hw >= 2 else {}
        return len(lines), (f"full-speed writers and flushes (run {i}): record numbered {ev.get('a')} follows record numbered {prev.get('a')} in the log "
                            f"{ev.get('msg', '')}")
    with cf.ThreadPoolExecutor(max_workers=4) as ex:
        res = list(ex.map(one, range(runs)))
    ctx.traces += runs
    ctx.notes['stress_log_records_read_back'] = sum(n for n, _ in res) // 2
    bad = [(i, w) for i, (n, w) in enumerate(res) if w]
    if bad:
        # a matter of scheduling: any further run of the same kind that breaks the rule again counts as reproduction
        again = [w for _, w in bad[1:]] or [one(100 + k)[1] for k in range(8)]
        if any(again):
            ctx.violations.append({'what': bad[0][1], 'replay': save_replay(ctx, 'store-stress', {'stress': True, 'run': bad[0][0]})})
        else:
            ctx.unreproduced.append({'what': bad[0][1]})


def selftest_seq(ctx, behs, flags):
    for beh in behs:
        idx = [i for i, s in enumerate(beh) if s['a'] in ('put', 'commit', 'delete')]
        if not idx:
            continue
        b2 = json.loads(json.dumps(beh))
        i = idx[-1]
        b2[i]['seq'] += 1
        mm, _ = replay_class(ctx, [b2], CLASSES[0], flags, 'selftest')
        if not mm or mm[0][0].get('kind') != 'seq':
            raise Infra('binding self-test failed: a corrupted sequence number was not noticed')
        ctx.notes['binding_selftest'] = 'corrupted last-sequence expectation at step %d noticed' % i
        return
    raise Infra('binding self-test: no suitable behaviour')


def check_C12(ctx):
    ctx.assumptions += ['bounded model (constants in the cfg files named under mc_runs)',
                        'recency of table files is what KevoStore!Older defines: deeper level = older, inside a level higher file number = newer',
                        'a background flush that lands between the two directory snapshots of one compaction step voids that comparison (counted, not judged)',
                        'tombstone retention by age (24 h) cannot be exercised in a check']
    if not ctx.quick():
        tlc_mc(ctx, 'MC_Store', 'MC_Store_thorough.cfg', timeout=3000)
    tlc_mc(ctx, 'MC_Store', 'MC_Store_compact.cfg', timeout=900 if ctx.quick() else 900)
    n = 250 if ctx.quick() else 2000
    behs = gen(ctx, 'GEN_Store_compact.cfg', n, seed_off=3)
    behs = corpus('store.ndjson') + corpus('compact.ndjson') + behs
    nontrivial_c12(ctx, behs)
    ctx.samples = [[{'a': s['a'], 'op': s['op']} for s in behs[len(behs) // 2][:12]]]
    flags = ['-dirview', '-ballast', '12']
    selftest_binding(ctx, behs[-20:], flags)
    ctx.traces += run_replays(ctx, 'C12', behs, flags, CLASSES[:3], 'c12')
    # the space "two overlapping table files x every compaction call" enumerated exhaustively by TLC (GEN_Layout): 729 ways to
    # write two layers over three keys x (strategy cycle + 9 range compactions), then retire + reopen
    lay = tlc_enumerate(ctx, 'GEN_Layout', 'GEN_Layout.cfg')
    ctx.notes['layout_behaviours_enumerated'] = len(lay)
    # the same space with a table file of its own per layer (logs retired + reopen between the layers): kevo's flush of the
    # active table leaves the table in place, so without that the second file holds the first layer as well
    lay_sep = tlc_enumerate(ctx, 'GEN_Layout', 'GEN_Layout_sep.cfg')
    if ctx.quick():
        import random
        lay = random.Random(ctx.seed).sample(lay, 500) + random.Random(ctx.seed + 2).sample(lay_sep, 500)
    else:
        lay = lay + lay_sep
    # three layers (files) over the same keys: every layout x range compaction whose selection is not closed under overlap after
    # one pass over the files (a chain: the first file overlaps the requested range, the second only the first, the third only
    # the second), enumerated exhaustively by TLC
    lay3 = tlc_enumerate(ctx, 'GEN_Layout', 'GEN_Layout3.cfg', timeout=900)
    ctx.notes['three_layer_chain_layouts_enumerated'] = len(lay3)
    if ctx.quick():
        import random
        lay3 = random.Random(ctx.seed + 1).sample(lay3, min(len(lay3), 384))
    lay = lay + lay3
    nontrivial_c12(ctx, lay)
    ctx.traces += run_replays(ctx, 'C12', lay, ['-dirview'], [CLASSES[0], ('ascii-bigmem-immsync', 'ascii', {'memtable_size': 1 << 20, 'sync_mode': 2, 'compact_sec': 3600}, 1.0)][:1 if ctx.quick() else 2], 'c12lay')
    ctx.evaluations = ctx.traces
    write_evidence(ctx, 'model_checking',
                   'behaviours drawn by TLC simulation of GEN_Store biased towards flush/compaction (cycle, full-range, sub-range)/retire/reopen, '
                   'replayed under 3 configuration classes: every key (and filler keys) is read back after every call incl. after reopen with the '
                   'old log files retired (reads then come from table files only), and around every compaction call the merged newest-wins view of '
                   'the table directory, computed with the real readers and the recency order the specification defines, must be unchanged and '
                   'every file strictly ascending. distinct_nontrivial = distinct behaviours with at least one compaction after a flush')


def nontrivial_c12(ctx, behs):
    for b in behs:
        acts = [s['a'] for s in b]
        if 'flush' in acts and any(a.startswith('compact') for a in acts[acts.index('flush'):]):
            ctx.nontrivial.add(action_sig(b) + '|' + json.dumps([s['op'] for s in b], sort_keys=True))


def replay_saved(ctx, payload):
    if payload.get('stress'):
        ctx.violations = []
        stress_numbering(ctx)
        stress_log_numbering(ctx)
        return {'what': ctx.violations[0]['what']} if ctx.violations else None
    if 'prog' in payload:
        from props import crash
        return crash.replay_saved(ctx, payload)
    if 'site' in payload:
        ctx.violations = []
        gated_numbering(ctx)
        bad = [v for v in ctx.violations if payload['site'] in v['what']]
        return {'what': bad[0]['what']} if bad else None
    cls = tuple(payload['class'])
    mm, _ = replay_class(ctx, [payload['behaviour']], (cls[0], cls[1], cls[2], 1.0), payload['flags'], 'replay')
    return mm[0][0] if mm else None
