"""C06: recorded concurrent histories of the real engine (put/get/delete under flush, rotation, compaction) validated by TLC
against the sequential map (KevoLin): acceptance of a history IS its linearisability."""
import concurrent.futures as cf
import json
import os
import subprocess

from vlib import Infra, read_ndjson, save_replay, tlc_mc, validate_batch, write_evidence

CFGS = ['{"memtable_size":150,"max_memtables":3,"sync_mode":0,"compact_sec":1}',
        '{"memtable_size":600,"max_memtables":2,"sync_mode":1,"sync_bytes":300,"compact_sec":1}',
        '{"memtable_size":100,"max_memtables":4,"sync_mode":2,"compact_sec":1}']


PAUSES = ['sm.rotate.swapped:400', 'sm.rotate.created:400', 'sm.rotate.oldsafe:400', 'sm.rotate.marked:300', 'sm.flush.table.renamed:500',
          'sm.put.logged:200', 'sm.switch:300', 'sm.flush.snapshot:400', 'wal.new:400']


def record(ctx, i, clients, ops, keys, tag='h'):
    d = ctx.sub(f'lin-{tag}{i}')
    out = os.path.join(d, 'trace.ndjson')
    seed = ctx.seed * 1000 + i
    args = [ctx.kvh(), 'lin-run', '-dir', os.path.join(d, 'db'), '-out', out, '-seed', str(seed), '-clients', str(clients),
            '-ops', str(ops), '-keys', str(keys), '-cfg', CFGS[i % len(CFGS)]]
    env = dict(os.environ)
    if i % 4:
        env['VERIF_YIELD'] = f'{seed}:{(i % 4) * 70}'
    # every second history additionally widens ONE window of the write / switch / rotation / flush protocol
    if i % 2:
        env['VERIF_PAUSE'] = PAUSES[(i // 2) % len(PAUSES)]
    try:
        p = subprocess.run(args, capture_output=True, text=True, timeout=180, env=env)
    except subprocess.TimeoutExpired:
        return [{'e': 'reset'}, {'e': 'hang', 'msg': 'harness timed out'}], args
    ev = read_ndjson(out) if os.path.exists(out) else [{'e': 'reset'}]
    if p.returncode != 0 and not any(e.get('e') in ('hang', 'error') for e in ev):
        ev.append({'e': 'error', 'msg': f'rc={p.returncode} {p.stderr[-300:]}'})
    return ev, args


GATED_SITES = ['sm.flush.snapshot', 'sm.rotate.begin', 'sm.rotate.marked', 'sm.rotate.oldsafe', 'wal.new', 'wal.setnext', 'sm.rotate.created',
               'sm.rotate.swapped', 'wal.close.pre', 'wal.close.synced', 'sm.rotate.closed', 'sm.flush.table.pre', 'sst.block.prewrite',
               'sst.finish.presync', 'sst.finish.synced', 'sst.finish.renamed', 'sm.flush.table.renamed', 'sm.flush.table.published']


def gated(ctx, site, imm, tag='g', extra=()):
    d = ctx.sub(f"lin-{tag}-{site}-{int(imm)}-{'-'.join(extra)}")
    import shutil
    shutil.rmtree(os.path.join(d, 'db'), ignore_errors=True)
    out = os.path.join(d, 'trace.ndjson')
    args = [ctx.kvh(), 'lin-gated', '-dir', os.path.join(d, 'db'), '-out', out, '-site', site] + (['-imm'] if imm else []) + list(extra)
    try:
        p = subprocess.run(args, capture_output=True, text=True, timeout=120)
    except subprocess.TimeoutExpired:
        return [{'e': 'reset'}, {'e': 'hang', 'msg': 'harness timed out'}], args
    ev = read_ndjson(out) if os.path.exists(out) else [{'e': 'reset'}]
    if p.returncode not in (0, 5) and not any(e.get('e') in ('hang', 'error') for e in ev):
        ev.append({'e': 'error', 'msg': f'rc={p.returncode} {p.stderr[-300:]}'})
    return ev, args


def validate_parallel(ctx, runs, tag, groups=6):
    chunks = [list(range(g, len(runs), groups)) for g in range(groups)]
    rejected = []

    def work(g):
        idx = chunks[g]
        if not idx:
            return []
        bad = validate_batch(ctx, 'KevoLin', 'KevoLin.cfg', [runs[i] for i in idx], f'{tag}-g{g}', done_inv='NotDone', timeout=1200)
        return [idx[b] for b in bad]
    with cf.ThreadPoolExecutor(max_workers=groups) as ex:
        for r in ex.map(work, range(groups)):
            rejected += r
    return rejected


def stress_histories(ctx):
    """Read-your-write at full speed: writers with a key of their own put and read back in tight loops while one goroutine flushes
    (rotates the log) hundreds of times per second; nothing is traced while it runs.  The writers' histories (keys are disjoint,
    each writer sequential) are validated by TLC against KevoLin like every other history."""
    runs = 12 if ctx.quick() else 36

    def one(i):
        d = ctx.sub(f'lin-stress-{i}')
        import shutil
        shutil.rmtree(os.path.join(d, 'db'), ignore_errors=True)
        hist = os.path.join(d, 'hist.ndjson')
        args = [ctx.kvh(), 'seq-stress', '-dir', os.path.join(d, 'db'), '-out', os.path.join(d, 'stream.ndjson'), '-hist', hist,
                '-histops', str(1200 if ctx.quick() else 4000), '-ms', str(1500 if ctx.quick() else 5000), '-writers', str(2 + i % 3),
                '-mem', str([65536, 16384, 262144][i % 3]), '-sync', str([0, 1, 0][i % 3])]
        p = subprocess.run(args, capture_output=True, text=True, timeout=300)
        if p.returncode != 0 or not os.path.exists(hist):
            raise Infra(f'seq-stress run {i}: rc={p.returncode} {p.stderr[-300:]}')
        return read_ndjson(hist), args
    with cf.ThreadPoolExecutor(max_workers=6) as ex:
        recs = list(ex.map(one, range(runs)))
    # a recording holds the head of every writer's history and, behind further reset events, the surroundings of every read that
    # did not show the last acknowledged write: each part is a history of its own
    split = []
    for ev, args in recs:
        cur = []
        for e in ev:
            if e.get('e') == 'reset' and cur:
                split.append((cur, args))
                cur = []
            cur.append(e)
        if cur:
            split.append((cur, args))
    ctx.notes['stress_suspicious_reads_judged'] = len(split) - len(recs)
    recs = split
    ctx.traces += runs
    ctx.notes['stress_history_events'] = sum(len(r[0]) for r in recs)
    bad = validate_parallel(ctx, [r[0] for r in recs], 'lin-stress', groups=3)
    if bad:
        # a matter of scheduling: a second rejected history of the same kind (in this batch or in 6 more runs) is the reproduction
        more = bad[1:] or validate_parallel(ctx, [one(100 + k)[0] for k in range(6)], 'lin-stress-repro', groups=3)
        what = 'full-speed writers reading their own key back while the log is rotated: the recorded history has no linearisation'
        if more:
            ctx.violations.append({'what': what, 'replay': save_replay(ctx, 'lin', {'stress': True, 'args': recs[bad[0]][1][1:], 'trace': recs[bad[0]][0][:400]})})
        else:
            ctx.unreproduced.append({'what': what, 'args': recs[bad[0]][1][1:]})


def check_C06(ctx):
    ctx.assumptions += ['schedules are sampled (seeded clients, yield perturbation at the hook sites, tiny memtables, background flush/compaction); '
                        'each recorded history is decided exactly by TLC',
                        'recorded intervals contain the true ones (invocation logged before the call, response after it, one appender)',
                        'histories are short enough for the search to finish; a time-out is a machinery failure, never a verdict']
    ctx.kvh()
    n = 18 if ctx.quick() else 200
    shapes = [(4, 35, 3), (6, 30, 3), (8, 20, 4), (3, 60, 2)]
    with cf.ThreadPoolExecutor(max_workers=10) as ex:
        recs = list(ex.map(lambda i: record(ctx, i, *shapes[i % len(shapes)]), range(n)))
    runs = [r[0] for r in recs]
    ctx.traces += len(runs)
    ctx.evaluations += len(runs)
    for i, r in enumerate(runs):
        if sum(1 for e in r if e.get('e') == 'inv') >= 20:
            ctx.nontrivial.add(i)
    ctx.samples = [runs[0][:30]]
    ctx.notes['events_validated'] = sum(len(r) for r in runs)
    ctx.notes['failed_writes_recorded'] = sum(1 for r in runs for e in r if e.get('e') == 'ret' and e.get('res') == 'err')
    for i in validate_parallel(ctx, runs, 'lin')[:3]:
        again = False
        for k in range(4):
            r2, _ = record(ctx, i, *shapes[i % len(shapes)], tag=f'repro{k}-')
            if validate_batch(ctx, 'KevoLin', 'KevoLin.cfg', [r2], f'repro{i}-{k}', done_inv='NotDone', timeout=1200):
                again = True
                break
        bad = [e for e in runs[i] if e.get('e') in ('error', 'hang')]
        what = bad[0].get('msg', 'error') if bad else 'recorded history has no linearisation (or its final / reopened state is not the one the linearisation produces)'
        if not again:
            ctx.unreproduced.append({'what': what, 'args': recs[i][1][1:]})
            continue
        path = save_replay(ctx, 'lin', {'args': recs[i][1][1:], 'trace': runs[i]})
        ctx.violations.append({'what': what, 'replay': path})
    # deterministic interleavings: the flush path parked at each of its steps while clients write and read
    stress_histories(ctx)
    jobs = [(s_, imm, ()) for s_ in GATED_SITES for imm in (False, True)]
    # and the other way round: a WRITER parked inside its append / insert while the flush path (rotation) runs against it
    jobs += [(s_, False, ('-parkwriter', '-sync', str(sy))) for s_ in ('wal.append.written', 'wal.sync.flushed', 'sm.put.logged', 'sl.insert.node_next')
             for sy in (2, 1)]
    with cf.ThreadPoolExecutor(max_workers=10) as ex:
        grecs = list(ex.map(lambda j: gated(ctx, j[0], j[1], extra=list(j[2])), jobs))
    reached = [(j, r) for j, r in zip(jobs, grecs) if not any(e.get('e') == 'notreached' for e in r[0])]
    if len(reached) < len(GATED_SITES):
        raise Infra(f'only {len(reached)} gated scenarios reached their hook site (hooks renamed or removed?)')
    ctx.notes['gated_scenarios'] = len(reached)
    ctx.traces += len(reached)
    ctx.evaluations += len(reached)
    for j, r in reached:
        ctx.nontrivial.add(('gated',) + j)
    for i in validate_parallel(ctx, [r[0] for j, r in reached], 'gated', groups=4)[:3]:
        j, r = reached[i]
        r2 = gated(ctx, j[0], j[1], tag='repro', extra=list(j[2]))
        if not validate_batch(ctx, 'KevoLin', 'KevoLin.cfg', [r2[0]], f'gated-repro{i}', done_inv='NotDone'):
            ctx.unreproduced.append({'what': f'gated at {j}'})
            continue
        bad = [e for e in r[0] if e.get('e') in ('error', 'hang')]
        what = f'flush path parked at {j[0]} ({"immutable" if j[1] else "active"} table): ' + \
            (bad[0].get('msg', 'error') if bad else 'the recorded history has no linearisation')
        ctx.violations.append({'what': what, 'replay': save_replay(ctx, 'lin', {'args': r[1][1:], 'trace': r[0]})})
    # binding self-test: a history with one altered read result must be rejected
    t = next((r for r in runs if any(e.get('e') == 'ret' and e['res'] not in ('ok', 'err', 'NONE') for e in r)), None)
    if t is None:
        raise Infra('no history with a successful read')
    t2 = json.loads(json.dumps(t))
    j = [i for i, e in enumerate(t2) if e.get('e') == 'ret' and e['res'] not in ('ok', 'err', 'NONE')]
    t2[j[len(j) // 2]]['res'] = 'never-written-value'
    if not validate_batch(ctx, 'KevoLin', 'KevoLin.cfg', [t2], 'selftest', done_inv='NotDone'):
        raise Infra('binding self-test failed: a history with an impossible read was accepted')
    ctx.notes['binding_selftest'] = 'history with one altered read result rejected'
    write_evidence(ctx, 'exploration',
                   'histories = recorded executions of 3-8 client goroutines doing put/get/delete with globally unique values on 2-4 keys while '
                   'tiny memtables force switch/rotation/flush every few operations and a background goroutine triggers flush and compaction; '
                   'schedule perturbation (seeded yields/sleeps) at the hook sites of the write, switch, rotation and flush paths. Each history '
                   '(plus the state after quiescence and after reopen) is validated by TLC against KevoLin: accepted iff a linearisation exists. '
                   'distinct_nontrivial = histories with at least 20 operations',
                   extra={'exhaustive': False})


def replay_saved(ctx, payload):
    if payload.get('stress'):
        ctx.violations = []
        stress_histories(ctx)
        return {'what': ctx.violations[0]['what']} if ctx.violations else None
    if validate_batch(ctx, 'KevoLin', 'KevoLin.cfg', [payload['trace']], 'replay-saved', done_inv='NotDone'):
        return {'what': 'the saved history has no linearisation'}
    return None
