"""C05: KevoIter (operational merge + range + filter vs. abstract definition) model-checked; TLC-generated arrangements and
cursor programs replayed on the real engine / transaction iterators; running scans validated against TRACE_Scan."""
import concurrent.futures as cf
import json
import os
import subprocess

from vlib import Infra, read_ndjson, save_replay, tlc_mc, tlc_sim, validate_batch, write_ndjson, write_evidence

BINDINGS = [('engine-sst', False), ('engine-tiny', False), ('engine-mixed', True), ('tx', False), ('engine-sst-big', False)]


def replay(ctx, behs, binding, binary, tag):
    d = ctx.sub(f'iter-{tag}-{binding}')
    inp, out = os.path.join(d, 'in.ndjson'), os.path.join(d, 'out.ndjson')
    write_ndjson(inp, behs)
    ctx.run_kvh(['replay-iter', '-in', inp, '-out', out, '-work', os.path.join(d, 'db'), '-binding', binding] +
                (['-binary'] if binary else []), timeout=1200)
    res = read_ndjson(out)
    if len(res) != len(behs):
        raise Infra(f'replay-iter {binding}: {len(res)} results for {len(behs)} behaviours')
    return [(r, behs[r['b']]) for r in res if not r.get('ok')]


def scan_runs(ctx, n):
    def one(i):
        d = ctx.sub(f'scan-{i}')
        out = os.path.join(d, 'trace.ndjson')
        args = [ctx.kvh(), 'scan-concurrent', '-dir', os.path.join(d, 'db'), '-out', out, '-seed', str(ctx.seed * 1000 + i),
                '-n', str(10 + i % 8), '-mem', str([150, 400, 1 << 20][i % 3])] + (['-range'] if i % 2 else []) + (['-seeks'] if (i // 2) % 2 else []) + (['-memonly'] if i % 3 == 2 and (i // 2) % 2 else [])
        p = subprocess.run(args, capture_output=True, text=True, timeout=120)
        ev = read_ndjson(out) if os.path.exists(out) else [{'e': 'reset', 'n': 0, 'stable': []}]
        if p.returncode != 0:
            ev.append({'e': 'error', 'msg': p.stderr[-300:]})
        return ev, args
    with cf.ThreadPoolExecutor(max_workers=12) as ex:
        return list(ex.map(one, range(n)))


def check_C05(ctx):
    ctx.assumptions += ['bounded model: 3 keys x 2 sources for the exhaustive check (inductive link CursorsConsistent makes longer programs redundant)',
                        'service-level Scan/TxScan option combinations are checked under C19',
                        'running scans: schedules sampled, interleaving at Next-call granularity']
    ctx.kvh()
    tlc_mc(ctx, 'MC_Iter', 'MC_Iter.cfg' if ctx.quick() else 'MC_Iter_thorough.cfg', timeout=900 if ctx.quick() else 2400)
    n = 150 if ctx.quick() else 1500
    behs = tlc_sim(ctx, 'GEN_Iter', 'GEN_Iter.cfg', n, 60, ctx.seed * 13 + 5, timeout=600)
    corpus_p = os.path.join(os.path.dirname(os.path.dirname(os.path.dirname(__file__))), 'corpus', 'iter.ndjson')
    if os.path.exists(corpus_p):
        behs = read_ndjson(corpus_p) + behs
    ctx.samples = [behs[len(behs) // 2]]
    for b in behs:
        if sum(1 for s in b['srcs'] if any(m != '-' for m in s)) >= 2:
            ctx.nontrivial.add(json.dumps(b, sort_keys=True))
    # binding self-test: a corrupted prediction must be noticed
    b2 = json.loads(json.dumps(next(b for b in behs if any(s['at'] <= 2 * b['n'] for s in b['prog']))))
    i = next(i for i, s in enumerate(b2['prog']) if s['at'] <= 2 * b2['n'])
    b2['prog'][i]['at'] = b2['prog'][i]['at'] + 2 if b2['prog'][i]['at'] < 2 * b2['n'] else 2
    if not replay(ctx, [b2], 'engine-sst', False, 'selftest'):
        raise Infra('binding self-test failed: a corrupted cursor prediction was not noticed')
    ctx.notes['binding_selftest'] = 'corrupted predicted position noticed by the replay'
    with cf.ThreadPoolExecutor(max_workers=5) as ex:
        futs = {ex.submit(replay, ctx, behs, bd, bn, 'main'): (bd, bn) for bd, bn in BINDINGS}
        for f in cf.as_completed(futs):
            bd, bn = futs[f]
            ctx.traces += len(behs)
            for mm, beh in f.result()[:3]:
                again = replay(ctx, [beh], bd, bn, 'repro') and replay(ctx, [beh], bd, bn, 'repro2')
                if not again:
                    ctx.unreproduced.append({'binding': bd, 'mismatch': mm})
                    continue
                path = save_replay(ctx, 'iter', {'behaviour': beh, 'binding': bd, 'binary': bn, 'mismatch': mm})
                ctx.violations.append({'what': f"{bd}: {mm['op']} at step {mm['step']}: expected {mm['exp']}, got {mm['got']} {mm.get('msg', '')}",
                                       'replay': path})
    # running scans
    runs = scan_runs(ctx, 36 if ctx.quick() else 480)
    traces = [r[0] for r in runs]
    ctx.traces += len(traces)
    for i in validate_batch(ctx, 'TRACE_Scan', 'TRACE_Scan.cfg', traces, 'scan')[:3]:
        again = False
        for k in range(3):
            import shutil
            shutil.rmtree(runs[i][1][runs[i][1].index('-dir') + 1], ignore_errors=True)       # a fresh database, as in the first run
            p = subprocess.run(runs[i][1], capture_output=True, text=True, timeout=120)
            out = runs[i][1][runs[i][1].index('-out') + 1]
            if validate_batch(ctx, 'TRACE_Scan', 'TRACE_Scan.cfg', [read_ndjson(out)], f'scanrepro{i}-{k}'):
                again = True
                break
        if not again:
            ctx.unreproduced.append({'what': 'running scan', 'args': runs[i][1][1:]})
            continue
        path = save_replay(ctx, 'scan', {'args': runs[i][1][1:], 'trace': traces[i]})
        ctx.violations.append({'what': 'a scan running while other keys were written is not ascending / misses a key that existed before it '
                                       'started and was not written during it', 'replay': path})
    # self-test of the trace binding: drop one stable yield
    t = next((t for t in traces if any(e.get('e') == 'yield' for e in t)), None)
    if t:
        stable = t[0]['stable']
        idx = [i for i, e in enumerate(t) if e.get('e') == 'yield' and stable[e['pos'] - 1]]
        if idx:
            t2 = [e for i, e in enumerate(t) if i != idx[0]]
            if not validate_batch(ctx, 'TRACE_Scan', 'TRACE_Scan.cfg', [t2], 'scan-selftest'):
                raise Infra('binding self-test failed: a scan trace missing a stable key was accepted')
    ctx.evaluations = ctx.traces
    write_evidence(ctx, 'model_checking',
                   'KevoIter: the merging iterator, range wrapper and key filter transcribed operationally and checked by TLC against the abstract '
                   'definition (least >= target, successor, greatest; newest source wins) for all arrangements of 3 keys x 2 sources x bounds x '
                   'filters. TLC simulation generates layer arrangements (5 keys x 3 sources, markers, values), bounds (on / between keys, empty '
                   'ranges), prefix/suffix filters and cursor programs with the predicted position and supplying source after every operation; '
                   'each is replayed on the real engine with the layers realised as table files, as immutable memtables, mixed, and as a '
                   'transaction buffer over stored layers. Running scans stepped between foreign writes/flush/compaction are validated against '
                   'TRACE_Scan. distinct_nontrivial = behaviours with entries in at least two sources')


def replay_saved(ctx, payload):
    if 'behaviour' in payload:
        mm = replay(ctx, [payload['behaviour']], payload['binding'], payload.get('binary', False), 'replay')
        return mm[0][0] if mm else None
    import shutil
    d = ctx.sub('scan-replay')
    args = list(payload['args'])
    args[args.index('-dir') + 1] = os.path.join(d, 'db')
    args[args.index('-out') + 1] = os.path.join(d, 'trace.ndjson')
    shutil.rmtree(os.path.join(d, 'db'), ignore_errors=True)
    p = subprocess.run([ctx.kvh()] + args, capture_output=True, text=True, timeout=120)
    out = args[args.index('-out') + 1]
    if validate_batch(ctx, 'TRACE_Scan', 'TRACE_Scan.cfg', [read_ndjson(out)], 'replay'):
        return {'what': 'running scan rejected'}
    return None
