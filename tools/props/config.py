"""C20: configuration is validated and persists with the database.

spec/KevoConfig.tla is model-checked (MC_Config_*.cfg); TLC generates behaviours from GEN_Config (exhaustively over the
boundary-class product for the field part and the damage part, by simulation for the life-cycle); the harness
subcommand `kvh config` replays them against config.Validate / SaveManifest / LoadConfigFromManifest and
engine.NewEngineFacade with the specification's predicted outcome as oracle."""
import concurrent.futures as cf
import hashlib
import json
import os

from vlib import Infra, NCPU, open_findings, read_ndjson, save_replay, tlc_mc, tlc_sim, write_evidence, write_ndjson

ENV_STEPS = ('truncate', 'garbage', 'tamper')
DEFAULT = None      # the default class record, taken from a generated behaviour


# ---------------------------------------------------------------------------------------------- generation
def parse_behaviours(out):
    res = []
    for line in out.splitlines():
        if line.startswith('<<"BEHAVIOUR", '):
            try:
                res.append(json.loads(json.loads(line.strip()[len('<<"BEHAVIOUR", '):-2])))
            except Exception:
                raise Infra('cannot parse behaviour printed by TLC: ' + line[:200])
    return res


def gen_exhaustive(ctx, cfg, timeout=300):
    """GEN_Config in model-checking mode: one behaviour per (candidate, script); the run also checks Inv."""
    bad, st, out = tlc_mc(ctx, 'GEN_Config', cfg, timeout=timeout, workers=min(8, NCPU), tag='gen-' + cfg.replace('.cfg', ''),
                          expect_violation=True)
    if bad or 'Model checking completed' not in out or 'distinct' not in st:
        raise Infra(f'TLC failed while generating behaviours from GEN_Config/{cfg}:\n' + out[-3000:])
    behs = parse_behaviours(out)
    global DEFAULT
    for line in out.splitlines():
        if line.startswith('<<"DEFAULT", '):
            DEFAULT = json.loads(json.loads(line.strip()[len('<<"DEFAULT", '):-2]))
    if not behs:
        raise Infra(f'GEN_Config/{cfg} produced no behaviour')
    ctx.states += st['distinct']
    ctx.transitions += st['generated']
    ctx.mc_runs.append({'module': 'GEN_Config', 'cfg': cfg, 'distinct_states': st['distinct'], 'generated': st['generated'],
                        'behaviours': len(behs)})
    return behs


def cfgs_of(beh):
    return [s['cfg'] for s in beh if 'cfg' in s]


def uses_inf(beh):
    return any(c.get('CompactionRatio') == 'pinf' for c in cfgs_of(beh))


def select_policy(behs, accept_inf):
    """The specification leaves open whether Validate accepts a +Inf ratio; behaviours are generated under both
    answers and those generated under the answer the implementation gives (probed) are replayed."""
    return [b for b in behs if b[0].get('pol') == accept_inf or not uses_inf(b)]


def stamp(behs, seed, off):
    for i, b in enumerate(behs):
        b[0]['seed'] = (seed * 1000003 + off * 7919 + i * 31 + 1) % (1 << 62)
    return behs


# ---------------------------------------------------------------------------------------------- replay
def replay_chunk(ctx, behs, variant, sweep, tag):
    d = ctx.sub('replay-' + tag)
    inp, out = os.path.join(d, 'in.ndjson'), os.path.join(d, 'out.ndjson')
    write_ndjson(inp, behs)
    args = ['config', '-in', inp, '-out', out, '-work', os.path.join(d, 'db'), '-variant', str(variant), '-seed', str(ctx.seed)]
    ctx.run_kvh(args + (['-sweep'] if sweep else []), timeout=900)
    res = read_ndjson(out)
    if len(res) != len(behs):
        raise Infra(f'replay {tag}: {len(res)} results for {len(behs)} behaviours (harness crashed?)')
    return res


def replay(ctx, behs, variant, sweep, tag, procs=None):
    """Replays in parallel chunks; returns (mismatches [(mm, beh)], per-behaviour results)."""
    procs = procs or max(1, min(NCPU, 8, len(behs) // 20 + 1))
    chunks = [behs[i::procs] for i in range(procs)]
    ctx.kvh()
    with cf.ThreadPoolExecutor(max_workers=procs) as ex:
        futs = [ex.submit(replay_chunk, ctx, ch, variant, sweep, f'{tag}-v{variant}-{i}') for i, ch in enumerate(chunks) if ch]
        results = [f.result() for f in futs]
    mms, oks = [], []
    for ch, res in zip([c for c in chunks if c], results):
        for r in res:
            if r.get('ok'):
                oks.append((r, ch[r['b']]))
            elif r.get('kind') == 'err':
                raise Infra(f'harness problem in {tag}: {json.dumps(r)}')
            else:
                mms.append((r, ch[r['b']]))
    return mms, oks


def sig(mm):
    return (mm.get('kind'), mm.get('a'), mm.get('step'), mm.get('exp'), mm.get('got'))


def cfg_at(beh, mm):
    """The configuration a mismatch is about: the client's candidate for validate/save, the stored one for load/open."""
    cand = stored = None
    for s in beh[:max(mm.get('step', 0), 0) + 1]:
        if s['a'] in ('init', 'choose'):
            cand = s['cfg']
        elif s['a'] == 'tamper':
            stored = s['cfg']
        elif s['a'] == 'save' and s['exp'].get('ok'):
            stored = cand
        elif s['a'] in ('open', 'reopen') and s['exp'].get('ok'):
            stored = s['exp']['c']
    return cand if mm.get('a') in ('validate', 'save') or stored is None else stored


def deviation(c):
    return {k: v for k, v in (c or {}).items() if DEFAULT is None or DEFAULT.get(k) != v}


def matches_known(mm, beh):
    """A mismatch is attributed to an open known finding only if the finding's predicate holds for it:
    pattern = {kind: [..], field: <config field>, classes: [..]} - the configuration concerned has that field in one of the classes."""
    c = cfg_at(beh, mm) or {}
    for k in open_findings('C20'):
        pat = k.get('pattern', {})
        if pat.get('kind') and mm.get('kind') not in pat['kind']:
            continue
        if pat.get('field') and c.get(pat['field']) not in pat.get('classes', []):
            continue
        return k
    return None


def classify(ctx, mms, variant, sweep):
    """Mismatches are grouped by (kind, call, predicted, observed); inside a group the configuration with the fewest
    non-default fields is the representative and explains every mismatch whose configuration contains its deviation.
    Every representative is reproduced, attributed to a known finding if its predicate holds, else reported."""
    handled = ctx.__dict__.setdefault('_c20_handled', [])       # shared by all replay runs of this check
    order = sorted(mms, key=lambda x: (len(deviation(cfg_at(x[1], x[0]))), x[0].get('step', 0), len(x[1])))
    for mm, beh in order:
        key = (mm.get('kind'), mm.get('a'), mm.get('exp'), mm.get('got'))
        dev = set(deviation(cfg_at(beh, mm)).items())
        cover = [h for h in handled if h[0] == key and h[1] <= dev]
        if cover:
            cover[0][2][0] += 1
            continue
        if len(handled) >= 12:
            continue
        count = [1]
        handled.append((key, dev, count))
        again = 0
        for i in range(2):
            m2, _ = replay(ctx, [beh], variant, sweep, f'repro{len(handled)}-{i}', procs=1)
            if m2 and sig(m2[0][0]) == sig(mm):
                again += 1
        if again < 2:
            ctx.unreproduced.append({'variant': variant, 'mismatch': mm})
            continue
        k = matches_known(mm, beh)
        if k:
            if k['id'] not in ctx.known_seen:
                ctx.known_seen.append(k['id'])
            continue
        if len(ctx.violations) >= 6:
            continue
        payload = {'behaviour': beh, 'variant': variant, 'sweep': sweep, 'mismatch': mm}
        if uses_inf(beh):
            # the same candidate's behaviour as generated under the other answer to "is +Inf accepted": used by --replay
            # if the implementation has changed its (free) choice in the meantime
            alt = ctx.__dict__.get('_c20_siblings', {}).get((json.dumps(beh[0]['cfg'], sort_keys=True), not beh[0].get('pol')))
            if alt and len(beh) > 1 and [s['a'] for s in alt[:2]] == [s['a'] for s in beh[:2]]:
                payload['behaviour_other_inf_policy'] = alt
        path = save_replay(ctx, 'config', payload)
        ctx.violations.append({'what': f"step {mm.get('step')} {mm.get('a')}: {mm.get('kind')}: the specification predicts {mm.get('exp')!r}, "
                                       f"the code gives {mm.get('got')!r}; configuration = default except {json.dumps(dict(dev), sort_keys=True)} "
                                       f"(value variant {variant}) {mm.get('msg', '')}",
                               'replay': path, 'count': count})


def replay_saved(ctx, payload):
    beh = payload['behaviour']
    if uses_inf(beh):
        accept_inf = bool(json.loads(ctx.run_kvh(['config', '-probe']).stdout.strip().splitlines()[-1])['accept_inf'])
        if beh[0].get('pol') != accept_inf:
            beh = payload.get('behaviour_other_inf_policy')
            if not beh:
                raise Infra('the saved behaviour was generated for an implementation that %s a +Inf ratio; this one does not - '
                            'run the check instead' % ('accepts' if not accept_inf else 'rejects'))
    mms, _ = replay(ctx, [beh], payload.get('variant', 0), payload.get('sweep', False), 'saved', procs=1)
    return mms[0][0] if mms else None


# ---------------------------------------------------------------------------------------------- binding self-test
def selftest_binding(ctx, fields, damage):
    """Each corrupted expectation must be noticed by the replay at exactly the corrupted step.  The behaviours are
    taken from those the implementation CONFORMED to (so the corrupted prediction differs from what the code does);
    on a defective implementation some cases may have no conforming behaviour - then the reported violations
    themselves show that the binding notices disagreements."""
    cases = []
    for b in fields:            # 1: Validate's predicted verdict flipped
        if b[1]['a'] == 'validate' and b[1]['exp']['ok']:
            b2 = json.loads(json.dumps(b))
            b2[1]['exp']['ok'] = False
            cases.append((b2, 1, 'validate'))
            break
    for b in fields:            # 2: the configuration predicted to be loaded back differs in one field
        idx = [i for i, s in enumerate(b) if s['a'] == 'load' and s['exp'].get('ok')]
        if idx:
            b2 = json.loads(json.dumps(b))
            c = b2[idx[0]]['exp']['c']
            c['MemTableSize'] = 'min' if c['MemTableSize'] != 'min' else 'typ'
            cases.append((b2, idx[0], 'loadeq'))
            break
    for b in damage:            # 3: opening over a torn MANIFEST predicted to succeed
        idx = [i for i, s in enumerate(b) if s['a'] == 'open' and s['exp'].get('ok') is False and s['st']['disk'] == 'torn']
        if idx:
            b2 = json.loads(json.dumps(b))
            b2[idx[0]]['exp']['ok'] = True
            cases.append((b2, idx[0], 'open'))
            break
    for b in damage:            # 4: the reopened engine predicted to run with another configuration than the stored one
        idx = [i for i, s in enumerate(b) if s['a'] == 'reopen' and s['exp'].get('ok')]
        if idx:
            b2 = json.loads(json.dumps(b))
            c = b2[idx[0]]['exp']['c']
            c['WALSyncMode'] = 'none' if c['WALSyncMode'] != 'none' else 'batch'
            cases.append((b2, idx[0], 'opencfg'))
            break
    if len(cases) < 4 and not ctx.violations and not ctx.known_seen:
        raise Infra('binding self-test: no suitable behaviours')
    for n, (b2, step, kind) in enumerate(cases):
        mms, _ = replay(ctx, [b2], 0, False, f'selftest{n}', procs=1)
        if not mms or mms[0][0].get('step') != step or mms[0][0].get('kind') != kind:
            raise Infra(f'binding self-test failed: corrupted expectation ({kind} at step {step}) was not noticed: {[m for m, _ in mms[:1]]}')
    ctx.notes['binding_selftest'] = 'corrupted expectations noticed: ' + ', '.join(f'{k}@{s}' for _, s, k in cases)


# ---------------------------------------------------------------------------------------------- the check
def brief(beh):
    out = []
    for s in beh:
        if s['a'] == 'init':
            out.append({'candidate(default except)': deviation(s['cfg'])})
        else:
            e = {'a': s['a']}
            if 'cfg' in s:
                e['cfg(default except)'] = deviation(s['cfg'])
            if 'cls' in s:
                e['cls'] = s['cls']
            if 'ok' in s.get('exp', {}):
                e['ok'] = s['exp']['ok']
            if s.get('exp', {}).get('ok') and 'c' in s['exp']:
                e['c(default except)'] = deviation(s['exp']['c'])
            out.append(e)
    return out


def note_nontrivial(ctx, behs):
    for b in behs:
        acts = [s['a'] for s in b]
        invalid = any(s['a'] == 'validate' and s['exp']['ok'] is False for s in b) or \
            any(s['a'] == 'save' and s['exp']['ok'] is False for s in b)
        if invalid or any(a in ENV_STEPS for a in acts) or 'reopen' in acts:
            body = json.dumps([{k: v for k, v in s.items() if k != 'seed'} for s in b], sort_keys=True)
            ctx.nontrivial.add(hashlib.sha1(body.encode()).hexdigest()[:16])


def check_C20(ctx):
    quick = ctx.quick()
    ctx.assumptions += [
        'configuration fields are explored through boundary classes (spec/KevoConfig.tla: Classes) with 2 (quick) / 3 (thorough) real '
        'values per class; candidates differ from a valid base configuration in at most 2 fields',
        'the constraints are those config.Validate documents in its messages; the "Range" column of docs/CONFIG_GUIDE.md is a '
        'recommendation; whether a +Inf ratio is accepted is left to the implementation (probed), every other clause then applies to it',
        'a deleted MANIFEST is outside the property (load-or-create then creates the default configuration)',
        'when the engine is opened, class "big" is bounded (<= 1 MiB / 4096 slots / 1 h): the engine sizes allocations and timers from these fields',
        'the engine\'s configuration is read from the unexported field EngineFacade.cfg by reflection, and seen from outside as the WAL directory in use',
    ]
    # 1. the specification satisfies the property (exhaustive, both +Inf policies)
    tlc_mc(ctx, 'MC_Config', 'MC_Config_fields.cfg', timeout=900, workers=min(8, NCPU))
    tlc_mc(ctx, 'MC_Config', 'MC_Config_life.cfg' if quick else 'MC_Config_life_choose.cfg', timeout=900 if quick else 1500)

    # 2. behaviours
    probe = json.loads(ctx.run_kvh(['config', '-probe']).stdout.strip().splitlines()[-1])
    accept_inf = bool(probe['accept_inf'])
    ctx.notes['validate_accepts_plus_inf'] = accept_inf
    fields = gen_exhaustive(ctx, 'GEN_Config_fields.cfg' if quick else 'GEN_Config_fields3.cfg', timeout=900 if quick else 1500)
    damage = gen_exhaustive(ctx, 'GEN_Config_damage.cfg')
    life = tlc_sim(ctx, 'GEN_Config', 'GEN_Config_life.cfg', 300 if quick else 8000, 80, ctx.seed * 13 + 5, timeout=900 if quick else 1200,
                   tag='gen-life')
    n_all = len(fields) + len(damage) + len(life)
    ctx._c20_siblings = {(json.dumps(b[0]['cfg'], sort_keys=True), b[0].get('pol')): b for b in fields if uses_inf(b)}
    fields = stamp(select_policy(fields, accept_inf), ctx.seed, 1)
    damage = stamp(select_policy(damage, accept_inf), ctx.seed, 2)
    life = stamp(select_policy(life, accept_inf), ctx.seed, 3)
    ctx.notes['behaviours'] = {'fields': len(fields), 'damage': len(damage), 'life': len(life),
                               'dropped_generated_under_the_other_inf_policy': n_all - len(fields) - len(damage) - len(life)}
    note_nontrivial(ctx, fields + damage + life)
    ctx.samples = [brief(fields[len(fields) // 3]), brief(damage[len(damage) // 2]), brief(life[len(life) // 2])]

    # 3. replay: field product under every value variant; damage with EVERY truncation length; life-cycle walks
    variants = [0, 1] if quick else [0, 1, 2]
    runs = [(damage, v, True, 'damage') for v in variants]
    runs += [(fields, v, False, 'fields') for v in variants]
    runs += [(life, v, False, 'life') for v in variants]
    if not quick:
        runs += [(life[:400], 0, True, 'lifesweep')]
    truncs = opens = skipped = 0
    sweep_cov = {}
    conformed = {'fields': [], 'damage': []}
    for behs, v, sweep, tag in runs:
        mms, oks = replay(ctx, behs, v, sweep, tag)
        ctx.traces += len(behs)
        if v == 0 and tag in conformed:
            conformed[tag] = [b for _, b in oks]
        for r, b in oks:
            truncs += r.get('truncs', 0)
            opens += r.get('opens', 0)
            if r.get('skipped'):
                skipped += 1
                ctx.notes.setdefault('cut_short_reasons', [])
                if len(ctx.notes['cut_short_reasons']) < 5:
                    ctx.notes['cut_short_reasons'].append(r['skipped'])
            if tag == 'damage' and any(s['a'] == 'truncate' for s in b):
                cls = [s['cls'] for s in b if s['a'] == 'truncate'][0]
                key = (v, json.dumps(b[0]['cfg'], sort_keys=True))
                sweep_cov.setdefault(key, {})[cls] = (r.get('truncs', 0), r.get('nclass', 0), r.get('mlen', 0))
        classify(ctx, mms, v, sweep)
    ctx.evaluations = ctx.traces
    # 4. binding self-test on behaviours the implementation conformed to
    selftest_binding(ctx, conformed['fields'], conformed['damage'])
    ctx.notes['truncation_lengths_exercised'] = truncs
    ctx.notes['engine_opens'] = opens
    ctx.notes['behaviours_cut_short'] = skipped
    # vacuity: every length 0..len of every base configuration's MANIFEST was tried (unless a violation cut the sweep short)
    if not ctx.violations and not ctx.unreproduced and not ctx.known_seen:
        for (v, _), per in sweep_cov.items():
            # the harness's lexer puts every length 0..len into exactly one class; every class was asked for and every
            # length of the class was tried
            if set(per) != {'empty', 'instring', 'innumber', 'between', 'complete'} or \
               any(n != ncls or ncls < 1 or mlen < 100 for n, ncls, mlen in per.values()) or \
               sum(n for n, _, _ in per.values()) < min(m for _, _, m in per.values()) + 1:
                raise Infra(f'truncation sweep incomplete (variant {v}): {per}')
        if not sweep_cov or opens < 100 or skipped > len(life) // 10:
            raise Infra(f'vacuous run: sweeps={len(sweep_cov)} opens={opens} cut short={skipped}')
    write_evidence(ctx, 'model_checking',
                   'states/transitions: TLC exhaustive runs of KevoConfig (candidates = all configurations differing from a valid base in '
                   '<= 2 fields, whole MANIFEST life-cycle, both +Inf policies) incl. the two exhaustive generation runs; '
                   'traces_validated_against_impl = behaviours replayed (one per candidate x value variant for the field product; one per '
                   'base configuration x damage class with every truncation length of the real MANIFEST; random life-cycle walks from TLC '
                   'simulation); claimed level: model_checking for the life-cycle (Save/Load/Truncate/Open/Reopen), exploration for the '
                   'real values inside a boundary class; distinct_nontrivial = distinct behaviours with an invalid candidate, an '
                   'environment step (truncate / garbage / tamper) or a reopen')
