"""C07: KevoConc (lock protocol: deadlock freedom, every call returns) model-checked; its call mixes run on the real engine in a
harness compiled with Go's race detector, under a watchdog; each run's summary trace validated by TLC (TRACE_Conc)."""
import concurrent.futures as cf
import itertools
import json
import os
import random
import re
import subprocess

from vlib import Infra, read_ndjson, save_replay, tlc_mc, validate_batch, write_evidence

ENTRY = ['put', 'delete', 'batch', 'get', 'isdeleted', 'scan', 'rangescan', 'stats', 'compstats', 'flush', 'compact', 'compactrange',
         'txro', 'txrw']


def run_mix(ctx, mix, i, ms, per=2, tag='m'):
    d = ctx.sub(f'conc-{tag}{i}')
    out = os.path.join(d, 'trace.ndjson')
    args = [ctx.kvh(race=True), 'conc-run', '-dir', os.path.join(d, 'db'), '-out', out, '-mix', ','.join(mix), '-ms', str(ms),
            '-per', str(per), '-seed', str(ctx.seed * 1000 + i)]
    env = dict(os.environ, GORACE='halt_on_error=1 exitcode=66')
    if i % 3 == 1:
        env['VERIF_YIELD'] = f'{ctx.seed + i}:80'
    try:
        p = subprocess.run(args, capture_output=True, text=True, timeout=120, env=env)
        rc, err = p.returncode, p.stderr
    except subprocess.TimeoutExpired:
        rc, err = -1, 'harness timed out'
    ev = read_ndjson(out) if os.path.exists(out) else [{'e': 'reset'}]
    races = len(re.findall(r'WARNING: DATA RACE', err))
    panics = len(re.findall(r'^(panic:|fatal error:)', err, re.M))
    ev = [e for e in ev if e.get('e') != 'stuck?']
    if not any(e.get('e') == 'hang' for e in ev):
        ev.append({'e': 'exit', 'status': rc if rc >= 0 else 255, 'races': races, 'panics': panics})
    detail = ''
    if races or panics or rc != 0:
        m = re.search(r'(WARNING: DATA RACE.*?)(?:\n\n|\Z)', err, re.S)
        fr = re.findall(r'^\s+(github\.com/KevoDB/kevo/[^\s(]+)', err, re.M)
        detail = ('race: ' if races else 'failure: ') + ' <- '.join(fr[:4]) if fr else err[-400:]
    return ev, args, detail


def check_C07(ctx):
    ctx.assumptions += ['data races are decided per execution by Go\'s happens-before detector compiled into the harness, not by the specification '
                        '(stated deviation, DESIGN 11); the specification supplies the lock protocol, the call mixes and the trace acceptance',
                        'Close concurrent with other calls is out of scope (as the property says)',
                        'schedules are sampled']
    tlc_mc(ctx, 'KevoConc', 'KevoConc.cfg', timeout=900)
    if not ctx.quick():
        # four concurrent callers: safety only (NoStuck = no reachable state in which a caller can never proceed); the temporal
        # property EveryCallReturns is checked with three callers above (with four its liveness graph does not finish in 40 min)
        tlc_mc(ctx, 'KevoConc', 'KevoConc_thorough.cfg', timeout=2400)
    p = ctx.run_kvh(['conc-entrypoints'], race=True)
    un = json.loads(p.stdout.strip().splitlines()[-1])['unexercised']
    un = [u for u in un if u not in ('CompactionManager.ForcePreserveTombstone',)]      # test-only hook, documented as such in the code
    if un:
        raise Infra(f'public entry points without a call mix and a lock sequence in KevoConc: {un}')
    mixes = [list(m) for m in itertools.combinations_with_replacement(ENTRY, 2)]
    if not ctx.quick():
        rng = random.Random(ctx.seed)
        mixes += [rng.sample(ENTRY, 3) for _ in range(150)] + [rng.sample(ENTRY, 5) for _ in range(40)]
    ms = 250 if ctx.quick() else 600
    with cf.ThreadPoolExecutor(max_workers=8) as ex:
        res = list(ex.map(lambda im: run_mix(ctx, im[1], im[0], ms), enumerate(mixes)))
    runs = [r[0] for r in res]
    ctx.traces += len(runs)
    ctx.evaluations += len(runs)
    for m in mixes:
        ctx.nontrivial.add(tuple(sorted(m)))
    ctx.samples = [{'mix': mixes[3], 'trace': runs[3]}]
    ctx.notes['calls_returned'] = sum(e.get('calls', 0) for r in runs for e in r if e.get('e') == 'done')
    seen = set()
    for i in validate_batch(ctx, 'TRACE_Conc', 'TRACE_Conc.cfg', runs, 'conc'):
        sig = res[i][2][:160]
        if sig in seen:
            continue
        seen.add(sig)
        again = False
        for k in range(4):
            r2 = run_mix(ctx, mixes[i], i, ms * 2, tag=f'repro{k}-')
            if validate_batch(ctx, 'TRACE_Conc', 'TRACE_Conc.cfg', [r2[0]], f'repro{i}-{k}'):
                again = True
                break
        what = f"mix {','.join(mixes[i])}: " + (res[i][2] or 'a call did not return / the process did not end cleanly')
        if not again:
            ctx.unreproduced.append({'what': what})
            continue
        path = save_replay(ctx, 'conc', {'mix': mixes[i], 'ms': ms * 2, 'detail': res[i][2], 'trace': runs[i]})
        ctx.violations.append({'what': what, 'replay': path})
        if len(ctx.violations) >= 5:
            break
    # binding self-test: a run with a goroutine that never finished / a race report must be rejected
    t = json.loads(json.dumps(runs[0]))
    t2 = [e for e in t if not (e.get('e') == 'done' and e.get('g') == 'g1')]
    t3 = [dict(e, races=1) if e.get('e') == 'exit' else e for e in t]
    if not validate_batch(ctx, 'TRACE_Conc', 'TRACE_Conc.cfg', [t2], 'selftest1') or \
       not validate_batch(ctx, 'TRACE_Conc', 'TRACE_Conc.cfg', [t3], 'selftest2'):
        raise Infra('binding self-test failed: a run with a missing return / a race report was accepted')
    ctx.notes['binding_selftest'] = 'run without one return rejected; run with a race report rejected'
    write_evidence(ctx, 'exploration',
                   'call mixes = every pair (thorough: plus seeded triples and quintuples) of the 14 public entry points, each looping in 2 '
                   'goroutines for 250-600 ms against one engine whose tiny memtable keeps switch/rotation/background flush and the compaction '
                   'worker busy; harness compiled with -race (halt on first report), watchdog on returns; the run summary is validated by TLC '
                   'against TRACE_Conc; KevoConc (lock sequences of the entry points, Go RWMutex semantics) is model-checked for deadlock '
                   'freedom and EveryCallReturns. distinct_nontrivial = distinct mixes',
                   extra={'exhaustive': False})


def replay_saved(ctx, payload):
    r = run_mix(ctx, payload['mix'], 0, payload.get('ms', 500), tag='replay')
    if validate_batch(ctx, 'TRACE_Conc', 'TRACE_Conc.cfg', [r[0]], 'replay'):
        return {'what': r[2] or 'a call did not return / the process did not end cleanly'}
    return None
