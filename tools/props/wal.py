"""C09 (the log replays exactly what was appended) and C10 (log damage is contained).

C09: KevoWal.tla model-checked exhaustively (MC_Wal); TLC simulation of GEN_Wal yields call sequences over the shape
classes the specification names, with the predicted result of ReplayWALDir / ReplayWALFile / GetEntriesFrom at the
observation steps; `kvh replay-wal` executes them on the wal package (3 byte seeds x 3 sync modes) and compares bytes.

C10: KevoWalReader.tla model-checked exhaustively (MC_WalReader); `kvh walfault` writes logs with the real writer,
enumerates truncations and altered bytes, opens each damaged copy with the real engine twice (with writes in between)
and prints one line per outcome; TLC judges every line with the operators of KevoWalReader (TRACE_WalReader)."""
import concurrent.futures as cf
import json
import os
import random
import re

from vlib import Infra, read_ndjson, save_replay, tlc_mc, tlc_sim, tlc_trace, write_ndjson, write_evidence, open_findings, ROOT, log

WORKERS = 14

# ======================================================================================= C09
SEED_CLASSES = [(0, 0), (1, 1), (2, 2)]          # (seed offset, WAL sync mode): none / batch / immediate


def wal_replay(ctx, behs, seed, sync, tag):
    d = ctx.sub(f'walreplay-{tag}')
    inp, out = os.path.join(d, 'in.ndjson'), os.path.join(d, 'out.ndjson')
    write_ndjson(inp, behs)
    ctx.run_kvh(['replay-wal', '-in', inp, '-out', out, '-work', os.path.join(d, 'w'), '-seed', str(seed), '-sync', str(sync)], timeout=1500)
    res = read_ndjson(out)
    if len(res) != len(behs):
        raise Infra(f'replay-wal {tag}: {len(res)} results for {len(behs)} behaviours')
    return res


def wal_replay_all(ctx, behs, tag, chunks=5):
    """every behaviour under every (seed, sync mode) class, in parallel; returns (results per class, mismatches)"""
    jobs = []
    size = max(1, (len(behs) + chunks - 1) // chunks)
    for ci, (so, sync) in enumerate(SEED_CLASSES):
        for c in range(0, len(behs), size):
            jobs.append((ci, c, behs[c:c + size], ctx.seed * 3 + so, sync))
    ok, bad = [], []

    def work(j):
        ci, c, part, seed, sync = j
        return j, wal_replay(ctx, part, seed, sync, f'{tag}-{ci}-{c}')
    with cf.ThreadPoolExecutor(max_workers=WORKERS) as ex:
        for (ci, c, part, seed, sync), res in ex.map(work, jobs):
            for r in res:
                if r.get('ok'):
                    ok.append(r)
                else:
                    bad.append({'mismatch': r, 'behaviour': part[r['b']], 'seed': seed, 'sync': sync})
    return ok, bad


def c09_reproduce(ctx, m, tag):
    again = 0
    for i in range(2):
        res = wal_replay(ctx, [m['behaviour']], m['seed'], m['sync'], f'{tag}-{i}')
        r = res[0]
        if not r.get('ok') and r.get('step') == m['mismatch'].get('step') and r.get('kind') == m['mismatch'].get('kind'):
            again += 1
    return again == 2


def c09_selftest(ctx, behs):
    """corrupted predictions must be noticed: (a) two entries swapped in a directory replay, (b) a sequence number
    changed, (c) an entry dropped from a GetEntriesFrom result.  Taken on behaviours that conform when uncorrupted.
    Returns False if no conforming behaviour was available (then the run must have reported disagreements)."""
    done = set()
    for beh in behs:
        if not wal_replay(ctx, [beh], ctx.seed, 0, 'selftest-base')[0].get('ok'):
            continue
        for i, st in enumerate(beh):
            if 'swap' not in done and st['o'] == 'disk' and len(st['rep']) >= 2:
                b2 = json.loads(json.dumps(beh))
                b2[i]['rep'][0], b2[i]['rep'][1] = b2[i]['rep'][1], b2[i]['rep'][0]
                r = wal_replay(ctx, [b2], ctx.seed, 0, 'selftest-swap')[0]
                if r.get('ok') or r.get('step') != i or r.get('kind') != 'replay':
                    raise Infra('binding self-test failed: swapped entries in a predicted replay were not noticed')
                done.add('swap')
            if 'seq' not in done and st['o'] == 'disk' and len(st['rep']) >= 1:
                b2 = json.loads(json.dumps(beh))
                b2[i]['rep'][-1]['s'] += 1
                r = wal_replay(ctx, [b2], ctx.seed, 0, 'selftest-seq')[0]
                if r.get('ok') or r.get('step') != i:
                    raise Infra('binding self-test failed: a changed sequence number in a predicted replay was not noticed')
                done.add('seq')
            if 'from' not in done and st['o'] == 'from' and any(len(x) >= 1 for x in st['from']):
                b2 = json.loads(json.dumps(beh))
                s = [k for k, x in enumerate(st['from']) if len(x) >= 1][-1]
                b2[i]['from'][s] = b2[i]['from'][s][:-1]
                r = wal_replay(ctx, [b2], ctx.seed, 0, 'selftest-from')[0]
                if r.get('ok') or r.get('step') != i or r.get('kind') != 'from':
                    raise Infra('binding self-test failed: an entry dropped from a predicted GetEntriesFrom result was not noticed')
                done.add('from')
            if len(done) == 3:
                ctx.notes['binding_selftest'] = 'swapped entries, a changed sequence number and a dropped GetEntriesFrom entry were each noticed at the corrupted step'
                return True
    return False


def c09_corpus():
    p = os.path.join(ROOT, 'corpus', 'wal.ndjson')
    return read_ndjson(p) if os.path.exists(p) else []


def check_C09(ctx):
    ctx.assumptions += ['bounded model: shape classes and bounds of the cfg files named under mc_runs',
                        'byte exactness is sampled: 3 byte styles (random / runs of 0x00,0xFF and small integers / images of valid log records) per shape and seed, not all byte strings',
                        'the physical layout (how many records an entry occupies) is compared with the specification as evidence only; the property is about what replay returns',
                        'one sequential caller; concurrent appends are C06/C07']
    tlc_mc(ctx, 'MC_Wal', 'MC_Wal_quick.cfg', timeout=280, tag='mc-wal-quick')
    if not ctx.quick():
        tlc_mc(ctx, 'MC_Wal', 'MC_Wal_thorough.cfg', timeout=1500, tag='mc-wal-thorough')
    n = 500 if ctx.quick() else 4000
    behs = tlc_sim(ctx, 'GEN_Wal', 'GEN_Wal.cfg', n, 60, ctx.seed * 7 + 3, timeout=600, tag='gen-wal')
    if not ctx.quick():
        behs += tlc_sim(ctx, 'GEN_Wal', 'GEN_Wal_long.cfg', 500, 150, ctx.seed * 7 + 4, timeout=900, tag='gen-wal-long')
    behs = c09_corpus() + behs
    ok, bad = wal_replay_all(ctx, behs, 'c09', chunks=5 if ctx.quick() else 14)
    # alignment sweep: files that start with one large delete ending 0..39 bytes around offset 65536 (the reader's buffer size),
    # so that the header of the next record sits at every position relative to that boundary
    align = tlc_sim(ctx, 'GEN_Wal', 'GEN_Wal_align.cfg', 1, 200, ctx.seed, timeout=600, tag='gen-wal-align')
    ok3, bad3 = wal_replay_all(ctx, align, 'c09-align', chunks=1)
    ok, bad = ok + ok3, bad + bad3
    ctx.notes['alignment_sweep'] = '40 files whose second record header starts at offsets 65497+14..65536+14 relative to a 64 KB read buffer boundary'
    # (on a tree that disagrees with the specification the self-test may be impossible: the disagreements are the verdict then)
    try:
        if not c09_selftest(ctx, behs[-40:]) and not bad:
            raise Infra('binding self-test: no suitable behaviour')
    except Infra:
        if not bad:
            raise
    sweeps = 0
    if not ctx.quick():
        sweep = tlc_sim(ctx, 'GEN_Wal', 'GEN_Wal_sweep.cfg', 1, 1000, ctx.seed, timeout=900, tag='gen-wal-sweep')
        ok2, bad2 = wal_replay_all(ctx, sweep, 'c09-sweep', chunks=1)
        ok, bad, sweeps = ok + ok2, bad + bad2, len(ok2) + len(bad2)
        ctx.notes['boundary_sweep'] = 'every payload length in [32700,32800] and [65480,65560] as a put (value carries the length) and as a delete (key carries it): %d entries per run, %d runs' % (ok2[0]['entries'] if ok2 else 0, sweeps)
    ctx.traces += len(ok) + len(bad)
    ctx.evaluations += sum(r.get('reads', 0) for r in ok)
    shapes = set()
    for b in behs:
        acts = [s['a'] for s in b]
        names = [sh['n'] for s in b for sh in s['sh']]
        shapes.update(names)
        frag = any(n > 1 for s in b for n in s['nrec'])
        if frag and any(a in ('rotate', 'reuse', 'newlog') for a in acts):
            ctx.nontrivial.add(' '.join(acts) + '|' + ','.join(names))
    ctx.notes['shapes_exercised'] = sorted(shapes)
    ctx.notes['entries_appended'] = sum(r.get('entries', 0) for r in ok)
    ctx.notes['fragmented_entries'] = sum(r.get('fragmented', 0) for r in ok)
    ctx.notes['layout_differs_from_specification'] = sum(1 for r in ok if not r.get('layout_as_predicted'))
    ctx.notes['reuse_declined_on_clean_log'] = sum(1 for r in ok if r.get('reuse_declined'))
    ctx.samples = [[{k: s[k] for k in ('a', 'sh', 'seq', 'o')} for s in behs[len(behs) // 2][:8]]]
    handled = set()
    for m in bad:
        mm = m['mismatch']
        sig = (mm.get('kind'), mm.get('a'), mm.get('msg'))
        if sig in handled:
            continue
        handled.add(sig)
        if not c09_reproduce(ctx, m, f'repro{len(handled)}'):
            ctx.unreproduced.append({'mismatch': mm})
            continue
        path = save_replay(ctx, 'wal', m)
        ctx.violations.append({'what': f"log replay: step {mm.get('step')} {mm.get('a')} [{mm.get('kind')}] {mm.get('msg', '')}: expected {mm.get('exp')}; got {mm.get('got')} "
                                       f"(byte seed {m['seed']}, sync mode {m['sync']})", 'replay': path})
        if len(ctx.violations) >= 5:
            break
    write_evidence(ctx, 'model_checking',
                   'KevoWal (writer fragmentation and reader re-assembly transcribed at record grain) is model-checked exhaustively for the '
                   'bounds under mc_runs; behaviours = call sequences over Append/AppendBatch/rotate/sync/close/ReuseWAL/NewWAL drawn by TLC '
                   'simulation of GEN_Wal over all 16 shape classes, each executed on the wal package under 3 (byte seed, sync mode) classes; at '
                   'every sync/rotate/close/reopen step ReplayWALDir and ReplayWALFile per file, at every "from" step GetEntriesFrom(s) for all s in '
                   '0..next+1 are compared byte for byte with the specification\'s prediction. traces = behaviour executions, evaluations = '
                   'read-backs compared, distinct_nontrivial = distinct call sequences holding a fragmented entry and a rotation or reopening')


# ======================================================================================= C10
KEYS = ['k1', 'k2', 'k3', 'k4', 'k5', 'k6', 'k7', 'k8', 'k9', 'forged']
# written after the first recovery.  The engine re-uses sequence numbers of entries lost behind the damage, so these entries
# must differ from every entry of the log in key or value to be told apart: k8/k9 and the values v8x/v9x occur nowhere else
POST = [{'op': 'put', 'k': 'k9', 'v': 'v90'}, {'op': 'put', 'k': 'k8', 'v': 'v80'}, {'op': 'del', 'k': 'k8'}, {'op': 'put', 'k': 'k4', 'v': 'v91'}]


def P(k, v, size=0, fill='rand'):
    return {'e': [{'op': 'put', 'k': k, 'v': v, 'size': size, 'fill': fill}]}


def D(k):
    return {'e': [{'op': 'del', 'k': k}]}


def B(*ops):
    return {'batch': True, 'e': [o['e'][0] for o in ops]}


def fixed_logs(interior):
    small = {'name': 'small', 'files': [[P('k1', 'v1'), P('k2', 'v2')],
                                        [P('k1', 'v3'), D('k2'), B(P('k3', 'v4'), P('k4', 'v5')), P('k2', 'v6'), D('k3')]]}
    # two fragmented entries with whole records between them, a batch, a fragmented entry at the very end
    frag = {'name': 'frag', 'files': [[P('k1', 'v1'), P('k2', 'v2')],
                                      [P('k1', 'v3'), P('k5', 'v50', 70000), D('k2'), P('k3', 'v4'), P('k6', 'v60', 33000), P('k2', 'v6'),
                                       B(P('k4', 'v5'), D('k1')), P('k7', 'v70', 32750), P('k3', 'v7')]]}
    # a value made of images of valid log records, placed so that a reader that skips 32 KB from the end of record 1 lands on one
    emb = {'name': 'embedded', 'files': [[P('k1', 'v1')],
                                         [P('k2', 'v2'), D('k1'), P('k5', 'v50', 60000, 'aligned:1'), P('k3', 'v3'), P('k6', 'v60', 40000, 'images'), P('k2', 'v6'), P('k7', 'v70', 70000, 'chunkentry'), D('k3')]]}
    # the whole log in ONE file (nothing else for replay to fall back on), ending in a batch
    single = {'name': 'single', 'files': [[P('k1', 'v1'), P('k2', 'v2'), D('k1'), P('k3', 'v3', 300), B(D('k2'), P('k5', 'v4'), P('k1', 'v5'))]]}
    logs = [small, single, frag, emb]
    for s in logs:
        s.update({'post': POST, 'keys': KEYS, 'interior': interior})
    return logs


def random_logs(seed, n, interior):
    rng = random.Random(seed)
    logs = []
    for i in range(n):
        vn = [0]

        def val():
            vn[0] += 1
            return 'v%d' % vn[0]

        def op():
            r = rng.random()
            k = rng.choice(KEYS[:7])
            if r < 0.35:
                return P(k, val())
            if r < 0.5:
                return D(k)
            if r < 0.65:
                return B(*[P(bk, val()) if rng.random() < 0.7 else D(bk) for bk in rng.sample(KEYS[:7], rng.randint(2, 3))])
            size = rng.choice([32750, 32768, 33000, 40000, 65600, 70000])
            return P(k, val(), size, rng.choice(['rand', 'rand', 'images', 'chunkentry']))
        nfiles = rng.randint(1, 3)
        files = [[op() for _ in range(rng.randint(1, 3))] for _ in range(nfiles - 1)] + [[op() for _ in range(rng.randint(3, 7))]]
        logs.append({'name': 'rnd%d' % i, 'files': files, 'post': POST, 'keys': KEYS, 'interior': interior})
    return logs


def run_log(ctx, spec, ex):
    """plan + all workers of one log; returns (log line, fault lines sorted by j)"""
    d = ctx.sub('wf-' + spec['name'])
    sp = os.path.join(d, 'spec.json')
    with open(sp, 'w') as f:
        json.dump(spec, f)
    plan = os.path.join(d, 'plan.ndjson')
    ctx.run_kvh(['walfault', '-spec', sp, '-work', os.path.join(d, 'plan'), '-seed', str(ctx.seed), '-plan', '-out', plan], timeout=300)
    pl = read_ndjson(plan)
    nfaults = pl[0]['nfaults']

    def work(w):
        out = os.path.join(d, f'out{w}.ndjson')
        try:
            p = ctx.run_kvh(['walfault', '-spec', sp, '-work', os.path.join(d, 'w'), '-seed', str(ctx.seed), '-worker', str(w), '-of', str(WORKERS),
                             '-out', out], timeout=400 if ctx.quick() else 1500, check=False)
            rc = p.returncode
        except Infra:
            rc = 'timeout'       # the code under test hung on one of this worker's faults: found below
        return w, rc, (read_ndjson(out) if os.path.exists(out) else [])
    futs = [ex.submit(work, w) for w in range(WORKERS)]
    return d, sp, nfaults, futs


def collect_log(ctx, spec, d, sp, nfaults, futs):
    logline, lines = None, {}
    for fu in futs:
        w, rc, res = fu.result()
        for r in res:
            if r.get('e') == 'log':
                logline = r
            elif r.get('e') == 'fault':
                lines[r['j']] = r
    # faults without an outcome: the worker died or hung inside the code under test - each is re-run alone; those that
    # again end without an outcome are recorded as failed openings
    missing = [j for j in range(nfaults) if j not in lines]
    plan = read_ndjson(os.path.join(d, 'plan.ndjson')) if missing else []
    dead = 0

    def alone(j):
        out = os.path.join(d, f'only{j}.ndjson')
        try:
            p = ctx.run_kvh(['walfault', '-spec', sp, '-work', os.path.join(d, f'o{j}'), '-seed', str(ctx.seed), '-only', str(j), '-out', out],
                            timeout=90, check=False)
            err = (p.stderr or '')[-400:]
        except Infra as e:
            err = 'no result within 90 s'
        res = [r for r in (read_ndjson(out) if os.path.exists(out) else []) if r.get('e') == 'fault']
        return j, res, err
    with cf.ThreadPoolExecutor(max_workers=WORKERS) as ex2:
        for b0 in range(0, len(missing), WORKERS):
            if dead >= 12:      # enough to report; the rest of this log's unfinished faults is not run
                ctx.notes.setdefault('faults_not_run', {})[spec['name']] = len(missing) - b0
                break
            for j, res, err in ex2.map(alone, missing[b0:b0 + WORKERS]):
                if logline is None and os.path.exists(os.path.join(d, f'only{j}.ndjson')):
                    ll = [r for r in read_ndjson(os.path.join(d, f'only{j}.ndjson')) if r.get('e') == 'log']
                    logline = ll[0] if ll else None
                if res:
                    lines[j] = res[0]
                    continue
                dead += 1
                ft = plan[1 + j]['fault']
                lines[j] = {'e': 'fault', 'log': spec['name'], 'j': j, 'fault': ft, 'dmg': ft['dmg'], 'open1': False, 'd1': [], 'st1': {},
                            'acked': False, 'open2': False, 'd2': [], 'st2': {}, 'kept': True,
                            'notes': ['the process that opened the damaged directory died or hung: ' + err]}
    if logline is None:
        raise Infra(f"walfault {spec['name']}: no layout line")
    return logline, [lines[j] for j in sorted(lines)]


REJ = re.compile(r'<<\s*"REJECT",\s*(\d+),\s*\{(.*?)\}\s*>>', re.S)


def judge(ctx, lines, tag):
    """TLC judges every fault line; returns {line index (0-based): [reasons]}"""
    tp = os.path.join(ctx.sub('traces'), tag + '.ndjson')
    slim = []
    for r in lines:
        if r['e'] == 'log':
            slim.append({k: r[k] for k in ('e', 'name', 'files', 'kv', 'keys', 'npost')})
        else:
            slim.append(dict({k: r[k] for k in ('e', 'j', 'dmg', 'open1', 'd1', 'st1', 'acked', 'open2', 'd2', 'st2', 'kept')},
                             g=r.get('g', r['d2']), gok=r.get('gok', True)))
    write_ndjson(tp, slim)
    ok, hw, st, out = tlc_trace(ctx, 'TRACE_WalReader', 'TRACE_WalReader.cfg', tp, timeout=900, tag=tag)
    if not ok or hw != len(lines) + 1:
        raise Infra(f'TRACE_WalReader did not judge every line (high-water {hw} of {len(lines)}):\n' + out[-3000:])
    rej = {}
    for m in REJ.finditer(out):
        rej[int(m.group(1)) - 1] = [x.split(':')[0] for x in re.findall(r'"([^"]*)"', m.group(2))]
    return rej


def fault_text(r):
    f = r['fault']
    how = 'no damage' if f['how'] == 'none' else (f"file {f['file']} cut to {f['off']} bytes" if f['how'] == 'cut' else f"file {f['file']} byte {f['off']} set to 0x{f['val']:02x}")
    d = r['dmg']
    cls = d['kind'] + (f" record {d['r']}" if d['kind'] != 'none' else '') + (f" -> {d['to']}" if d.get('to') else '')
    return f"log '{r['log']}': {how} ({cls})"


REASON_TEXT = {
    'open1': 'opening the damaged directory failed',
    'prefix1': 'an entry completely written in front of the damage was not recovered',
    'subseq1': 'replay delivered something that is not a subsequence of the appended entries (invented, altered, repeated or re-ordered)',
    'state1': 'the opened engine does not show the delivered entries',
    'ack': 'a write after the recovery failed',
    'open2': 'the second opening failed',
    'prefix2': 'an entry in front of the damage is gone after writes + second opening',
    'subseq2': 'the second replay delivered something that is not a subsequence of the appended entries',
    'post2': 'writes acknowledged after the recovery are not recovered by the next opening',
    'state2': 'the engine after the second opening does not show the delivered entries',
    'kept': 'an undamaged log file was removed or changed',
    'from1': 'WAL.GetEntriesFrom(1) on the live log does not yield what a replay of the directory yields (a joining replica is served something else than the primary recovered)',
}


def c10_known(prop, line, reasons):
    for k in open_findings(prop):
        pat = k.get('pattern', {})
        if pat.get('check') != 'walfault':
            continue
        if pat.get('reasons') and not set(reasons) <= set(pat['reasons']):
            continue
        if pat.get('dmg_kinds') and line['dmg']['kind'] not in pat['dmg_kinds']:
            continue
        if pat.get('logs') and line['log'] not in pat['logs']:
            continue
        if pat.get('note_contains') and not any(pat['note_contains'] in n for n in line.get('notes', [])):
            continue
        return k
    return None


def one_fault(ctx, spec, j, tag, seed=None):
    d = ctx.sub('wf-one-' + tag)
    sp = os.path.join(d, 'spec.json')
    with open(sp, 'w') as f:
        json.dump(spec, f)
    out = os.path.join(d, 'out.ndjson')
    seed = str(ctx.seed if seed is None else seed)
    err = ''
    try:
        p = ctx.run_kvh(['walfault', '-spec', sp, '-work', os.path.join(d, 'w'), '-seed', seed, '-only', str(j), '-out', out], timeout=120, check=False)
        err = (p.stderr or '')[-400:]
    except Infra:
        err = 'no result within 120 s'
    lines = read_ndjson(out) if os.path.exists(out) else []
    if len(lines) == 1 and lines[0].get('e') == 'log':
        # the process died or hung while handling the damaged directory: that is the outcome
        plan = os.path.join(d, 'plan.ndjson')
        ctx.run_kvh(['walfault', '-spec', sp, '-work', os.path.join(d, 'p'), '-seed', seed, '-plan', '-out', plan], timeout=300)
        ft = read_ndjson(plan)[1 + j]['fault']
        lines.append({'e': 'fault', 'log': spec['name'], 'j': j, 'fault': ft, 'dmg': ft['dmg'], 'open1': False, 'd1': [], 'st1': {}, 'acked': False,
                      'open2': False, 'd2': [], 'st2': {}, 'kept': True, 'notes': ['the process that opened the damaged directory died or hung: ' + err]})
    if len(lines) != 2:
        raise Infra(f'walfault -only {j}: {len(lines)} lines; {err}')
    return lines, judge(ctx, lines, 'one-' + tag)


def c10_selftest(ctx, loglines):
    """corrupted outcomes must be rejected by TLC: an entry in front of the damage dropped, an unknown entry delivered,
    two delivered entries swapped, a key's value changed, the post-recovery writes missing, a file reported gone"""
    logline, faults = loglines
    base = None
    for r in faults:
        if r['open1'] and r['open2'] and len(r['d1']) >= 3 and r['dmg']['kind'] != 'none' and r['dmg']['f'] >= 2 and r['d1'][0] == 1 and r['d1'] == sorted(set(r['d1'])) and 0 not in r['d1']:
            base = r
            break
    if base is None:
        return
    muts = []
    m = json.loads(json.dumps(base)); m['d1'] = m['d1'][1:]; muts.append(('prefix1', m))
    m = json.loads(json.dumps(base)); m['d1'] = m['d1'] + [0]; muts.append(('subseq1', m))
    m = json.loads(json.dumps(base)); m['d1'][0], m['d1'][1] = m['d1'][1], m['d1'][0]; muts.append(('subseq1', m))
    m = json.loads(json.dumps(base)); k = sorted(m['st1'])[0]; m['st1'][k] = 'v999'; muts.append(('state1', m))
    m = json.loads(json.dumps(base)); m['d2'] = m['d2'][:-1]; muts.append(('post2', m))
    m = json.loads(json.dumps(base)); m['kept'] = False; muts.append(('kept', m))
    m = json.loads(json.dumps(base)); m['g'] = m.get('g', m['d2'])[1:]; muts.append(('from1', m))
    m = json.loads(json.dumps(base)); m['open1'] = False; muts.append(('open1', m))
    rej = judge(ctx, [logline, base] + [x for _, x in muts], 'selftest')
    if 0 in rej or 1 in rej:
        return  # the base outcome itself is rejected on this tree: the self-test is taken on another log
    for i, (why, _) in enumerate(muts):
        if why not in rej.get(2 + i, []):
            raise Infra(f'binding self-test failed: a corrupted outcome ({why}) was accepted by TLC')
    ctx.notes['binding_selftest'] = 'corrupted outcomes (prefix entry dropped, unknown entry, swapped entries, changed value, lost post-recovery write, file gone, open failed) each rejected by TLC'


def check_C10(ctx):
    ctx.assumptions += ['one damage per run (a cut of the newest file, or one altered byte in any file)',
                        'a 32-bit checksum collision is not considered: a record read with an altered length is taken to fail verification',
                        'files larger than 4 KB: every header byte, the first 24 and last 4 payload bytes of every record and a seeded sample of the payload interior are damaged, not every byte',
                        'process-level damage model: what is on disk is exactly the damaged copy; no concurrent writer',
                        'entries behind the damage may or may not come back (the specification allows both); entries of later files likewise']
    tlc_mc(ctx, 'MC_WalReader', 'MC_WalReader_quick.cfg' if ctx.quick() else 'MC_WalReader_thorough.cfg', timeout=900 if ctx.quick() else 1500, tag='mc-walreader')
    interior = 40 if ctx.quick() else 120
    specs = fixed_logs(interior)
    specs += random_logs(ctx.seed, 2 if ctx.quick() else 56, 16 if ctx.quick() else 40)
    ctx.kvh()
    import time
    t0 = time.time()
    all_lines, owners, per_log = [], [], {}
    with cf.ThreadPoolExecutor(max_workers=WORKERS) as ex:
        started = [(s, run_log(ctx, s, ex)) for s in specs]
        for s, (d, sp, nfaults, futs) in started:
            logline, faults = collect_log(ctx, s, d, sp, nfaults, futs)
            per_log[s['name']] = (logline, faults)
            all_lines.append(logline)
            owners.append((s, None))
            for r in faults:
                all_lines.append(r)
                owners.append((s, r))
    ctx.traces += sum(1 for o in owners if o[1] is not None)
    ctx.evaluations = ctx.traces
    t1 = time.time()
    # TLC judges the outcomes in chunks of whole logs (a chunk starts with its "log" line), a few chunks at a time
    chunks, cur = [], []
    for i, (s, r) in enumerate(owners):
        if r is None and len(cur) >= 12000:
            chunks.append(cur)
            cur = []
        cur.append(i)
    chunks.append(cur)
    rej = {}
    with cf.ThreadPoolExecutor(max_workers=4) as ex:
        for ci, part in enumerate(ex.map(lambda a: judge(ctx, [all_lines[i] for i in a[1]], 'c10-%d' % a[0]), list(enumerate(chunks)))):
            for k, v in part.items():
                rej[chunks[ci][k]] = v
    ctx.notes['seconds'] = {'enumeration': round(t1 - t0, 1), 'tlc_judging': round(time.time() - t1, 1)}
    for s, r in owners:
        if r is not None:
            d = r['dmg']
            ctx.nontrivial.add((r['log'], d['kind'], d['f'], d['r'], d.get('to', '')))
    ctx.notes['faults_per_log'] = {n: len(f) for n, (l, f) in per_log.items()}
    ctx.notes['damage_classes'] = sorted({r['dmg']['kind'] for s, r in owners if r is not None})
    ctx.notes['outcomes_rejected'] = len(rej)
    ctx.samples = [{k: r[k] for k in ('log', 'fault', 'd1', 'd2', 'st2')} for s, r in owners[1:] if r is not None][:3]
    try:
        for name in ('small', 'frag', 'embedded', 'single'):
            if name in per_log and 'binding_selftest' not in ctx.notes:
                c10_selftest(ctx, per_log[name])
    except Infra:
        if not rej:     # on a tree that disagrees the self-test may be impossible: the disagreements are the verdict then
            raise
    if 'binding_selftest' not in ctx.notes and not rej:
        raise Infra('binding self-test: no suitable outcome')
    # group the rejected outcomes: one representative per (log, damage class, retyped-to, reasons)
    groups = {}
    for i in sorted(rej):
        s, r = owners[i]
        key = (r['log'], r['dmg']['kind'], r['dmg'].get('to', ''), tuple(sorted(rej[i])))
        groups.setdefault(key, []).append((s, r, rej[i]))
    ctx.notes['rejected_groups'] = [{'log': k[0], 'damage': k[1], 'to': k[2], 'reasons': list(k[3]), 'count': len(v)} for k, v in groups.items()]
    for key, members in groups.items():
        s, r, reasons = members[0]
        again = 0
        for t in range(2):
            lines, rj = one_fault(ctx, s, r['j'], f"repro-{r['log']}-{r['j']}-{t}")
            if set(rj.get(1, [])) & set(reasons):
                again += 1
        what = fault_text(r) + ': ' + '; '.join(REASON_TEXT.get(x, x) for x in reasons) + \
            (' [' + ' | '.join(r.get('notes', [])[:2])[:300] + ']' if r.get('notes') else '') + f' ({len(members)} such outcomes)'
        if again < 2:
            ctx.unreproduced.append({'what': what})
            continue
        k = c10_known('C10', r, reasons)
        if k:
            if k['id'] not in ctx.known_seen:
                ctx.known_seen.append(k['id'])
            continue
        path = save_replay(ctx, 'walfault', {'spec': s, 'j': r['j'], 'seed': ctx.seed, 'fault': r['fault'], 'reasons': reasons, 'outcome': r})
        ctx.violations.append({'what': what, 'replay': path})
        if len(ctx.violations) >= 8:
            break
    write_evidence(ctx, 'fault_enumeration',
                   'KevoWalReader (reader at record grain, every damage descriptor, reopen + append + second replay) is model-checked exhaustively for '
                   'the bounds under mc_runs. Fault enumeration on the real code: logs written by the real writer (small entries, a batch, entries of 2-4 '
                   'fragments, values made of record / entry images); positions = every byte of a newest file up to 4 KB, for larger files every header byte, the '
                   'first 24 and last 4 payload bytes of each record and a seeded interior sample; per position of the newest file a truncation at that offset '
                   'and the byte set to low-bit-flipped / 0x00 / 0xFF (type bytes: also every other type code); older files: altered header / entry-header '
                   'bytes. Per fault: ReplayWALDir, engine open, every key read, 4 further writes, close, ReplayWALDir, second open, every key read, files compared. Each '
                   'outcome is one trace line judged by TLC with the operators of KevoWalReader. traces = outcomes judged; distinct_nontrivial = distinct '
                   '(log, damage class, file, record, new type) descriptors reached',
                   extra={'exhaustive': False})


# ======================================================================================= replay of saved cases
def replay_saved(ctx, payload):
    if 'spec' in payload:           # C10
        lines, rj = one_fault(ctx, payload['spec'], payload['j'], 'replay', payload.get('seed'))
        if lines[1]['fault'] != payload['fault']:
            raise Infra('the saved fault number no longer denotes the same fault (harness plan changed)')
        if rj.get(1):
            return {'what': fault_text(lines[1]) + ': ' + '; '.join(REASON_TEXT.get(x, x) for x in rj[1]), 'outcome': lines[1]}
        return None
    res = wal_replay(ctx, [payload['behaviour']], payload['seed'], payload['sync'], 'replay')
    return None if res[0].get('ok') else res[0]
