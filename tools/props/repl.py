"""C13, C14, C15: KevoRepl model-checked (safety, liveness, primary-only fairness); bound to pkg/replication by
(1) deterministic component replay of TLC-generated delivery schedules into the real WALBatchApplier through the real
wire encoding, (2) system scenarios - a real primary engine and a real replica engine wired like cmd/kevo over loopback
TCP - whose recorded traces TLC validates against TRACE_Repl, (3) fault scenarios with a misbehaving StreamWAL client."""
import concurrent.futures as cf
import copy
import json
import os
import random
import shutil
import subprocess

import vlib
from vlib import Infra, read_ndjson, write_ndjson, save_replay, tlc_mc, tlc_sim, validate_batch, write_evidence, open_findings, log

ROOT = vlib.ROOT
# harness files of this module that may not be listed in harness/INTEGRATED yet (vlib compiles INTEGRATED + $VERIF_HARNESS_EXTRA)
os.environ['VERIF_HARNESS_EXTRA'] = ','.join(sorted(set(x for x in os.environ.get('VERIF_HARNESS_EXTRA', '').split(',') if x) |
                                                    {f for f in ('replchurn.go', 'replgated.go', 'replsend.go')
                                                     if os.path.exists(os.path.join(ROOT, 'harness', 'cmd', 'kvh', f))}))
BAD = ('error',)          # events TLC has no action for at all; hang / noconv are left to TLC (a finding's action may accept them)

# Open findings this module knows how to recognise (proposed entries for known_findings.json; used as they are when the
# file does not list them yet, so that the check behaves the same before and after registration)
PROPOSED = [
    {'status': 'open', 'property': 'C13', 'id': 'KF_C13_restart_from_one',
     'what': 'a restarted replica starts again at sequence 0 (Manager.startReplica): the primary\'s log is applied a second time from its '
             'first entry on top of the replica\'s data, so the replica passes through states that are no prefix state and reports an '
             'applied sequence that fell back to 0',
     'pattern': {'trace_cfg': 'TRACE_Repl_kf_restart.cfg', 'tla_action': 'TRACE_Repl!TRestartFromOne'},
     'witness': 'findings/KF_C13_restart_from_one.json',
     'why_not_fixed': 'needs a durable record of the applied primary sequence on the replica (the replica engine numbers its own log '
                      'independently and splits primary batches), i.e. a new persistent artefact and a recovery rule'},
    {'status': 'open', 'property': 'C15', 'id': 'KF_C15_stalled_reader_blocks_primary',
     'what': 'a StreamWAL client that stops reading blocks the primary: stream.Send runs inside wal.Append/AppendBatch (observer '
             'notification) under the WAL mutex and the storage write lock, so Put - and Get and Commit with it - never return once the '
             'stream window is full',
     'pattern': {'trace_cfg': 'TRACE_Repl_kf_stall.cfg', 'tla_action': 'TRACE_Repl!THangStalled'},
     'witness': 'findings/KF_C15_stalled_reader_blocks_primary.json',
     'why_not_fixed': 'needs the send path decoupled from the append path (bounded per-session queue drained by a sender goroutine, '
                      'overflow disconnects the session: KevoRepl!PushSend/Overflow) - a redesign of Primary'},
    {'status': 'open', 'property': 'C15', 'id': 'KF_C15_stalled_reader_not_dropped',
     'what': 'a StreamWAL client that never reads is never dropped from the topology the primary reports: the session\'s LastActivity is '
             'refreshed by the primary\'s own (locally buffered) heartbeat sends, so the heartbeat time-out never fires',
     'pattern': {'trace_cfg': 'TRACE_Repl_kf_topo.cfg', 'tla_action': 'TRACE_Repl!TTopoStalledStays'},
     'witness': 'findings/KF_C15_stalled_reader_not_dropped.json',
     'why_not_fixed': 'session liveness has to be derived from the replica (acknowledgements), but the replica does not acknowledge while '
                      'streaming; belongs to the same redesign'},
]


PROPOSED.append(dict(PROPOSED[0], property='C14'))


def findings_for(prop):
    reg = open_findings(prop)
    ids = {k['id'] for k in reg}
    return reg + [k for k in PROPOSED if k['property'] == prop and k['id'] not in ids]


def note_known(ctx, k):
    if k['id'] not in ctx.known_seen:
        ctx.known_seen.append(k['id'])
        if k['id'] not in {x['id'] for x in open_findings(ctx.prop)}:
            # not registered in known_findings.json yet: the check driver cannot print the line
            print(f"KNOWN-FINDING: property={ctx.prop} {k['what']}", flush=True)


# ------------------------------------------------------------------------------------------- model checking
def mc(ctx, cfgs, negatives=()):
    for module, cfg, to in cfgs:
        tlc_mc(ctx, module, cfg, timeout=to)
    for module, cfg, expect in negatives:
        bad, st, out = tlc_mc(ctx, module, cfg, timeout=200, expect_violation=True, tag='neg-' + cfg.replace('.cfg', ''))
        if not bad or expect not in out:
            raise Infra(f'model sensitivity: {cfg} was expected to violate {expect} but did not:\n' + out[-1500:])
        ctx.notes.setdefault('model_sensitivity', []).append(f'{cfg}: {expect} violated as expected')


# ------------------------------------------------------------------------------------- C13 component replay
CLASSES = ['ascii', 'binary', 'big']


def gen_schedules(ctx, n, rounds):
    behs = []
    for r in range(rounds):
        got = tlc_sim(ctx, 'GEN_Repl', 'GEN_Repl.cfg', num=n, depth=500, seed=ctx.seed * 1000 + r, timeout=280, tag=f'gen-repl-{r}')
        behs += got
    seen, res = set(), []
    for b in behs:
        key = json.dumps(b, sort_keys=True)
        if key not in seen:
            seen.add(key)
            res.append(b)
    for i, b in enumerate(res):
        b['id'] = i + 1
    return res


def replay_schedules(ctx, behs, cls, tag):
    d = ctx.sub('apply-' + tag)
    inp, out = os.path.join(d, 'beh.ndjson'), os.path.join(d, 'res.ndjson')
    write_ndjson(inp, behs)
    ctx.run_kvh(['repl-apply', '-in', inp, '-out', out, '-seed', str(ctx.seed), '-class', cls], timeout=600)
    res = read_ndjson(out)
    if len(res) != len(behs):
        raise Infra(f'component replay returned {len(res)} results for {len(behs)} schedules')
    return res


def component(ctx, n, rounds):
    behs = gen_schedules(ctx, n, rounds)
    nmsg = sum(1 for b in behs for e in b['ev'] if e['a'] == 'msg')
    ngap = sum(1 for b in behs for e in b['ev'] if e['a'] == 'msg' and not e['ok'])
    nbatch = sum(1 for b in behs if any(b['plog'][i] == b['plog'][i + 1] for i in range(len(b['plog']) - 1)))
    fails_ev = [(b, e) for b in behs for e in b['ev'] if e['a'] == 'fail']
    # a failure BEHIND the first entry of a same-sequence batch (transaction): the case entry-by-entry bookkeeping gets wrong
    nfail_tx = sum(1 for b, e in fails_ev if e['x'] > 0 and b['plog'][e['lo'] + e['x'] - 1] == b['plog'][e['lo'] + e['x'] - 2])
    if not behs or ngap == 0 or nbatch == 0 or ngap == nmsg or nfail_tx == 0:
        raise Infra(f'vacuous schedule generation: {len(behs)} schedules, {nmsg} messages, {ngap} gaps, {nbatch} with batches, '
                    f'{len(fails_ev)} apply failures ({nfail_tx} inside a transaction)')
    ctx.notes['schedules'] = {'schedules': len(behs), 'messages': nmsg, 'refused_as_gap': ngap, 'with_same_sequence_batches': nbatch,
                              'apply_failures': len(fails_ev), 'apply_failures_inside_a_transaction': nfail_tx,
                              'restarts': sum(1 for b in behs for e in b['ev'] if e['a'] == 'restart')}
    ctx.samples.append({'plog': behs[0]['plog'], 'ev': behs[0]['ev'][:10]})
    fails = []
    for ci, cls in enumerate(CLASSES):
        part = behs[ci::len(CLASSES)]
        res = replay_schedules(ctx, part, cls, cls)
        ctx.traces += len(part)
        ctx.evaluations += sum(len(b['ev']) for b in part)
        for b, r in zip(part, res):
            ctx.nontrivial.add(('sched', json.dumps([(e['a'], e['lo'], e['hi']) for e in b['ev']]), tuple(b['plog'])))
            if not r.get('pass'):
                fails.append((cls, b, r))
    # binding self-test: a wrong prediction must be noticed
    b0 = next(b for b in behs if any(e['a'] == 'msg' and e['ok'] for e in b['ev']))
    for mutate, name in ((lambda e: e.update(n=e['n'] + 1), 'applied count + 1'), (lambda e: e.update(ok=False), 'accepted -> gap'),
                         (lambda e: e.update(e=e['e'] + 1), 'expected + 1')):
        b1 = copy.deepcopy(b0)
        mutate(next(e for e in b1['ev'] if e['a'] == 'msg' and e['ok']))
        if replay_schedules(ctx, [b1], 'ascii', 'selftest')[0].get('pass'):
            raise Infra(f'binding self-test failed: a corrupted prediction ({name}) was not noticed by the component replay')
    bf, ef = next((b, e) for b, e in fails_ev if e['x'] > 0)
    for mutate, name in ((lambda e: e.update(e=e['e'] + 1), 'expected + 1 after a failed message'), (lambda e: e.update(n=e['n'] + 1), 'applied count + 1 after a failed message')):
        b1 = copy.deepcopy(bf)
        mutate(b1['ev'][bf['ev'].index(ef)])
        if replay_schedules(ctx, [b1], 'ascii', 'selftest')[0].get('pass'):
            raise Infra(f'binding self-test failed: a corrupted prediction ({name}) was not noticed by the component replay')
    ctx.notes['binding_selftest_component'] = 'corrupted predictions (applied count, accepted/gap, expected) are reported by the replay'
    for cls, b, r in fails[:3]:
        # deterministic: re-execute twice
        again = [replay_schedules(ctx, [b], cls, 'repro')[0] for _ in range(2)]
        what = f"component replay ({cls}, step {r.get('step')}): {r.get('what')}: got {r.get('got')}, specification says {r.get('want')}"
        if all(not a.get('pass') for a in again):
            ctx.violations.append({'what': what, 'replay': save_replay(ctx, 'sched', {'beh': b, 'class': cls})})
        else:
            ctx.unreproduced.append({'what': what})
    return behs


# ------------------------------------------------------------------------------- C13 sender-side component check
def sender_programs(ctx, n_gen):
    t3 = lambda a, b, c: [{'k': 'k1', 'v': a}, {'k': 'k2', 'v': b}, {'k': 'k3', 'v': c}]
    s1 = lambda k, v: {'a': 'w', 'op': [{'k': k, 'v': v}]}
    many = [s1('k%d' % (i % 3 + 1), 'v%d' % (i % 9 + 1)) for i in range(99)]
    progs = [
        # the 1 MB volume cut of a catch-up chunk must not fall inside a transaction (400 KB values)
        ('giant', [s1('k1', 'v1'), {'a': 'w', 'op': t3('v2', 'v3', 'v4')}, s1('k2', 'v5'), {'a': 'att'}]),
        ('giant', [s1('k1', 'v1'), s1('k2', 'v2'), {'a': 'abn', 'op': t3('v2', 'v3', 'v4')}, {'a': 'ab', 'op': t3('v5', 'v6', 'v7')}, {'a': 'att'},
                   {'a': 'sleep', 'ms': 150}, {'a': 'w', 'op': t3('v8', 'v9', 'v1')}]),
        # the 100-entry cut
        ('ascii', many + [{'a': 'w', 'op': t3('v1', 'v2', 'v3')}, s1('k1', 'TOMB'), {'a': 'att'}]),
        ('ascii', many[:98] + [{'a': 'ab', 'op': t3('v1', 'v2', 'v3')}] + many[:40] + [{'a': 'att'}]),
        # pushed batches: over the 256 KB batcher limit, numbered / un-numbered ApplyBatch, rotation in between
        ('huge', [{'a': 'att'}, {'a': 'sleep', 'ms': 150}, {'a': 'w', 'op': t3('v1', 'v2', 'v3')}, {'a': 'sleep', 'ms': 50}, s1('k1', 'v4'),
                  {'a': 'abn', 'op': t3('v5', 'TOMB', 'v6')}, {'a': 'ab', 'op': t3('v7', 'v8', 'v9')}, {'a': 'flush'}, s1('k2', 'v1'),
                  {'a': 'w', 'op': t3('v2', 'v2', 'v2')}]),
        # pushed batches of more than 100 entries (attached and caught up), then the same as a backlog for the catch-up
        ('ascii', [{'a': 'att'}, s1('k1', 'v1'), {'a': 'sleep', 'ms': 250}, {'a': 'w', 'op': long_batch(150, 0, 'k1')}, {'a': 'sleep', 'ms': 150},
                   s1('k2', 'v2'), {'a': 'abn', 'op': long_batch(120, 3, 'k2')}, {'a': 'ab', 'op': long_batch(101, 5)}, {'a': 'det'},
                   {'a': 'w', 'op': long_batch(130, 7)}, s1('k3', 'v3'), {'a': 'ab', 'op': long_batch(110, 2, 'k3')}, {'a': 'att'}]),
        # rotation while the session is still catching up a backlog of several chunks, more chunks written behind it
        ('ascii', [{'a': 'ab', 'op': long_batch(104 + i, i)} for i in range(6)] + [{'a': 'att'}, {'a': 'sleep', 'ms': 160}, {'a': 'flush'}] +
         [{'a': 'w', 'op': long_batch(103 + i, 3 + i)} for i in range(3)] + [s1('k1', 'v1')]),
        # detach / re-attach from the applied position with a backlog
        ('ascii', [s1('k1', 'v1'), {'a': 'att'}, s1('k2', 'v2'), {'a': 'flush'}, s1('k3', 'v3'), {'a': 'det'}, {'a': 'w', 'op': t3('v4', 'v5', 'v6')},
                   s1('k1', 'v7'), {'a': 'att'}, {'a': 'sleep', 'ms': 120}, {'a': 'abn', 'op': t3('v8', 'v9', 'TOMB')}]),
    ]
    rng = random.Random(ctx.seed * 131 + 3)
    behs = tlc_sim(ctx, 'GEN_ReplSys', 'GEN_ReplSys_restart.cfg', num=max(8, n_gen * 2), depth=700, seed=ctx.seed * 91 + 2, timeout=200, tag='gen-send')
    behs = [b for b in behs if sum(1 for e in b if e['a'] == 'w') >= 3][:n_gen]
    for i, b in enumerate(behs):
        steps = []
        for st in concretise(b, rng, [None, 0.5, 1.0, 0.25][i % 4]):
            if st['a'] == 'join':
                steps.append({'a': 'att'})
            elif st['a'] == 'rrestart':
                steps += [{'a': 'det'}, {'a': 'att'}]
            elif st['a'] == 'sleep':
                steps.append({'a': 'sleep', 'ms': rng.choice([5, 40, 130])})
            elif st['a'] != 'cwr':
                steps.append(st)
        progs.append((['ascii', 'ascii', 'huge', 'binary', 'giant'][i % 5] if i % 5 != 4 or i % 10 == 4 else 'ascii', steps))
    return [{'id': i + 1, 'class': c, 'steps': st} for i, (c, st) in enumerate(progs)]


def run_sender(ctx, progs, tag):
    d = ctx.sub('send-' + tag)
    inp, out = os.path.join(d, 'progs.ndjson'), os.path.join(d, 'trace.ndjson')
    write_ndjson(inp, progs)
    p = ctx.run_kvh(['repl-send', '-dir', os.path.join(d, 'db'), '-in', inp, '-out', out, '-seed', str(ctx.seed)], timeout=600, check=False)
    runs, cur = [], None
    for e in (read_ndjson(out) if os.path.exists(out) else []):
        if e['e'] == 'reset':
            cur = [e]
            runs.append(cur)
        elif cur is not None:
            cur.append(e)
    if p.returncode != 0 or len(runs) != len(progs):
        raise Infra(f'sender component harness failed (rc={p.returncode}, {len(runs)} of {len(progs)} programs): {p.stderr[-500:]}')
    shutil.rmtree(os.path.join(d, 'db'), ignore_errors=True)
    return runs


def sender(ctx, n_gen):
    progs = sender_programs(ctx, n_gen)
    parts = [progs[i::4] for i in range(4)]
    runs = [None] * len(progs)
    with cf.ThreadPoolExecutor(max_workers=4) as ex:
        for pi, rs in enumerate(ex.map(lambda a: run_sender(ctx, a[1], f'p{a[0]}'), enumerate(parts))):
            for j, r in enumerate(rs):
                runs[pi + 4 * j] = r
    ctx.traces += len(runs)
    ctx.evaluations += sum(1 for r in runs for e in r if e['e'] == 'm')
    msgs = [e for r in runs for e in r if e['e'] == 'm']
    ctx.notes['sender_component'] = {'programs': len(progs), 'messages': len(msgs), 'multi_batch_messages': sum(1 for e in msgs if len({x['seq'] for x in e['ents']}) > 1),
                                     'messages_with_same_sequence_batches': sum(1 for e in msgs if len(e['ents']) > len({x['seq'] for x in e['ents']})),
                                     'refused_as_gap': sum(1 for e in msgs if not e['ok']), 'attachments': sum(1 for r in runs for e in r if e['e'] == 'att')}
    if not msgs or not any(len(e['ents']) > len({x['seq'] for x in e['ents']}) for e in msgs):
        raise Infra('vacuous sender component run: no message with a multi-entry batch')
    for p, r in zip(progs, runs):
        ctx.nontrivial.add(('send', p['id'], json.dumps([[x['seq'] for x in e['ents']] for e in r if e['e'] == 'm'])))
    for i in validate_batch(ctx, 'TRACE_ReplSend', 'TRACE_ReplSend.cfg', runs, 'send', bad_events=BAD)[:4]:
        again = sum(1 for k in range(2) if validate_batch(ctx, 'TRACE_ReplSend', 'TRACE_ReplSend.cfg', run_sender(ctx, [progs[i]], f'repro{i}-{k}'),
                                                         f'send-repro{i}-{k}', bad_events=BAD))
        bad = [e for e in runs[i] if e['e'] == 'error']
        fin = [e for e in runs[i] if e['e'] == 'fin']
        what = f"sender component, program {progs[i]['id']} ({progs[i]['class']}): " + (
            bad[0].get('msg', '') if bad else 'the messages put on the stream are not ranges of whole batches of the primary log that hand the replica '
            f"every entry once, in order (log entries handed over: {fin[0]['n'] if fin else '?'} of {sum(len(e['op']) for e in runs[i] if e['e'] == 'w')}; "
            f"messages as (sequence x entries): {[[(q, sum(1 for x in e['ents'] if x['seq'] == q)) for q in sorted({x['seq'] for x in e['ents']})] for e in runs[i] if e['e'] == 'm'][:8]})")
        if again:
            ctx.violations.append({'what': what, 'replay': save_replay(ctx, 'send', {'prog': progs[i], 'trace': runs[i]})})
        else:
            ctx.unreproduced.append({'what': what})
    # binding self-test: a message that ends inside a batch / a final count that is short must be rejected
    r0 = next(r for r in runs if any(e['e'] == 'm' and e['ok'] and len(e['ents']) > len({x['seq'] for x in e['ents']}) and
                                     e['ents'][-1]['seq'] == e['ents'][-2]['seq'] for e in r) and r[-1]['e'] == 'fin')
    r1 = copy.deepcopy(r0)
    next(e for e in r1 if e['e'] == 'm' and e['ok'] and len(e['ents']) > 1 and e['ents'][-1]['seq'] == e['ents'][-2]['seq'])['ents'].pop()
    r2 = copy.deepcopy(r0)
    r2[-1]['n'] -= 1
    for rr, name in ((r1, 'message that ends inside a batch'), (r2, 'short final count')):
        if not validate_batch(ctx, 'TRACE_ReplSend', 'TRACE_ReplSend.cfg', [rr], 'send-selftest', bad_events=BAD):
            raise Infra(f'binding self-test failed: a sender trace with a {name} was accepted')
    ctx.notes['binding_selftest_sender'] = 'sender traces with a message that ends inside a batch / a short final count are rejected by TLC'


# --------------------------------------------------------------------------------------- system scenarios
SYSCFG = {
    'mid': '{"memtable_size":1048576,"max_memtables":4,"sync_mode":0,"compact_sec":3600}',
    'tiny': '{"memtable_size":600,"max_memtables":4,"sync_mode":0,"compact_sec":3600}',
    'bigval': '{"memtable_size":200000,"max_memtables":4,"sync_mode":2,"compact_sec":3600}',
}


def long_batch(n, voff=0, delete=None):
    """A batch longer than the 100-entry chunk of the senders: n puts over n distinct keys (+ one delete)."""
    op = [{'k': 'l%03d' % i, 'v': 'v%d' % ((i + voff) % 9 + 1)} for i in range(1, n + 1)]
    return op + ([{'k': delete, 'v': 'TOMB'}] if delete else [])


def concretise(beh, rng, move_join=None):
    """Behaviour of GEN_ReplSys -> steps of the driver.  Keys/values are drawn from the seed; a 'sync' becomes a pause."""
    steps = []
    for e in beh:
        if e['a'] == 'w':
            op = []
            for _ in range(e['n']):
                op.append({'k': 'k%d' % rng.randint(1, 3), 'v': rng.choice(['TOMB', 'TOMB'] + ['v%d' % i for i in range(1, 10)])})
            # a batch reaches the log through Transaction.Commit or through Engine.ApplyBatch, whose entries may carry no number
            # ("ab") or the number the batch is about to get ("abn") in their SequenceNumber field
            api = 'w' if e['n'] == 1 else rng.choice(['w', 'w', 'ab', 'abn'])
            if e['n'] >= 3 and rng.random() < 0.12:
                # the model's batch that is longer than its chunk, at the size of the code's chunk: > 100 entries
                op = long_batch(101 + rng.randint(0, 60), rng.randint(0, 8), rng.choice([None, 'k1', 'k2']))
            steps.append({'a': api, 'op': op})
        elif e['a'] == 'sync':
            steps.append({'a': 'sleep', 'ms': rng.choice([60, 150, 400, 1200])})
        else:
            steps.append({'a': e['a']})
    if move_join is not None and any(s['a'] == 'join' for s in steps) and not any(s['a'] in ('rrestart',) for s in steps):
        # Reconnect is enabled at any moment of a behaviour: the join may come anywhere (client writes on the replica follow it)
        rest = [s for s in steps if s['a'] not in ('join', 'cwr')]
        pos = int(len(rest) * move_join)
        steps = rest[:pos] + [{'a': 'join'}] + rest[pos:] + [s for s in steps if s['a'] == 'cwr']
    return steps


def fixed_scenarios():
    """Regression classes named in the property text that random generation rarely hits."""
    many = [{'a': 'w', 'op': [{'k': 'k%d' % (i % 3 + 1), 'v': 'v%d' % (i % 9 + 1)}]} for i in range(99)]
    many.append({'a': 'w', 'op': [{'k': 'k1', 'v': 'v1'}, {'k': 'k2', 'v': 'v2'}, {'k': 'k3', 'v': 'v3'}]})
    many += [{'a': 'w', 'op': [{'k': 'k2', 'v': 'TOMB'}]}]
    single_after_idle = [{'a': 'join'}, {'a': 'sleep', 'ms': 2500}, {'a': 'w', 'op': [{'k': 'k1', 'v': 'v1'}]}]
    txn_push = [{'a': 'join'}, {'a': 'sleep', 'ms': 1500},
                {'a': 'w', 'op': [{'k': 'k1', 'v': 'v1'}, {'k': 'k2', 'v': 'v2'}, {'k': 'k3', 'v': 'v3'}]}, {'a': 'sleep', 'ms': 700},
                {'a': 'w', 'op': [{'k': 'k1', 'v': 'TOMB'}, {'k': 'k2', 'v': 'v5'}]}, {'a': 'w', 'op': [{'k': 'k3', 'v': 'v4'}]}]
    flush_between = [{'a': 'join'}, {'a': 'sleep', 'ms': 1200}, {'a': 'w', 'op': [{'k': 'k1', 'v': 'v1'}]}, {'a': 'w', 'op': [{'k': 'k2', 'v': 'v2'}]},
                     {'a': 'sleep', 'ms': 800}, {'a': 'flush'}, {'a': 'w', 'op': [{'k': 'k3', 'v': 'v3'}]}, {'a': 'flush'},
                     {'a': 'w', 'op': [{'k': 'k1', 'v': 'v4'}, {'k': 'k2', 'v': 'TOMB'}]}, {'a': 'sleep', 'ms': 500}, {'a': 'w', 'op': [{'k': 'k2', 'v': 'v5'}]}]
    t3 = lambda a, b, c: [{'k': 'k1', 'v': a}, {'k': 'k2', 'v': b}, {'k': 'k3', 'v': c}]
    # batches written WHILE the replica is connected and idle (push path): three 100 KB values exceed the 256 KB limit of the
    # push batcher; ApplyBatch entries may carry the batch's number
    big_push = [{'a': 'join'}, {'a': 'sleep', 'ms': 1500}, {'a': 'w', 'op': t3('v1', 'v2', 'v3')}, {'a': 'sleep', 'ms': 600},
                {'a': 'w', 'op': [{'k': 'k2', 'v': 'v4'}]}, {'a': 'sleep', 'ms': 600}, {'a': 'abn', 'op': t3('v5', 'TOMB', 'v6')},
                {'a': 'sleep', 'ms': 600}, {'a': 'ab', 'op': [{'k': 'k1', 'v': 'v7'}, {'k': 'k2', 'v': 'v8'}]}]
    numbered = [{'a': 'join'}, {'a': 'sleep', 'ms': 1500}, {'a': 'abn', 'op': t3('v1', 'v2', 'v3')}, {'a': 'sleep', 'ms': 700},
                {'a': 'w', 'op': [{'k': 'k1', 'v': 'v4'}]}, {'a': 'abn', 'op': t3('TOMB', 'v5', 'v6')}, {'a': 'sleep', 'ms': 400},
                {'a': 'ab', 'op': t3('v7', 'v8', 'TOMB')}, {'a': 'w', 'op': t3('v9', 'v1', 'v2')}]
    # catch-up over a backlog whose 1 MB mark falls inside a transaction (100 KB values: 9 singles, then a 3-entry transaction)
    vol = [{'a': 'w', 'op': [{'k': 'k%d' % (i % 3 + 1), 'v': 'v%d' % (i % 9 + 1)}]} for i in range(9)]
    vol += [{'a': 'w', 'op': t3('v4', 'v5', 'v6')}, {'a': 'w', 'op': [{'k': 'k1', 'v': 'v7'}]}, {'a': 'join'}]
    # restart on the same data directory after a multi-entry transaction, with writes (singles and a transaction) while the replica
    # is down: the replica numbers its own log per ENTRY, the primary per batch - any resume position derived from the local log is wrong
    restart = [{'a': 'join'}, {'a': 'sleep', 'ms': 1200}, {'a': 'w', 'op': t3('v1', 'v2', 'v3')}, {'a': 'w', 'op': [{'k': 'k1', 'v': 'v4'}]},
               {'a': 'w', 'op': [{'k': 'k2', 'v': 'TOMB'}]}, {'a': 'sleep', 'ms': 1500}, {'a': 'rstop'},
               {'a': 'w', 'op': [{'k': 'k3', 'v': 'v5'}]}, {'a': 'w', 'op': [{'k': 'k3', 'v': 'v6'}]},
               {'a': 'w', 'op': [{'k': 'k1', 'v': 'v7'}, {'k': 'k2', 'v': 'v8'}]}, {'a': 'rstart'}, {'a': 'sleep', 'ms': 300},
               {'a': 'w', 'op': [{'k': 'k1', 'v': 'v9'}]}]
    # batches of MORE than 100 entries pushed to a connected, caught-up replica: a transaction and an Engine.ApplyBatch
    long_push = [{'a': 'join'}, {'a': 'w', 'op': [{'k': 'k1', 'v': 'v1'}]}, {'a': 'sleep', 'ms': 1800},
                 {'a': 'w', 'op': long_batch(150, 0, 'k1')}, {'a': 'sleep', 'ms': 500}, {'a': 'w', 'op': [{'k': 'k2', 'v': 'v2'}]},
                 {'a': 'sleep', 'ms': 500}, {'a': 'abn', 'op': long_batch(120, 3, 'k2')}, {'a': 'sleep', 'ms': 300},
                 {'a': 'ab', 'op': long_batch(101, 5)}, {'a': 'w', 'op': [{'k': 'k3', 'v': 'v3'}]}]
    # the log is rotated while a late replica is still catching up a backlog of many chunks, and much more is written behind the
    # rotation point: the catch-up has to go on from the NEW log object
    rot = [{'a': 'ab', 'op': long_batch(105 + i % 7, i)} for i in range(14)]
    rot.insert(5, {'a': 'w', 'op': [{'k': 'k1', 'v': 'v1'}]})
    rot += [{'a': 'join'}, {'a': 'sleep', 'ms': 650}, {'a': 'flush'}] + [{'a': 'ab', 'op': long_batch(104 + i, 4 + i)} for i in range(4)]
    rot += [{'a': 'w', 'op': [{'k': 'k2', 'v': 'v2'}]}]
    # the link of a healthy, running replica is cut (TCP reset through a forwarder) and comes back: no restart, no rrestart event
    one = lambda k, v: {'a': 'w', 'op': [{'k': k, 'v': v}]}
    cut = [{'a': 'join'}, {'a': 'sleep', 'ms': 1200}, one('k1', 'v1'), one('k1', 'v2'), {'a': 'w', 'op': t3('v3', 'v4', 'v5')}, one('k2', 'v6'),
           {'a': 'sleep', 'ms': 1500}, {'a': 'cut'}, one('k1', 'v7'), {'a': 'w', 'op': [{'k': 'k2', 'v': 'TOMB'}, {'k': 'k3', 'v': 'v8'}]},
           {'a': 'sleep', 'ms': 1500}, {'a': 'linkup'}, {'a': 'sleep', 'ms': 2500}, one('k3', 'v9'), one('k1', 'v1')]
    return [('link-cut-and-back', cut, 'ascii', 'mid'), ('rotation-during-catchup', rot, 'ascii', 'mid'), ('pushed-batches-over-100-entries', long_push, 'ascii', 'mid'), ('restart-after-transaction-writes-while-down', restart, 'ascii', 'mid'), ('catchup-volume-cut-in-transaction', vol, 'huge', 'mid'), ('pushed-batches-over-256KB', big_push, 'huge', 'mid'), ('pushed-applybatch-numbered-entries', numbered, 'ascii', 'mid'),
            ('chunk-cuts-batch-join-after', many, 'ascii', 'mid'), ('single-after-idle', single_after_idle, 'binary', 'mid'),
            ('pushed-transactions', txn_push, 'ascii', 'mid'), ('flush-between', flush_between, 'ascii', 'mid'),
            ('big-values-join-after', many[60:], 'big', 'bigval')]


def gen_sys(ctx, n, restart=False):
    cfg = 'GEN_ReplSys_restart.cfg' if restart else 'GEN_ReplSys.cfg'
    behs = tlc_sim(ctx, 'GEN_ReplSys', cfg, num=max(8, n * 2), depth=700, seed=ctx.seed * 77 + (5 if restart else 0), timeout=200,
                   tag='gen-' + cfg.replace('.cfg', ''))
    behs = [b for b in behs if sum(1 for e in b if e['a'] == 'w') >= 3 and (not restart or any(e['a'] == 'rrestart' for e in b))]
    if len(behs) < min(n, 2):
        raise Infra(f'scenario generation produced only {len(behs)} usable behaviours from {cfg}')
    return behs[:n]


def run_sys(ctx, steps, cls, cfgname, tag, deadline=30):
    d = ctx.sub('sys-' + tag)
    shutil.rmtree(os.path.join(d, 'db'), ignore_errors=True)
    sc = os.path.join(d, 'scenario.json')
    with open(sc, 'w') as f:
        json.dump({'steps': steps, 'deadline_s': deadline}, f)
    out = os.path.join(d, 'trace.ndjson')
    if os.path.exists(out):
        os.remove(out)
    try:
        p = subprocess.run([ctx.kvh(), 'repl-sys', '-dir', os.path.join(d, 'db'), '-out', out, '-in', sc, '-seed', str(ctx.seed),
                            '-class', cls, '-cfg', SYSCFG[cfgname]], capture_output=True, text=True, timeout=deadline + 120)
        rc, err = p.returncode, p.stderr[-400:]
    except subprocess.TimeoutExpired:
        rc, err = 'timeout', 'harness process timed out'
    ev = [e for e in read_ndjson(out)] if os.path.exists(out) else [{'e': 'reset'}]
    if rc != 0:
        ev.append({'e': 'error', 'msg': f'rc={rc} {err}'})
    shutil.rmtree(os.path.join(d, 'db'), ignore_errors=True)
    return ev


def explain_sys(ev):
    errs = [e for e in ev if e['e'] == 'error']
    if errs:
        return 'driver error: ' + errs[0].get('msg', '')[:300]
    last = ev[-1]
    if last['e'] == 'noconv':
        pst, rst = last.get('pst') or {}, last.get('rst') or {}
        if len(pst) > 6:     # many keys: only those that differ
            diff = sorted(k for k in pst if pst.get(k) != rst.get(k))
            pst, rst = {k: pst[k] for k in diff[:6]}, {k: rst.get(k) for k in diff[:6]}
            return (f"replica did not converge within the deadline: {len(diff)} keys differ, e.g. primary {json.dumps(pst, sort_keys=True)} "
                    f"replica {json.dumps(rst, sort_keys=True)} (replica state {last.get('replica_state')})")
        return (f"replica did not converge within the deadline: primary {json.dumps(pst, sort_keys=True)} replica "
                f"{json.dumps(rst, sort_keys=True)} (replica state {last.get('replica_state')})")
    return 'recorded trace is not a behaviour of TRACE_Repl (a sample is no prefix state of the primary history, the matched prefix ' \
           'or the reported sequence went back, reported exceeds applied, or a client write on the replica was accepted)'


def known_instance(ctx, prop, ev, tag):
    for k in findings_for(prop):
        cfg = k.get('pattern', {}).get('trace_cfg')
        if cfg and not validate_batch(ctx, 'TRACE_Repl', cfg, [ev], 'kf-' + k['id'] + '-' + tag, bad_events=BAD):
            return k
    return None


def judge(ctx, prop, jobs, runs, rerun, tag):
    """jobs[i] describes run i (JSON-able); rejected runs are re-run (up to 4 times) before they count."""
    ctx.traces += len(runs)
    ctx.evaluations += sum(len(r) for r in runs)
    rejected = validate_batch(ctx, 'TRACE_Repl', 'TRACE_Repl.cfg', runs, tag, bad_events=BAD)
    for i in rejected[:5]:
        k = known_instance(ctx, prop, runs[i], f'{tag}{i}')
        if k is not None and k['id'] in ctx.known_seen:
            continue        # an instance of a finding whose witness reproduced in this run
        ev2, again = None, False
        for r in range(4):
            ev2 = rerun(jobs[i], f'{tag}-repro{i}-{r}')
            if validate_batch(ctx, 'TRACE_Repl', 'TRACE_Repl.cfg', [ev2], f'{tag}-repro{i}-{r}', bad_events=BAD):
                k2 = known_instance(ctx, prop, ev2, f'{tag}{i}r{r}')
                if (k is None) == (k2 is None):
                    again = True
                    break
        what = f"{jobs[i].get('name', tag)}: " + explain_sys(runs[i])
        if not again:
            ctx.unreproduced.append({'what': what})
            continue
        if k is not None:
            note_known(ctx, k)
            continue
        ctx.violations.append({'what': what, 'replay': save_replay(ctx, 'sys', {'job': jobs[i], 'trace': runs[i]})})
    return rejected


def sys_jobs(ctx, n_gen, with_fixed=True, restart=0):
    rng = random.Random(ctx.seed * 31 + 7)
    jobs = []
    if with_fixed:
        for name, steps, cls, cfgname in fixed_scenarios():
            jobs.append({'name': name, 'steps': steps, 'class': cls, 'cfg': cfgname})
    for i, b in enumerate(gen_sys(ctx, n_gen)):
        mv = [None, 0.5, 1.0, 0.25][i % 4]
        cls = 'huge' if i % 7 == 3 else (CLASSES[i % 3] if i % 5 else 'ascii')
        jobs.append({'name': f'gen{i}', 'steps': concretise(b, rng, mv), 'class': cls,
                     'cfg': 'mid' if cls == 'huge' else 'bigval' if cls == 'big' else ['mid', 'tiny', 'mid', 'bigval'][i % 4]})
    if restart:
        for i, b in enumerate(gen_sys(ctx, restart, restart=True)):
            jobs.append({'name': f'restart{i}', 'steps': concretise(b, rng), 'class': 'ascii', 'cfg': 'mid'})
    return jobs


def run_sys_jobs(ctx, jobs, tag, workers=8):
    runs = [None] * len(jobs)
    with cf.ThreadPoolExecutor(max_workers=workers) as ex:
        futs = {ex.submit(run_sys, ctx, j['steps'], j['class'], j['cfg'], f'{tag}{i}'): i for i, j in enumerate(jobs)}
        for f in cf.as_completed(futs):
            runs[futs[f]] = f.result()
    return runs


def rerun_sys(ctx):
    return lambda job, tag: run_sys(ctx, job['steps'], job['class'], job['cfg'], tag)


def sys_selftest(ctx, runs):
    """A sample that is no prefix state / a reported sequence beyond the applied prefix / a missing convergence must be rejected."""
    for r in runs:
        ss = [i for i, e in enumerate(r) if e['e'] == 's' and e['rep'] > 0]
        if r[-1]['e'] == 'conv' and ss and not any(e['e'] in ('rrestart', 'rstop') for e in r):
            r1 = copy.deepcopy(r)
            r1[ss[-1]]['st']['k1'] = 'v9' if r1[ss[-1]]['st']['k1'] != 'v9' else 'v8'
            r2 = copy.deepcopy(r)
            for i in ss:
                r2[i]['rep'] += 1000
            r3 = copy.deepcopy(r)
            r3[-1] = {'e': 'noconv'}
            r4 = copy.deepcopy(r)
            r4[-1]['rcount'] -= 1
            for rr, name in ((r1, 'corrupted sample'), (r2, 'reported beyond applied'), (r3, 'no convergence'), (r4, 'skipped entry (count)')):
                if not validate_batch(ctx, 'TRACE_Repl', 'TRACE_Repl.cfg', [rr], 'selftest', bad_events=BAD):
                    raise Infra(f'binding self-test failed: a trace with a {name} was accepted')
            ctx.notes['binding_selftest_system'] = 'traces with a corrupted sample / a reported sequence beyond the applied prefix / a wrong count of applied entries / without convergence are rejected by TLC'
            return
    raise Infra('binding self-test: no converged system trace with a non-trivial sample')


def restart_selftest(ctx, runs):
    """The restart finding must not swallow anything but what it describes: an instance of it with one entry fewer handed over
    (a skipped entry that a later write covers) or without convergence has to be refused by the finding's own configuration."""
    cfg = PROPOSED[0]['pattern']['trace_cfg']
    for r in runs:
        if any(e['e'] == 'rrestart' for e in r) and r[-1]['e'] == 'conv' and \
                not validate_batch(ctx, 'TRACE_Repl', cfg, [r], 'kf-selftest0', bad_events=BAD):
            r1 = copy.deepcopy(r)
            r1[-1]['rcount'] -= 1
            r2 = copy.deepcopy(r)
            r2[-1] = {'e': 'noconv'}
            for rr, name in ((r1, 'skipped entry'), (r2, 'missing convergence')):
                if not validate_batch(ctx, 'TRACE_Repl', cfg, [rr], 'kf-selftest', bad_events=BAD):
                    raise Infra(f'self-test failed: the restart finding accepts a trace with a {name}')
            ctx.notes['binding_selftest_restart_finding'] = ('an instance of KF_C13_restart_from_one with one entry fewer handed over, or without '
                                                             'convergence, is refused by the finding\'s configuration (reported as a violation)')
            return
    ctx.notes['binding_selftest_restart_finding'] = 'not run: no restart scenario of this run is an instance of the restart finding'


def sys_stats(ctx, jobs, runs):
    for j, r in zip(jobs, runs):
        if len(r) > 6:
            ctx.nontrivial.add(('sys', j['name'], len(r), sum(1 for e in r if e['e'] == 's')))
    ctx.notes['system_scenarios'] = {
        'scenarios': len(jobs), 'converged': sum(1 for r in runs if r[-1]['e'] == 'conv'),
        'convergence_ms_max': max([r[-1].get('ms', 0) for r in runs if r[-1]['e'] == 'conv'] or [0]),
        'samples_logged': sum(1 for r in runs for e in r if e['e'] == 's'),
        'primary_entries': sum(len(e['op']) for r in runs for e in r if e['e'] == 'w')}


# ---------------------------------------------------------------------------------------- witnesses (open findings)
def replay_witnesses(ctx, prop):
    for k in findings_for(prop):
        wp = os.path.join(ROOT, k.get('witness', ''))
        if not os.path.isfile(wp):
            ctx.notes.setdefault('findings_without_witness', []).append(k['id'])
            continue
        w = json.load(open(wp))['payload']
        seen = False
        for r in range(3):
            ev = run_witness(ctx, w, f"wit-{k['id']}-{r}")
            if validate_batch(ctx, 'TRACE_Repl', 'TRACE_Repl.cfg', [ev], f"wit-{k['id']}-{r}", bad_events=BAD) and \
                    (known_instance(ctx, prop, ev, f"wit{r}") or {}).get('id') == k['id']:
                seen = True
                break
        if seen:
            note_known(ctx, k)
        else:
            ctx.notes.setdefault('findings_no_longer_reproducing', []).append(k['id'])


def run_witness(ctx, w, tag):
    if w.get('kind') == 'fault':
        return run_fault(ctx, w['job'], tag)
    j = w['job']
    return run_sys(ctx, j['steps'], j['class'], j['cfg'], tag)


# ------------------------------------------------------------------------------------------- C15 fault scenarios
def run_fault(ctx, job, tag):
    """One fault scenario in its own process: repl-fault (sequential driver + one misbehaving client), repl-churn (full-rate
    writers + attaching/cutting clients) or repl-gated (a goroutine of the primary parked at a hook site)."""
    d = ctx.sub('fault-' + tag)
    shutil.rmtree(os.path.join(d, 'db'), ignore_errors=True)
    out = os.path.join(d, 'trace.ndjson')
    if os.path.exists(out):
        os.remove(out)
    cmd = job.get('cmd', 'repl-fault')
    args = [ctx.kvh(), cmd, '-dir', os.path.join(d, 'db'), '-out', out]
    if cmd == 'repl-fault':
        args += ['-seed', str(ctx.seed), '-mode', job['mode'], '-healthy', str(job.get('healthy', 0)), '-maxmb', str(job.get('maxmb', 64)),
                 '-attach', str(job.get('attach', 30)), '-valkb', str(job.get('valkb', 64))]
    elif cmd == 'repl-churn':
        args += ['-seed', str(ctx.seed * 10 + job.get('seedoff', 0)), '-healthy', str(job.get('healthy', 0)), '-sync', str(job.get('sync', 0)),
                 '-rounds', str(job.get('rounds', 12)), '-writers', str(job.get('writers', 4)), '-valb', str(job.get('valb', 200)),
                 '-pace_us', str(job.get('pace_us', 0)), '-flush_ms', str(job.get('flush_ms', 0))] + (['-head'] if job.get('head') else []) + \
                (['-ack'] if job.get('ack') else []) + (['-nack'] if job.get('nack') else [])
    else:
        args += ['-scenario', job['scenario']]
    try:
        p = subprocess.run(args, capture_output=True, text=True, timeout=job.get('timeout', 170))
        rc, err = p.returncode, p.stderr[-400:]
    except subprocess.TimeoutExpired:
        rc, err = 'timeout', 'harness process timed out'
    ev = [e for e in read_ndjson(out) if e['e'] != 'note'] if os.path.exists(out) else [{'e': 'reset'}]
    notes = [e for e in read_ndjson(out) if e['e'] == 'note'] if os.path.exists(out) else []
    if rc != 0:
        ev.append({'e': 'error', 'msg': f'rc={rc} {err}'})
    elif not any(e['e'] in ('hang', 'nohook') for e in ev):
        ev.append({'e': 'end'})
    shutil.rmtree(os.path.join(d, 'db'), ignore_errors=True)
    job['_notes'] = notes
    return ev


def explain_fault(job, ev):
    for e in ev:
        if e['e'] == 'hang':
            return (f"{job['name']}: primary {e['op']} did not return within {e['waited_ms']} ms (10 x unfaulted latency, >= 5 s)" +
                    (f" after {e['bytes_since_fault']} bytes were written with the faulty client attached" if 'bytes_since_fault' in e else
                     f" (client {e.get('c')})"))
        if e['e'] == 'topo' and not e['dropped']:
            return f"{job['name']}: the faulty client is still in the topology the primary reports after {e['ms']} ms"
        if e['e'] == 'hconv' and not e['ok']:
            return f"{job['name']}: the healthy replica did not converge ({e})"
        if e['e'] == 'error':
            return f"{job['name']}: {e.get('msg', '')[:300]}"
    return f"{job['name']}: recorded trace is not a behaviour of TRACE_Repl"


def fault_jobs(ctx):
    jobs = [
        {'name': 'no-fault healthy=1', 'mode': 'none', 'healthy': 1, 'maxmb': 32},
        {'name': 'never-acknowledges healthy=1', 'mode': 'noack', 'healthy': 1, 'maxmb': 32},
        {'name': 'slow-reader healthy=1', 'mode': 'slow', 'healthy': 1, 'maxmb': 4},
        {'name': 'tcp-cut healthy=1', 'mode': 'cut', 'healthy': 1, 'maxmb': 32},
        {'name': 'never-reads healthy=0', 'mode': 'norecv', 'healthy': 0, 'maxmb': 64},
        {'name': 'never-reads idle-primary healthy=1', 'mode': 'norecv', 'healthy': 1, 'maxmb': 0},
    ]
    # session churn under full-rate writers (lock structure of the primary), and the two gated windows
    jobs += [
        {'name': 'churn writers=4 sync=none', 'cmd': 'repl-churn', 'sync': 0, 'rounds': 12},
        {'name': 'churn writers=4 sync=immediate', 'cmd': 'repl-churn', 'sync': 2, 'rounds': 12, 'seedoff': 1},
        # retention: a protocol client acknowledges every few ms while the writers run and the log is rotated now and then
        {'name': 'churn writers=3 sync=immediate flushes acknowledging-client', 'cmd': 'repl-churn', 'sync': 2, 'rounds': 4, 'writers': 3,
         'ack': True, 'flush_ms': 150, 'seedoff': 2},
        # resend: a protocol client reads its stream and sends a negative acknowledgement every few ms while the writers run
        {'name': 'churn writers=3 sync=none negatively-acknowledging-client', 'cmd': 'repl-churn', 'sync': 0, 'rounds': 4, 'writers': 3,
         'nack': True, 'seedoff': 3},
        {'name': 'gated push-dead-stream', 'cmd': 'repl-gated', 'scenario': 'push-dead-stream'},
        {'name': 'gated hb-fail', 'cmd': 'repl-gated', 'scenario': 'hb-fail'},
    ]
    if not ctx.quick():
        jobs += [{'name': f'churn paced head seed+{i}', 'cmd': 'repl-churn', 'sync': i % 2 * 2, 'rounds': 20, 'pace_us': 8000, 'head': True,
                  'seedoff': 10 + i} for i in range(4)]
        jobs += [{'name': f'churn writers={w} seed+{i}', 'cmd': 'repl-churn', 'sync': i % 2 * 2, 'rounds': 20, 'writers': w, 'seedoff': 20 + i}
                 for i, w in enumerate((1, 2, 8, 8))]
        jobs += [{'name': f'churn acknowledging-client sync={sy} writers={w}', 'cmd': 'repl-churn', 'sync': sy, 'rounds': 10, 'writers': w, 'ack': True,
                  'flush_ms': fm, 'seedoff': 40 + i} for i, (sy, w, fm) in enumerate(((0, 4, 100), (2, 2, 300), (0, 2, 60), (2, 4, 80)))]
        jobs += [{'name': 'churn paced healthy=1', 'cmd': 'repl-churn', 'healthy': 1, 'rounds': 8, 'pace_us': 100000, 'writers': 2,
                  'seedoff': 30, 'timeout': 400}]
    if not ctx.quick():
        more = []
        for att in (5, 120):
            for h in (0, 1):
                more += [{'name': f'never-reads attach={att} healthy={h}', 'mode': 'norecv', 'healthy': h, 'maxmb': 64, 'attach': att},
                         {'name': f'tcp-cut attach={att} healthy={h}', 'mode': 'cut', 'healthy': h, 'maxmb': 16, 'attach': att},
                         {'name': f'never-acknowledges attach={att} healthy={h}', 'mode': 'noack', 'healthy': h, 'maxmb': 64, 'attach': att}]
        for kb in (1, 512):
            more += [{'name': f'never-reads valkb={kb}', 'mode': 'norecv', 'healthy': 0, 'maxmb': 64 if kb > 1 else 8, 'valkb': kb},
                     {'name': f'slow-reader valkb={kb}', 'mode': 'slow', 'healthy': 1, 'maxmb': 4 if kb > 1 else 1, 'valkb': kb, 'timeout': 400}]
        jobs += more
    return jobs


# --------------------------------------------------------------------------------------------------- checks
def check_C13(ctx):
    ctx.assumptions += [
        'the prefix is taken over log ENTRIES in primary order (the weaker reading); batch integrity at rest is the separate invariant NoSplitBatch',
        'component replay drives replication.WALBatchApplier.ApplyEntries (the applier Replica.processEntries delegates to) through '
        'WALEntryToProto/SerializeWALEntry, a CompressionManager round trip and DeserializeWALEntry; Replica.processEntries itself is '
        'unexported and is exercised by the system scenarios only',
        'the stream is reliable and ordered (gRPC); loss, duplication and reordering of the model stand for overlapping senders, '
        'abandoned receivers and retransmission, and are injected at message level in the component replay only',
        'between a failure of the WALEntryApplier in the middle of a message (KevoRepl!ApplyFail) and the retry the engine holds a half-applied message: a named deviation; the counters must not count it',
        'system samples are taken every 50 ms from a scan during which the replica engine executed no write']
    # the system scenarios (harness processes only) run while the models are checked and the components replayed
    ctx.kvh()
    jobs = sys_jobs(ctx, 3 if ctx.quick() else 35, with_fixed=True, restart=1 if ctx.quick() else 5)
    pool = cf.ThreadPoolExecutor(max_workers=1)
    sysfut = pool.submit(run_sys_jobs, ctx, jobs, 'c13-')
    mc(ctx, [('KevoRepl', 'MC_Repl_applier.cfg' if ctx.quick() else 'MC_Repl_applier_thorough.cfg', 280 if ctx.quick() else 1200),
             ('KevoRepl', 'MC_Repl_quick.cfg', 200)],
       negatives=[('KevoRepl', 'MC_Repl_neg_split.cfg', 'NoSplitBatch')])
    component(ctx, 200 if ctx.quick() else 1500, 3 if ctx.quick() else 6)
    sender(ctx, 14 if ctx.quick() else 120)
    replay_witnesses(ctx, 'C13')
    runs = sysfut.result()
    pool.shutdown()
    sys_stats(ctx, jobs, runs)
    judge(ctx, 'C13', jobs, runs, rerun_sys(ctx), 'c13sys')
    sys_selftest(ctx, runs)
    if not ctx.violations:
        restart_selftest(ctx, runs)
    ctx.samples.append([e for e in runs[2] if e['e'] != 'wret'][:14])
    write_evidence(ctx, 'model_checking',
                   'KevoRepl model-checked exhaustively, also with batches longer than the senders\' chunk (MC_Repl_quick: MaxBatch 2 > Chunk 1; GEN_Repl: 3 > 2) (AppliedIsPrefix, NoSplitBatch, ExpectedFollowsApplied, ReportedLeApplied, '
                   'AckLeApplied, ReportedMonotone, AppliedOnlyGrows; dropping the whole-batch rule violates NoSplitBatch). Bound to the code by '
                   '(1) deterministic component replay: delivery schedules drawn by TLC simulation of GEN_Repl (push/poll/initial/resend '
                   'overlap, loss, duplication, reordering, stray whole-batch messages from any position, reconnects, restarts; logs with '
                   'batches sharing one sequence number) fed to the real WALBatchApplier through the real encoding in three concretisation '
                   'classes and three codecs, with the predicted accepted/gap outcome, applied entry sequence, expected and highest applied '
                   'number checked after every delivery, and with apply failures (KevoRepl!ApplyFail: callback error / undecodable payload at entry x of an accepted message, also inside a transaction) after which nothing of the message may count and the retry is accepted from its first entry; (1b) sender-side component check: the real Primary (push, initial send, catch-up poll, resend) '
                   'serves a fake stream for TLC-generated programs (singles, transactions, ApplyBatch numbered / un-numbered, rotation, attach / '
                   'detach, the 100-entry and the 1 MB chunk cuts, batches over the push limit) and TLC validates the recorded messages against '
                   'TRACE_ReplSend: whole batches only, acceptance rule, the whole log handed over once and in order; (2) system scenarios (real primary + real replica over loopback TCP) whose traces TLC '
                   'validates against TRACE_Repl: every 50 ms sample of the replica is the state after some prefix of the primary history, '
                   'prefix and reported sequence never go back, reported is covered by the applied prefix, and at convergence the replica engine has been handed exactly as many entries as the primary logged (its own sequence counter). distinct_nontrivial = distinct '
                   'schedules + system traces')


def check_C14(ctx):
    ctx.assumptions += [
        '"bounded time" is 30 s after the primary stops writing, on loopback; equality must then hold for 3 further samples 50 ms apart',
        'primary and replica run in one process (wired as cmd/kevo does: replication.Manager over loopback TCP); replica restarts are graceful',
        'link faults below gRPC (proxy-level cuts) are not injected here: the stream is cut only by restarts and by the C15 fault client',
        'liveness is model-checked for small constants; on the implementation it is the finite deadline above']
    ctx.kvh()
    jobs = sys_jobs(ctx, 5 if ctx.quick() else 55, with_fixed=True, restart=0 if ctx.quick() else 4)
    pool = cf.ThreadPoolExecutor(max_workers=1)
    sysfut = pool.submit(run_sys_jobs, ctx, jobs, 'c14-')
    mc(ctx, [('KevoRepl', 'MC_Repl_live.cfg', 280), ('KevoRepl', 'MC_Repl_two.cfg', 280)],
       negatives=[('KevoRepl', 'MC_Repl_neg_rotate.cfg', 'Converges'), ('KevoRepl', 'MC_Repl_neg_stalehandle.cfg', 'Converges')])
    replay_witnesses(ctx, 'C14')
    runs = sysfut.result()
    pool.shutdown()
    sys_stats(ctx, jobs, runs)
    judge(ctx, 'C14', jobs, runs, rerun_sys(ctx), 'c14sys')
    sys_selftest(ctx, runs)
    if not ctx.violations:
        restart_selftest(ctx, runs)
    if not any(any(e['e'] == 'flush' for e in r) for r in runs) or not any(any(e['e'] == 'w' and len(e['op']) > 1 for e in r) for r in runs):
        raise Infra('vacuous: no scenario with a flush / a multi-key transaction')
    ctx.samples.append([e for e in runs[3] if e['e'] != 'wret'][:14])
    write_evidence(ctx, 'model_checking',
                   'KevoRepl liveness model-checked without state constraint: under weak fairness of senders, delivery, apply, acknowledge and '
                   'reconnect every replica that has not stalled converges once the primary stops ((<>[](stop /\\ ~stall)) => <>[]Converged) for '
                   'join before/during/after, restart, rotation and batches, also next to a stalled second replica; leaving the observer on '
                   'the first log object, or letting the catch-up of a stream keep the log object of its start, violates it. Bound to the code by system scenarios: programs drawn by TLC simulation of GEN_ReplSys '
                   '(writes, deletes, multi-key transactions and Engine.ApplyBatch calls (entries un-numbered or carrying the number of the batch), flush = log rotation, join position moved to 0/25/50/100 % of the program, pauses '
                   'where the behaviour has the replica catching up, client writes on the replica) plus regression classes (a 100-entry chunk '
                   'boundary inside a transaction, a single write after an idle period, pushed transactions, pushed batches over the 256 KB batcher limit, ApplyBatch with numbered entries, flushes between writes, 40/70 KB '
                   'values, tiny memtables that rotate the log by volume) on a real primary and a real replica over loopback TCP; after '
                   'quiescence full scans are compared until equal (deadline 30 s) and for 3 more samples; the whole trace is validated by TLC '
                   'against TRACE_Repl (level: model_checking for the liveness property, exploration for the scenario space). '
                   'distinct_nontrivial = distinct system traces')


def check_C15(ctx):
    ctx.assumptions += [
        'deadline of every primary operation = 10 x the slowest unfaulted operation of the same run, at least 5 s',
        'the faulty client is written with the generated gRPC stubs and misbehaves at application level (never Recv, never acknowledge, '
        '100 ms per message, TCP reset after 1 MB); it is attached after 30 (thorough: 5/120) unfaulted rounds, next to 0 or 1 healthy real replicas',
        'heartbeat interval / time-out of the primary are configured to 1 s / 3 s for these scenarios; a dropped client must vanish from '
        'GetNodeInfo within time-out + interval + 10 s',
        'a merely slow or non-acknowledging replica is not required to be dropped',
        'churn: 4 writer goroutines at full rate (200-byte values); their operations are counted, not logged one by one - only an operation '
        'that misses its deadline appears as inv + hang; gated scenarios need the hook sites rp.stream.done / rp.hb.send',
        'the lock model MC_ReplLocks abstracts sends as non-blocking (blocking sends are the open finding) and has one session']
    # the scenarios (harness processes only) run while the models are checked
    ctx.kvh()
    jobs = fault_jobs(ctx)
    pool = cf.ThreadPoolExecutor(max_workers=6)
    futs = [pool.submit(run_fault, ctx, j, f'f{i}') for i, j in enumerate(jobs)]
    mc(ctx, [('KevoRepl', 'MC_Repl_c15.cfg', 280), ('KevoRepl', 'MC_Repl_two.cfg', 280),
             ('MC_ReplLocks', 'MC_Repl_locks.cfg', 120), ('MC_ReplLocks', 'MC_Repl_locks_nosync.cfg', 120)],
       negatives=[('MC_ReplLocks', 'MC_Repl_locks_neg_order.cfg', 'Deadlock reached'),
                  ('MC_ReplLocks', 'MC_Repl_locks_neg_unreg.cfg', 'Deadlock reached'),
                  ('MC_ReplLocks', 'MC_Repl_locks_neg_hbleak.cfg', 'Deadlock reached'),
                  ('MC_ReplLocks', 'MC_Repl_locks_neg_retention.cfg', 'Deadlock reached'),
                  ('MC_ReplLocks', 'MC_Repl_locks_neg_resend.cfg', 'Deadlock reached')])
    replay_witnesses(ctx, 'C15')
    runs = [f.result() for f in futs]
    pool.shutdown()
    # a gated scenario whose hook site was never reached proves nothing: an error if the tree has the hook, a note otherwise
    for i in [i for i, r in enumerate(runs) if any(e['e'] == 'nohook' for e in r)][::-1]:
        site = next(e['site'] for e in runs[i] if e['e'] == 'nohook')
        src = ''
        for fn in ('primary.go', 'heartbeat.go'):
            try:
                src += open(os.path.join(vlib.REPO, 'pkg', 'replication', fn)).read()
            except OSError:
                pass
        if f'"{site}"' in src:
            raise Infra(f"gated scenario {jobs[i]['name']}: hook site {site} exists in the tree but was never reached")
        ctx.notes.setdefault('gated_scenarios_skipped', []).append(f"{jobs[i]['name']}: the tree has no hook site {site}")
        del runs[i], jobs[i]
    ctx.traces += len(runs)
    ctx.evaluations += sum(len(r) for r in runs)
    for j, r in zip(jobs, runs):
        ctx.nontrivial.add((j['name'], len(r) > 20))
    ctx.notes['fault_scenarios'] = [{'name': j['name'], 'operations_returned': sum(1 for e in r if e['e'] == 'ret') + sum(e['n'] for e in r if e['e'] == 'ops'),
                                     'outcome': [e for e in r if e['e'] in ('hang', 'topo', 'hconv', 'error')], 'notes': j.get('_notes')}
                                    for j, r in zip(jobs, runs)]
    rejected = validate_batch(ctx, 'TRACE_Repl', 'TRACE_Repl.cfg', runs, 'c15', bad_events=BAD)
    for i in rejected[:6]:
        k = known_instance(ctx, 'C15', runs[i], f'c15-{i}')
        if k is not None and k['id'] in ctx.known_seen:
            continue        # an instance of a finding whose witness reproduced in this run
        again = False
        for r in range(4):
            ev2 = run_fault(ctx, jobs[i], f'repro{i}-{r}')
            if validate_batch(ctx, 'TRACE_Repl', 'TRACE_Repl.cfg', [ev2], f'c15-repro{i}-{r}', bad_events=BAD) and \
                    (k is None) == (known_instance(ctx, 'C15', ev2, f'c15-{i}r{r}') is None):
                again = True
                break
        what = explain_fault(jobs[i], runs[i])
        if not again:
            ctx.unreproduced.append({'what': what})
        elif k is not None:
            note_known(ctx, k)
        else:
            job = {a: b for a, b in jobs[i].items() if not a.startswith('_')}
            ctx.violations.append({'what': what, 'replay': save_replay(ctx, 'fault', {'job': job, 'kind': 'fault', 'trace': runs[i]})})
    # binding self-test: a trace in which an invoke has no return must be rejected
    ok_runs = [r for i, r in enumerate(runs) if i not in rejected and sum(1 for e in r if e['e'] == 'ret') > 10 and any(e['e'] == 'hconv' for e in r)]
    if not ok_runs:
        raise Infra('vacuous: no fault scenario ran to its end')
    r1 = copy.deepcopy(ok_runs[0])
    del r1[max(i for i, e in enumerate(r1) if e['e'] == 'ret')]
    r2 = [e for e in ok_runs[0] if e['e'] not in ('hconv', 'end')] + [{'e': 'hconv', 'ok': False}, {'e': 'end'}]
    for rr, name in ((r1, 'missing return'), (r2, 'healthy replica not converged')):
        if not validate_batch(ctx, 'TRACE_Repl', 'TRACE_Repl.cfg', [rr], 'c15-selftest', bad_events=BAD):
            raise Infra(f'binding self-test failed: a trace with a {name} was accepted')
    ctx.notes['binding_selftest'] = 'traces with an invoke without return / a healthy replica that did not converge are rejected by TLC'
    for j in jobs:
        j.pop('_notes', None)
    ctx.samples = [[e for e in runs[0] if e['e'] not in ('inv', 'ret')] + runs[0][1:7]]
    write_evidence(ctx, 'exploration',
                   'KevoRepl model-checked: PWriteDo is enabled whenever a write is invoked whatever net/stall/sess hold (PWriteNeverWaits), '
                   'PWriteInvoked ~> PWriteReturned and Stalled ~> not in Topology under fairness of the PRIMARY\'s own steps only, a second '
                   'replica still converges. Bound to the code by fault scenarios on a real primary (replication.Manager, loopback TCP): the '
                   'latency of Put/Get/Commit (64 KB values; thorough: 1 KB and 512 KB) is measured unfaulted, a misbehaving StreamWAL client '
                   '(never reads / never acknowledges / 100 ms per message / TCP reset) is attached next to 0-1 healthy real replicas, and the '
                   'driver writes until an operation misses its deadline or the byte budget (64 MB) is used; every invoke needs its return, the '
                   'faulty client must leave GetNodeInfo, the healthy replica must equal the primary afterwards; traces validated by TLC against '
                   'TRACE_Repl. The lock structure of the primary (WAL lock, sessions RW lock with pending-writer blocking, session lock; writer, '
                   'catch-up, registration, heartbeat, acknowledgement + retention, negative acknowledgement + resend) is model-checked in MC_ReplLocks: a started write returns and no deadlock exists for the '
                   'repaired order; the order before fix 11 and four seeded variants deadlock. Bound by churn scenarios (full-rate writers while '
                   'clients attach, read, reset or stall-then-reset their connection for 12+ rounds; with periodic flushes and a protocol client that acknowledges every few ms) and two gated scenarios that park the StreamWAL '
                   'handler before its exit / the heartbeat before its send. Sampled fault points and sizes, not exhaustive. '
                   'distinct_nontrivial = fault scenarios run')


def replay_saved(ctx, payload):
    if 'beh' in payload:
        r = replay_schedules(ctx, [payload['beh']], payload['class'], 'replay')[0]
        return None if r.get('pass') else r
    if 'prog' in payload:
        r = run_sender(ctx, [payload['prog']], 'replay')
        return {'what': 'the messages put on the stream are not whole batches handing over the log once, in order',
                'messages': [[x['seq'] for x in e['ents']] for e in r[0] if e['e'] == 'm'][:10]} \
            if validate_batch(ctx, 'TRACE_ReplSend', 'TRACE_ReplSend.cfg', r, 'replay', bad_events=BAD) else None
    if payload.get('kind') == 'fault':
        ev = run_fault(ctx, payload['job'], 'replay')
        if validate_batch(ctx, 'TRACE_Repl', 'TRACE_Repl.cfg', [ev], 'replay', bad_events=BAD):
            return {'what': explain_fault(dict(payload['job'], name=payload['job'].get('name', 'fault')), ev)}
        return None
    j = payload['job']
    ev = run_sys(ctx, j['steps'], j['class'], j['cfg'], 'replay')
    if validate_batch(ctx, 'TRACE_Repl', 'TRACE_Repl.cfg', [ev], 'replay', bad_events=BAD):
        return {'what': explain_sys(ev), 'trace_tail': ev[-3:]}
    if validate_batch(ctx, 'TRACE_Repl', 'TRACE_Repl.cfg', [payload['trace']], 'replay-saved', bad_events=BAD):
        return {'what': 'the saved trace is not a behaviour of TRACE_Repl (a fresh run of the same scenario conformed)'}
    return None
