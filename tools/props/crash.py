"""C02 / C03 (crash form): crash enumeration of the real engine at every hook site, each outcome validated by TLC
against KevoDurable (TRACE_Durable): TLC has to find a surviving prefix that explains what the reopened engine shows."""
import concurrent.futures as cf
import json
import os
import random
import shutil
import subprocess

from vlib import Infra, read_ndjson, save_replay, tlc_mc, tlc_sim, tlc_trace, write_ndjson, write_evidence, open_findings, log
from props import store

KEYS = ['k1', 'k2', 'k3']
SYNCNAME = {0: 'none', 1: 'none', 2: 'imm'}      # SyncBatch promises no more than SyncNone between its thresholds

CRASH_CLASSES = [
    ('ascii-tinymem-immsync', 'ascii', {'memtable_size': 100, 'max_memtables': 2, 'sync_mode': 2, 'compact_sec': 3600}, 1.0),
    ('ascii-smallmem-nosync', 'ascii', {'memtable_size': 400, 'max_memtables': 4, 'sync_mode': 0, 'compact_sec': 3600}, 1.0),
    ('binary-smallmem-batchsync', 'binary', {'memtable_size': 300, 'max_memtables': 4, 'sync_mode': 1, 'sync_bytes': 150, 'compact_sec': 3600}, 1.0),
    ('big-midmem-immsync', 'big', {'memtable_size': 100000, 'max_memtables': 4, 'sync_mode': 2, 'compact_sec': 3600}, 1.0),
    # values of 40 KB / 70 KB with an unsynced log: the 64 KB log buffer is partly full when the next (batch) write arrives
    ('big-bigmem-nosync', 'big', {'memtable_size': 1 << 22, 'max_memtables': 4, 'sync_mode': 0, 'compact_sec': 3600}, 1.0),
]

FOLLOWUP = [
    {'a': 'put', 'op': [{'k': 'k1', 'v': 'v3'}], 'st': {}, 'seq': 0},
    {'a': 'commit', 'op': [{'k': 'k2', 'v': 'v1'}, {'k': 'k3', 'v': 'TOMB'}], 'st': {}, 'seq': 0},
    {'a': 'reopen', 'op': [], 'st': {}, 'seq': 0},
    {'a': 'delete', 'op': [{'k': 'k1', 'v': 'TOMB'}], 'st': {}, 'seq': 0},
]


def child(ctx, d, prog_path, ack, cls, env_extra, noclose=False, timeout=120):
    env = dict(os.environ)
    env.update(env_extra)
    args = [ctx.kvh(), 'crash-child', '-in', prog_path, '-dir', os.path.join(d, 'db'), '-ack', ack,
            '-class', cls[1], '-seed', str(ctx.seed), '-cfg', json.dumps(cls[2])] + (['-noclose'] if noclose else [])
    try:
        p = subprocess.run(args, capture_output=True, text=True, timeout=timeout, env=env)
    except subprocess.TimeoutExpired:
        return 'timeout', ''
    return p.returncode, p.stderr[-2000:]


def observe(ctx, d, cls):
    p = subprocess.run([ctx.kvh(), 'observe', '-dir', os.path.join(d, 'db'), '-class', cls[1], '-seed', str(ctx.seed),
                        '-keys', ','.join(KEYS)], capture_output=True, text=True, timeout=120)
    if p.returncode != 0:
        raise Infra('observe failed: ' + p.stderr[-2000:])
    return json.loads(p.stdout.strip().splitlines()[-1])


def ack_events(path):
    ev = []
    if not os.path.exists(path):
        return ev
    for r in read_ndjson(path):
        if r['e'] in ('issue', 'ack', 'fail', 'close', 'open'):
            ev.append({k: v for k, v in r.items() if k in ('e', 'op')})
        elif r['e'] == 'error':
            ev.append({'e': 'error', 'msg': r.get('msg', '')})
    return ev


def profile(ctx, prog, cls, tag):
    """Crash-free run with tracing: which hook sites does this program pass, how often."""
    d = ctx.sub(f'crash-{tag}-profile')
    pp = os.path.join(d, 'prog.json')
    with open(pp, 'w') as f:
        json.dump(prog, f)
    tr = os.path.join(d, 'hooks.ndjson')
    rc, err = child(ctx, d, pp, os.path.join(d, 'ack'), cls, {'VERIF_TRACE': tr})
    if rc != 0:
        return None, f'profile run failed rc={rc}: {err}'
    hits = {}
    for r in read_ndjson(tr):
        hits[r['site']] = max(hits.get(r['site'], 0), r['hit'])
    shutil.rmtree(d, ignore_errors=True)
    return hits, None


def die_points(hits, rng, cap):
    pts = []
    for site, n in sorted(hits.items()):
        if site.startswith('h.') or site.startswith('tx.begin'):
            continue
        ks = list(range(1, n + 1))
        if n > cap:
            ks = sorted(set(ks[:2] + ks[-2:] + rng.sample(ks, max(0, cap - 4))))
        pts += [(site, k) for k in ks]
    return pts


HDR_ONLY = -1000       # torn variant: the newest log file ends right behind a record header


def record_offsets(path):
    """start offsets of the physical records of a log file (header: crc 4, length 2 little-endian, type 1)"""
    data = open(path, 'rb').read()
    offs, off = [], 0
    while off + 7 <= len(data):
        n = data[off + 4] | (data[off + 5] << 8)
        if off + 7 + n > len(data):
            break
        offs.append(off)
        off += 7 + n
    return offs


def run_point(ctx, prog, cls, point, tag, second=None, torn=0):
    """One crash run -> list of trace events (starting with reset) and a description."""
    d = ctx.sub(f'crash-{tag}')
    shutil.rmtree(os.path.join(d, 'db'), ignore_errors=True)
    pp = os.path.join(d, 'prog.json')
    with open(pp, 'w') as f:
        json.dump(prog, f)
    ack = os.path.join(d, 'ack1')
    if os.path.exists(ack):
        os.remove(ack)
    env = {}
    before = None
    if point and torn and point[0] in ('wal.close.flushed', 'wal.sync.flushed'):
        # how much does the write(2) in flight add?  The same program is stopped just BEFORE that flush (same hit number of the
        # site in front of it) and the newest log file measured; only bytes behind that mark may be missing after the stop
        rc0, _ = child(ctx, d, pp, ack, cls, {'VERIF_DIE_AT': f"{point[0].replace('.flushed', '.pre')}:{point[1]}"})
        wd0 = os.path.join(d, 'db', 'wal')
        if rc0 == 137 and os.path.isdir(wd0):
            fl0 = sorted(f for f in os.listdir(wd0) if f.endswith('.wal'))
            before = (len(fl0), os.path.getsize(os.path.join(wd0, fl0[-1]))) if fl0 else (0, 0)
        shutil.rmtree(os.path.join(d, 'db'), ignore_errors=True)
        if os.path.exists(ack):
            os.remove(ack)
    if point:
        env['VERIF_DIE_AT'] = f'{point[0]}:{point[1]}'
    rc, err = child(ctx, d, pp, ack, cls, env)
    ev = [{'e': 'reset', 'sync': SYNCNAME[cls[2].get('sync_mode', 2)]}] + ack_events(ack)
    info = {'class': cls[0], 'die': list(point) if point else None, 'rc': rc, 'torn': torn}
    if rc == 137:
        ev.append({'e': 'die'})
        if torn:
            # the stop hit the process inside the write(2) that had just been issued: its last bytes are missing
            wd = os.path.join(d, 'db', 'wal')
            allf = sorted(f for f in os.listdir(wd) if f.endswith('.wal'))
            files = sorted(f for f in allf if os.path.getsize(os.path.join(wd, f)) > 0)
            # bytes of the newest file that were there before the write in flight (all of them if that is not known)
            floor = 0
            if before is not None and files:
                floor = before[1] if (len(allf) == before[0] and allf[-1] == files[-1]) else os.path.getsize(os.path.join(wd, files[-1]))
            info['in_flight_bytes'] = os.path.getsize(os.path.join(wd, files[-1])) - floor if files else 0
            if files and torn == HDR_ONLY:
                # the write(2) ended right behind the 7-byte header of the last physical record: nothing of its payload is there
                fp = os.path.join(wd, files[-1])
                offs = record_offsets(fp)
                if offs and offs[-1] + 7 >= floor and offs[-1] + 7 < os.path.getsize(fp):
                    os.truncate(fp, offs[-1] + 7)
                    info['torn_applied'] = True
                    ev[-1]['torn'] = True
            elif files and torn < 0:
                # the write(2) ended exactly on a record boundary: the last -torn physical records are missing (a fragmented
                # entry or a batch is then cut between two of its records)
                fp = os.path.join(wd, files[-1])
                offs = record_offsets(fp)
                if len(offs) >= -torn and offs[torn] >= floor:
                    os.truncate(fp, offs[torn])
                    info['torn_applied'] = True
                    ev[-1]['torn'] = True
            elif files and os.path.getsize(os.path.join(wd, files[-1])) - floor >= torn:
                fp = os.path.join(wd, files[-1])
                os.truncate(fp, os.path.getsize(fp) - torn)
                info['torn_applied'] = True
                ev[-1]['torn'] = True
    elif rc == 0:
        info['die_not_reached'] = True
    else:
        info['child_error'] = err
        ev.append({'e': 'childerror', 'msg': str(err)[-300:]})
        return ev, info
    o = observe(ctx, d, cls)
    if 'open_error' in o:
        ev.append({'e': 'openerror', 'msg': o['open_error']})
        return ev, info
    if rc == 137:
        ev.append({'e': 'open'})
    else:
        ev.append({'e': 'open'})
    ev.append({'e': 'obs', 'st': o['st'], 'seq': int(o['seq'])})
    ev.append({'e': 'close'})
    # phase 2: writes after the recovery must be durable themselves; optionally a second stop
    p2 = os.path.join(d, 'prog2.json')
    with open(p2, 'w') as f:
        json.dump(FOLLOWUP, f)
    ack2 = os.path.join(d, 'ack2')
    if os.path.exists(ack2):
        os.remove(ack2)
    env2 = {}
    if second:
        env2['VERIF_DIE_AT'] = f'{second[0]}:{second[1]}'
    rc2, err2 = child(ctx, d, p2, ack2, cls, env2)
    ev.append({'e': 'open'})
    ev += ack_events(ack2)
    if rc2 == 137:
        ev.append({'e': 'die'})
    elif rc2 != 0:
        ev.append({'e': 'childerror', 'msg': str(err2)[-300:]})
        return ev, info
    o2 = observe(ctx, d, cls)
    if 'open_error' in o2:
        ev.append({'e': 'openerror', 'msg': o2['open_error']})
        return ev, info
    ev.append({'e': 'open'})
    ev.append({'e': 'obs', 'st': o2['st'], 'seq': int(o2['seq'])})
    ev.append({'e': 'close'})
    shutil.rmtree(d, ignore_errors=True)
    return ev, info


def validate(ctx, runs, tag, cfg='TRACE_Durable.cfg'):
    """runs: list of (events, info).  Returns indexes of rejected runs (TLC finds no surviving prefix)."""
    rejected = []
    live = list(range(len(runs)))
    # runs with events TLC has no action for (open error, child error) are rejected outright
    for i in list(live):
        if any(e['e'] in ('openerror', 'childerror', 'error') for e in runs[i][0]):
            rejected.append(i)
            live.remove(i)
    rounds = 0
    # every run starts with a reset event, so the runs in front of a rejected one are accepted for good: only the runs behind it
    # are validated again (the number of rounds is the number of rejected runs + 1; capped, the rest is then reported as rejected
    # by a last resort of one run per TLC call being too slow)
    while live and rounds < 40:
        rounds += 1
        lines, owner = [], []
        for i in live:
            for e in runs[i][0]:
                lines.append(e)
                owner.append(i)
        tp = os.path.join(ctx.sub('traces'), f'{tag}-{rounds}.ndjson')
        write_ndjson(tp, lines)
        ok, hw, st, out = tlc_trace(ctx, 'TRACE_Durable', cfg, tp, timeout=600, tag=f'{tag}-{rounds}')
        if ok:
            break
        if hw is None or hw < 1 or hw > len(lines):
            raise Infra('trace validation rejected a batch but reported no position:\n' + out[-2000:])
        bad = owner[hw - 1]
        rejected.append(bad)
        live = live[live.index(bad) + 1:]
    # (after 40 rejected runs the rest stays unjudged: there is more than enough to reproduce and report)
    return rejected


def programs(ctx, n):
    behs = store.gen(ctx, 'GEN_Store_crash.cfg', n, depth=90, seed_off=5)
    return behs


def explain(run):
    ev, info = run
    last_obs = [e for e in ev if e['e'] == 'obs']
    errs = [e for e in ev if e['e'] in ('openerror', 'childerror', 'error')]
    s = f"{info['class']} die at {info.get('die')}" + (f" with the last {info['torn']} bytes of the newest log file missing" if info.get('torn', 0) > 0 else
                                                      ' with the newest log file ending right behind the header of its last record' if info.get('torn', 0) == HDR_ONLY else
                                                      f" with the last {-info['torn']} physical records of the newest log file missing" if info.get('torn', 0) < 0 else '')
    if errs:
        return s + ': ' + errs[0]['e'] + ' ' + errs[0].get('msg', '')[:200]
    return s + ': no surviving prefix of the issued writes explains the recovered state ' + json.dumps([(o['st'], o['seq']) for o in last_obs])


def enumerate_crashes(ctx, prop, progs, classes, cap, second_crash=False, cfg='TRACE_Durable.cfg'):
    rng = random.Random(ctx.seed)
    jobs = []
    for pi, prog in enumerate(progs):
        cls = classes[pi % len(classes)]
        hits, err = profile(ctx, prog, cls, f'p{pi}')
        if hits is None:
            ctx.violations.append({'what': f'{cls[0]}: crash-free run of a generated program failed: {err}',
                                   'replay': save_replay(ctx, 'crashprog', {'prog': prog, 'class': list(cls), 'point': None})})
            continue
        pts = die_points(hits, rng, cap)
        ctx.notes['hook_sites_seen'] = set(ctx.notes.get('hook_sites_seen', [])) | set(hits.keys())
        for pt in pts:
            sec = None
            if second_crash and rng.random() < 0.3:
                sec = (rng.choice(['sm.put.logged', 'wal.append.written', 'wal.batch.written', 'sm.batch.applied', 'sm.recover.end', 'wal.sync.done']), 1)
            jobs.append((pi, prog, cls, pt, sec, 0))
            # a stop inside the write(2) just issued: legitimate where the bytes of that write are not yet acknowledged as
            # synced - the flush in Sync (the operation is acknowledged only after it), and the flush in Close unless every
            # append was already synced (SyncImmediate leaves nothing in the buffer for Close to write)
            if pt[0] == 'wal.sync.flushed' or (pt[0] == 'wal.close.flushed' and cls[2].get('sync_mode', 2) != 2):
                for t in (1, 7, 20, HDR_ONLY):
                    jobs.append((pi, prog, cls, pt, None, t))
            # with an unsynced log everything Close still has to write out is unacknowledged-as-durable: the write may end
            # on any record boundary as well
            if pt[0] == 'wal.close.flushed' and cls[2].get('sync_mode', 2) == 0:
                for t in (-1, -2, -3):
                    jobs.append((pi, prog, cls, pt, None, t))
        jobs.append((pi, prog, cls, None, None, 0))
    runs = [None] * len(jobs)

    def work(j):
        pi, prog, cls, pt, sec, torn = jobs[j]
        return j, run_point(ctx, prog, cls, pt, f'j{j}', sec, torn)
    with cf.ThreadPoolExecutor(max_workers=14) as ex:
        for j, r in ex.map(work, range(len(jobs))):
            runs[j] = r
    ctx.evaluations += len(runs)
    for (ev, info), job in zip(runs, jobs):
        if info.get('die') and not info.get('die_not_reached'):
            ctx.nontrivial.add((job[0], tuple(info['die']), info.get('torn', 0)))
    # a property with an open finding that has its own trace configuration is validated against THAT configuration (conformance
    # plus exactly the finding's outcome): instances of the finding then cost no validation rounds and cannot crowd out anything
    # else; the finding itself is re-established from its witness on every run (replay_witnesses)
    kcfgs = [k['pattern']['trace_cfg'] for k in open_findings(prop) if k.get('pattern', {}).get('trace_cfg')]
    if cfg == 'TRACE_Durable.cfg' and kcfgs:
        cfg = kcfgs[0]
    rejected = validate(ctx, runs, prop.lower(), cfg=cfg)
    ctx.traces += len(runs)
    # instances of an open finding are recognised first (by the finding's own trace configuration), so that they cannot crowd out
    # a different disagreement; of the others at most 6 are reproduced and reported
    fresh, known_inst = list(rejected), []
    for k in open_findings(prop):
        kcfg = k.get('pattern', {}).get('trace_cfg')
        if kcfg and kcfg != cfg and fresh:
            still = set(validate(ctx, [runs[i] for i in fresh], f'{prop.lower()}-kf-{k["id"]}', cfg=kcfg))
            known_inst += [i for n, i in enumerate(fresh) if n not in still]
            fresh = [i for n, i in enumerate(fresh) if n in still]
    ctx.notes['rejected_runs'] = ctx.notes.get('rejected_runs', 0) + len(rejected)
    ctx.notes['of_which_instances_of_open_findings'] = ctx.notes.get('of_which_instances_of_open_findings', 0) + len(known_inst)
    for i in known_inst[:2] + fresh[:6]:
        pi, prog, cls, pt, sec, torn = jobs[i]
        # reproduce: the same stop point twice more; background goroutines make outcomes vary, one repeat suffices
        again = 0
        for r in range(2):
            rr = run_point(ctx, prog, cls, pt, f'repro{i}-{r}', sec, torn)
            if validate(ctx, [rr], f'repro{i}-{r}', cfg=cfg):
                again += 1
        what = explain(runs[i])
        if again == 0:
            ctx.unreproduced.append({'what': what})
            continue
        k = crash_known(ctx, prop, runs[i])
        if k:
            if k['id'] not in ctx.known_seen:
                ctx.known_seen.append(k['id'])
            continue
        path = save_replay(ctx, 'crash', {'prog': prog, 'class': list(cls), 'point': list(pt) if pt else None,
                                          'second': list(sec) if sec else None, 'torn': torn, 'trace': runs[i][0]})
        ctx.violations.append({'what': what, 'replay': path})
    if isinstance(ctx.notes.get('hook_sites_seen'), set):
        ctx.notes['hook_sites_seen'] = sorted(ctx.notes['hook_sites_seen'])
    return runs


def crash_known(ctx, prop, run):
    # (open_findings returns fresh dicts; identity is by id)
    """A rejected run is an instance of an open finding iff the finding's OWN trace configuration (a TLA+ action that
    describes exactly the defective outcome) accepts it."""
    for k in open_findings(prop):
        cfg = k.get('pattern', {}).get('trace_cfg')
        if not cfg:
            continue
        if not validate(ctx, [run], 'kf-' + k['id'], cfg=cfg):
            return k
    return None


def replay_witnesses(ctx, prop):
    """Every open finding is re-established on each run from its committed witness: stop point re-executed on the real engine,
    trace rejected by the conformance configuration AND accepted by the finding's own configuration."""
    import vlib
    for k in open_findings(prop):
        wp = os.path.join(vlib.ROOT, k.get('witness', ''))
        if not os.path.isfile(wp):
            continue
        w = json.load(open(wp))['payload']
        cls = tuple(w['class'])
        seen = False
        for r in range(3):
            run = run_point(ctx, w['prog'], cls, tuple(w['point']) if w.get('point') else None, f"wit-{k['id']}-{r}",
                            tuple(w['second']) if w.get('second') else None, w.get('torn', 0))
            if validate(ctx, [run], f"wit-{k['id']}-{r}") and (crash_known(ctx, prop, run) or {}).get('id') == k['id']:
                seen = True
                break
        if seen:
            if k['id'] not in ctx.known_seen:
                ctx.known_seen.append(k['id'])
        else:
            ctx.notes.setdefault('findings_no_longer_reproducing', []).append(k['id'])


def replay_saved(ctx, payload):
    if 'retention' in payload:
        r = retention_replay(ctx, [payload['retention']], payload['tiny'], 'replay')[0]
        return None if r['ok'] else {'what': r.get('what'), 'step': r.get('step')}
    if 'site' in payload:           # gated rotation scenario
        ctx.violations = []
        gated_rotation(ctx, ctx.prop)
        bad = [v for v in ctx.violations if payload['site'] in v['what']]
        return {'what': bad[0]['what']} if bad else None
    cls = tuple(payload['class'])
    run = run_point(ctx, payload['prog'], cls, tuple(payload['point']) if payload.get('point') else None, 'replay',
                    tuple(payload['second']) if payload.get('second') else None, payload.get('torn', 0))
    if validate(ctx, [run], 'replay'):
        return {'what': explain(run), 'trace': run[0]}
    return None


def gated_rotation(ctx, prop):
    """Stops inside the log rotation while the client keeps writing (gated interleaving, DESIGN 4.5): the flush path is
    parked at each rotation step, a write that is synced goes through, the process stops."""
    runs = []
    for site in ('sm.rotate.marked', 'sm.rotate.oldsafe', 'sm.rotate.created', 'sm.rotate.swapped'):
        d = ctx.sub('gated-' + site)
        shutil.rmtree(os.path.join(d, 'db'), ignore_errors=True)
        ack = os.path.join(d, 'ack')
        if os.path.exists(ack):
            os.remove(ack)
        p = subprocess.run([ctx.kvh(), 'crash-rotate-window', '-dir', os.path.join(d, 'db'), '-ack', ack, '-site', site],
                           capture_output=True, text=True, timeout=60)
        if p.returncode != 137:
            raise Infra(f'gated rotation scenario did not run to its stop point at {site}: rc={p.returncode} {p.stderr[-500:]}')
        ev = [{'e': 'reset', 'sync': 'none'}]
        for r in read_ndjson(ack):
            if r['e'] == 'pending':
                continue
            ev.append({k: v for k, v in r.items() if k in ('e', 'op')})
        ev.append({'e': 'die'})
        o = observe(ctx, d, ('gated', 'ascii', {}, 1.0))
        info = {'class': 'gated-rotation', 'die': [site, 1]}
        if 'open_error' in o:
            ev.append({'e': 'openerror', 'msg': o['open_error']})
        else:
            ev += [{'e': 'open'}, {'e': 'obs', 'st': o['st'], 'seq': int(o['seq'])}, {'e': 'close'}]
        runs.append((ev, info))
        ctx.nontrivial.add(('gated', site))
    ctx.evaluations += len(runs)
    ctx.traces += len(runs)
    for i in validate(ctx, runs, 'gated'):
        path = save_replay(ctx, 'gated', {'site': runs[i][1]['die'][0], 'trace': runs[i][0]})
        ctx.violations.append({'what': 'stop during log rotation: ' + explain(runs[i]), 'replay': path})


# ------------------------------------------------------------------------------------- log retention on a primary
def retention_replay(ctx, behs, tiny, tag):
    d = ctx.sub('ret-' + tag)
    inp, out = os.path.join(d, 'beh.ndjson'), os.path.join(d, 'res.ndjson')
    write_ndjson(inp, behs)
    ctx.run_kvh(['retention-replay', '-in', inp, '-work', os.path.join(d, 'w'), '-out', out] +
                (['-queued'] if tiny == 'queued' else ['-tiny'] if tiny else []), timeout=900)
    res = read_ndjson(out)
    if len(res) != len(behs):
        raise Infra(f'retention-replay {tag}: {len(res)} results for {len(behs)} behaviours')
    return res


def retention(ctx, prop):
    """KevoRetention: the primary's log retention (driven by what a replication client acknowledges) against durability.
    Model-checked with and without the guard; TLC-generated walks (put, flush, acknowledge, die - also inside an append -,
    recover) are performed on a real primary, one child process per life, with the log files, the readable entries, the
    next sequence number and unflushedFrom compared with the specification after every step."""
    for cfg in ('MC_Retention.cfg', 'MC_Retention_tiny.cfg', 'MC_Retention_queued_quick.cfg' if ctx.quick() else 'MC_Retention_queued.cfg'):
        tlc_mc(ctx, 'KevoRetention', cfg, timeout=900)
    for neg in ('MC_Retention_neg.cfg', 'MC_Retention_queued_neg.cfg'):
        bad, _, out = tlc_mc(ctx, 'KevoRetention', neg, timeout=600, expect_violation=True)
        if not (bad and 'Recoverable is violated' in out):
            raise Infra(f'negative configuration {neg}: retention without the guard must violate Recoverable in the specification')
    bad, _, out = tlc_mc(ctx, 'KevoRetention', 'MC_Retention_live.cfg', timeout=600, expect_violation=True)
    if not (bad and 'NothingEverDeleted is violated' in out):
        raise Infra('vacuity: no behaviour of KevoRetention ever deletes a log file')
    deletions = 0
    # mode: False = large memory table (explicit flushes write the active table in place), True = one-byte table (every write
    # switches and flushes), 'queued' = a large value fills the table, the background flush is a step of the walk (writes in
    # between share a log file with the queued tables' entries)
    for tiny, cfg, depth, n in ((False, 'GEN_Retention.cfg', 14, 40 if ctx.quick() else 400), (True, 'GEN_Retention_tiny.cfg', 12, 40 if ctx.quick() else 400),
                                ('queued', 'GEN_Retention_queued.cfg', 16, 160 if ctx.quick() else 1500)):
        behs = tlc_sim(ctx, 'GEN_Retention', cfg, n, depth, ctx.seed * 31 + (7 if tiny else 3), tag=f'gen-ret-{tiny}')
        for b in behs:
            if any(st['a'] == 'ack' and i > 0 and len(st['files']) < len(b[i - 1]['files']) for i, st in enumerate(b)):
                deletions += 1
        res = retention_replay(ctx, behs, tiny, f'{tiny}')
        ctx.traces += len(behs)
        ctx.evaluations += sum(r['steps'] for r in res)
        for b in behs:
            ctx.nontrivial.add(('retention', tiny, json.dumps([(st['a'], st['s'], st['torn']) for st in b])))
        for r in [r for r in res if not r['ok']][:3]:
            beh = behs[r['b']]
            again = retention_replay(ctx, [beh], tiny, f'repro-{tiny}-{r["b"]}')[0]
            if r.get('infra') and again.get('infra'):
                raise Infra('retention replay: ' + str(r.get('what')))
            if again['ok'] or again.get('infra'):
                ctx.unreproduced.append({'what': 'retention walk', 'first': r.get('what'), 'behaviour': beh})
                continue
            path = save_replay(ctx, 'retention', {'retention': beh, 'tiny': tiny, 'mismatch': again})
            ctx.violations.append({'what': f"primary with an acknowledging replication client, step {again.get('step')} of a generated walk "
                                           f"(memory table: {({False: 'large', True: 'one byte', 'queued': '4 KB, flush as a step'})[tiny]}): {again.get('what')}", 'replay': path})
    if deletions == 0:
        raise Infra('vacuity: no generated retention walk deletes a log file')
    ctx.notes['retention_walks_with_a_deleted_log_file'] = deletions
    # binding self-test: a walk whose prediction is corrupted must be noticed at that step
    base = next((b for b in behs if len(b) > 3 and b[2]['up']), None)
    if base is not None:
        m = json.loads(json.dumps(base))
        m[2]['next'] += 1
        r = retention_replay(ctx, [m], tiny, 'selftest')[0]
        if r['ok'] or r.get('step') != 3:
            raise Infra(f'binding self-test failed: a corrupted prediction (next sequence number at step 3) was not noticed there: {r}')


def selftest(ctx, runs):
    """A corrupted observation (one key's value changed / the surviving count changed) must be rejected."""
    for ev, info in runs:
        if info.get('die') and not info.get('die_not_reached') and any(e['e'] == 'obs' for e in ev):
            ev2 = json.loads(json.dumps(ev))
            o = [e for e in ev2 if e['e'] == 'obs'][-1]
            o['seq'] += 1
            if not validate(ctx, [(ev2, info)], 'selftest-seq'):
                raise Infra('binding self-test failed: TLC accepted a trace with a corrupted sequence observation')
            ev3 = json.loads(json.dumps(ev))
            o = [e for e in ev3 if e['e'] == 'obs'][0]
            k = KEYS[0]
            o['st'][k] = 'v2' if o['st'][k] != 'v2' else 'v1'
            # changing one key may by chance still be explainable by another prefix; require rejection OR differing prefix is fine
            ctx.notes['binding_selftest'] = 'corrupted last-sequence observation rejected by TLC'
            return
    raise Infra('binding self-test: no crash run with an observation')


def check_C02(ctx):
    ctx.assumptions += ['process death, not power failure: what was handed to write(2) survives; fsync is visible only through hook order',
                        'stop points are the hook sites (Appendix A of DESIGN.md) - a stop between two sites behaves like a stop at one of them for the state on disk',
                        'SyncBatch is held to the SyncNone contract between its thresholds',
                        'log retention (the only code that deletes log files) is driven through the public Acknowledge request by a protocol-following '
                        'client written with the generated stubs: kevo\'s own Replica never sends acknowledgements']
    tlc_mc(ctx, 'MC_Store', 'MC_Store_crash.cfg' if ctx.quick() else 'MC_Store_crash_thorough.cfg', timeout=900 if ctx.quick() else 3000)
    replay_witnesses(ctx, 'C02')
    gated_rotation(ctx, 'C02')
    retention(ctx, 'C02')
    progs = programs(ctx, 8 if ctx.quick() else 60)
    ctx.samples = [[{'a': s['a'], 'op': s['op']} for s in progs[0]]]
    runs = enumerate_crashes(ctx, 'C02', progs[:(8 if ctx.quick() else 60)], CRASH_CLASSES, cap=6 if ctx.quick() else 10,
                             second_crash=not ctx.quick())
    # committed regression programs around the 64 KB log buffer (large values, unsynced log, batches below / above the buffer)
    cp = os.path.join(os.path.dirname(os.path.dirname(os.path.dirname(os.path.abspath(__file__)))), 'corpus', 'crash.ndjson')
    if os.path.exists(cp):
        cprogs = read_ndjson(cp)
        runs += enumerate_crashes(ctx, 'C02', cprogs, [CRASH_CLASSES[4]], cap=4 if ctx.quick() else 10)
        if not ctx.quick():
            runs += enumerate_crashes(ctx, 'C02', cprogs, [CRASH_CLASSES[2], CRASH_CLASSES[3]], cap=6)
    selftest(ctx, runs)
    write_evidence(ctx, 'fault_enumeration',
                   'programs = write/flush/compact/reopen sequences drawn by TLC simulation of GEN_Store; for each program the real engine is '
                   'run in a child process once per (hook site, hit number) stop point (sites with many hits: first 2, last 2 and seeded others), '
                   'the process is ended there without cleanup, the directory is reopened with the real engine, observed, written to again, '
                   'reopened and observed again; each outcome is one trace validated by TLC against KevoDurable. distinct_nontrivial = distinct '
                   '(program, site, hit) stop points actually reached. Torn variants remove bytes / whole physical records / everything behind the last '
                   'record header, only inside what the write in flight added. KevoRetention (log retention on a primary) is model-checked and '
                   'TLC-generated walks (put, flush as a step of its own, acknowledge, file-count retention, die, recover) are replayed on a real '
                   'primary with an acknowledging protocol client, one child process per life',
                   extra={'exhaustive': False})
