"""C03 (reader form, capture at call time, failed commits; crash form via props.crash), C04, C17: KevoTxn model-checked,
recorded transaction histories of the real engine validated by TLC against TRACE_Txn."""
import concurrent.futures as cf
import json
import os
import subprocess

from vlib import Infra, read_ndjson, save_replay, tlc_mc, validate_batch, write_evidence, open_findings, log
from props import crash

MEMCFGS = ['{"memtable_size":300,"max_memtables":3,"sync_mode":0,"compact_sec":3600}',
           '{"memtable_size":1048576,"max_memtables":4,"sync_mode":2,"compact_sec":3600}']


def run_cmd(ctx, args, tag, env=None, race=False, timeout=120):
    d = ctx.sub('txn-' + tag)
    out = os.path.join(d, 'trace.ndjson')
    e = dict(os.environ)
    if env:
        e.update(env)
    try:
        p = subprocess.run([ctx.kvh(race)] + args + ['-dir', os.path.join(d, 'db'), '-out', out], capture_output=True, text=True,
                           timeout=timeout, env=e)
    except subprocess.TimeoutExpired:
        return [{'e': 'reset'}, {'e': 'hang', 'msg': 'harness process timed out'}], 'timeout'
    ev = [r for r in read_ndjson(out) if r.get('e') != 'note'] if os.path.exists(out) else [{'e': 'reset'}]
    if p.returncode not in (0,):
        ev.append({'e': 'error', 'msg': f'rc={p.returncode} {p.stderr[-300:]}'})
    return ev, p.returncode


def free_runs(ctx, n, clients, ntx, mutate=False, tagp='free'):
    jobs = []
    for i in range(n):
        seed = ctx.seed * 100 + i
        args = ['txn-run', '-seed', str(seed), '-clients', str(clients[i % len(clients)]), '-tx', str(ntx),
                '-cfg', MEMCFGS[i % len(MEMCFGS)]] + (['-mutate'] if mutate else []) + \
               (['-class', 'binary'] if i % 3 == 2 else [])
        env = {'VERIF_YIELD': f'{seed}:{(i % 4) * 60}'} if i % 4 else {}
        jobs.append((args, env, f'{tagp}{i}'))
    runs = [None] * len(jobs)
    with cf.ThreadPoolExecutor(max_workers=12) as ex:
        futs = {ex.submit(run_cmd, ctx, a, t, e): j for j, (a, e, t) in enumerate(jobs)}
        for f in cf.as_completed(futs):
            runs[futs[f]] = f.result()[0]
    return runs, jobs


def judge(ctx, prop, runs, jobs, tag, rerun):
    """Validate recorded runs; a rejected run is re-recorded with the same arguments up to 4 times: it counts if a rejection
    happens again (concurrent schedules vary), else it is listed as unreproduced."""
    ctx.traces += len(runs)
    ctx.evaluations += len(runs)
    for i, r in enumerate(runs):
        if any(e.get('e') == 'notreached' for e in r):
            raise Infra(f'scenario {jobs[i][0]} never reached its hook site (hook renamed or removed?)')
    for i, r in enumerate(runs):
        if len(r) > 10:
            ctx.nontrivial.add((tag, i, len(r)))
    for i in validate_batch(ctx, 'TRACE_Txn', 'TRACE_Txn.cfg', runs, tag)[:4]:
        again = False
        for k in range(4):
            r2 = rerun(jobs[i], f'{tag}-repro{i}-{k}')
            if validate_batch(ctx, 'TRACE_Txn', 'TRACE_Txn.cfg', [r2], f'{tag}-repro{i}-{k}'):
                again = True
                break
        bad = [e for e in runs[i] if e.get('e') in ('error', 'hang', 'notreached')]
        what = f'{tag} {jobs[i][0][:8]}: ' + (bad[0].get('msg', bad[0]['e']) if bad else 'recorded history is not a behaviour of KevoTxn')
        if not again:
            ctx.unreproduced.append({'what': what})
            continue
        path = save_replay(ctx, 'txn', {'args': jobs[i][0], 'env': jobs[i][1], 'trace': runs[i]})
        ctx.violations.append({'what': what, 'replay': path})


def gated_jobs():
    jobs = []
    for n in (2, 3):
        sites = [('sm.batch.locked', 1), ('sm.batch.logged', 1), ('sm.batch.applied', 1), ('tx.commit.applied', 1), ('tx.commit.pre', 1),
                 ('wal.batch.written', 1), ('tx.unlocking', 1)]
        sites += [('sm.batch.entry', i) for i in range(1, n + 1)]        # hits are counted from the moment the gate is armed
        sites += [('wal.batch.rec', i) for i in range(1, n + 1)]
        for s, h in sites:
            for d in (False, True):
                jobs.append((['txn-gated', '-site', s, '-hit', str(h), '-n', str(n)] + (['-del'] if d else []), {}, f'gated-{s}-{h}-{n}-{int(d)}'))
    return jobs


def run_jobs(ctx, jobs, workers=12):
    runs = [None] * len(jobs)
    with cf.ThreadPoolExecutor(max_workers=workers) as ex:
        futs = {ex.submit(run_cmd, ctx, a, t, e): j for j, (a, e, t) in enumerate(jobs)}
        for f in cf.as_completed(futs):
            runs[futs[f]] = f.result()[0]
    return runs


def selftest(ctx, runs):
    """Corrupt one read result / drop one unlocking event of an accepted history: TLC must reject both."""
    for r in runs:
        gets = [i for i, e in enumerate(r) if e.get('e') == 'get' and e.get('res') != 'NONE']
        unl = [i for i, e in enumerate(r) if e.get('e') == 'unlocking']
        if gets and unl:
            r2 = json.loads(json.dumps(r))
            r2[gets[0]]['res'] = 'v9' if r2[gets[0]]['res'] != 'v9' else 'v8'
            r3 = [e for i, e in enumerate(r) if i != unl[0]]
            if not validate_batch(ctx, 'TRACE_Txn', 'TRACE_Txn.cfg', [r2], 'selftest-get'):
                raise Infra('binding self-test failed: a corrupted read result was accepted')
            if not validate_batch(ctx, 'TRACE_Txn', 'TRACE_Txn.cfg', [r3], 'selftest-unlock'):
                raise Infra('binding self-test failed: a history with a missing unlock was accepted')
            ctx.notes['binding_selftest'] = 'corrupted read result rejected; history without one unlock event rejected'
            return
    raise Infra('binding self-test: no suitable history')


def rerun_plain(ctx):
    return lambda job, tag: run_cmd(ctx, job[0], tag, job[1])[0]


def check_C03(ctx):
    ctx.assumptions += ['gated interleavings are explored at hook granularity; a call counts as waiting if it has not returned after 250 ms',
                        'crash form: see C02 (process death at hook sites, torn tail only for the write in flight)']
    tlc_mc(ctx, 'KevoTxn', 'MC_Txn.cfg', timeout=900)
    tlc_mc(ctx, 'MC_Store', 'MC_Store_crash.cfg', timeout=900)
    # (1) reader form: committer parked at every step of its commit
    gj = gated_jobs()
    gruns = run_jobs(ctx, gj)
    judge(ctx, 'C03', gruns, gj, 'gated', rerun_plain(ctx))
    ctx.samples = [gruns[0][:40]]
    # (2) failed commits leave no trace
    fj = [(['txn-failcommit', '-site', s], {}, f'fail-{s}') for s in ('sm.rotate.marked', 'sm.rotate.oldsafe', 'sm.rotate.created')]
    fruns = run_jobs(ctx, fj)
    if not any(any(e.get('e') == 'cret' and e.get('ok') is False for e in r) for r in fruns):
        ctx.notes['failed_commit_scenario'] = 'no commit failed in the rotation-parked scenarios (retry budget not exceeded)'
    judge(ctx, 'C03', fruns, fj, 'failcommit', rerun_plain(ctx))
    # (3) captured at call time, last write wins, rollback leaves no trace: free-running histories with buffer reuse
    n = 10 if ctx.quick() else 80
    runs, jobs = free_runs(ctx, n, [3, 4], 6, mutate=True, tagp='mut')
    judge(ctx, 'C03', runs, jobs, 'mutate', rerun_plain(ctx))
    selftest(ctx, runs)
    # (4) crash form: stop at every hook site during programs dominated by multi-entry commits
    crash.replay_witnesses(ctx, 'C03')
    progs = [b for b in crash.programs(ctx, 30 if ctx.quick() else 200)
             if sum(1 for s in b if s['a'] == 'commit' and len(s['op']) >= 2) >= 2]
    progs = progs[:(8 if ctx.quick() else 40)]
    if not progs:
        raise Infra('no batch-heavy program generated')
    classes = [crash.CRASH_CLASSES[4], crash.CRASH_CLASSES[0], crash.CRASH_CLASSES[3], crash.CRASH_CLASSES[2]]
    crash.enumerate_crashes(ctx, 'C03', progs, classes, cap=5 if ctx.quick() else 10)
    # the committed crash programs: transactions of large values around the 64 KB log buffer with an unsynced log
    import vlib
    cprogs = vlib.read_ndjson(os.path.join(vlib.ROOT, 'corpus', 'crash.ndjson'))
    crash.enumerate_crashes(ctx, 'C03', cprogs, [crash.CRASH_CLASSES[4]], cap=3 if ctx.quick() else 10)
    write_evidence(ctx, 'model_checking',
                   'KevoTxn (CommitIsOneStep, RollbackLeavesNoTrace) and KevoStore=>KevoDurable (a batch is one log element) model-checked; '
                   'bound to the code by (1) gated interleavings: the committer is parked at each hook site of its commit (lock taken, batch '
                   'logged, every memtable insert, applied, before unlock) while all keys are read from outside and a read-only transaction is '
                   'requested - each recorded history validated by TLC against TRACE_Txn (a read that returns while the batch is being applied '
                   'is rejected), (2) commits made to fail by a parked log rotation, (3) free-running transaction histories in which the caller '
                   'overwrites its key/value buffers after every call, (4) crash enumeration at every hook site of batch-heavy programs '
                   '(validated against KevoDurable). distinct_nontrivial = distinct gated sites/histories/stop points reached')


def check_C04(ctx):
    ctx.assumptions += ['direct (non-transactional) writes are not part of the histories (excluded by the property)',
                        'the pending-writer rule of the RWMutex is not demanded when validating (begin requests are logged before the Lock call)',
                        'schedules are sampled (seeded free-running clients with yield perturbation), each history is decided by TLC']
    tlc_mc(ctx, 'KevoTxn', 'MC_Txn.cfg', timeout=900)
    tlc_mc(ctx, 'KevoTxn', 'MC_TxnLive.cfg', timeout=900)
    n = 36 if ctx.quick() else 10000
    runs, jobs = free_runs(ctx, n, [3, 4, 6] if ctx.quick() else [2, 3, 4, 6, 8], 6 if ctx.quick() else 10)
    ctx.samples = [runs[0][:40]]
    judge(ctx, 'C04', runs, jobs, 'free', rerun_plain(ctx))
    selftest(ctx, runs)
    write_evidence(ctx, 'model_checking',
                   'KevoTxn model-checked (Mutex, SnapshotStable, CommitIsOneStep; liveness EveryTxEnds in the data-free configuration); '
                   'bound to the code by recorded histories: 3-6 client goroutines run seeded random read-only/read-write transactions '
                   '(gets, scans, puts, deletes, commit/rollback, use after end) with schedule perturbation at the hook sites; grant, apply and '
                   'unlock are logged at their linearisation points inside the hooks, every read with its result; TLC must find each history '
                   'to be a behaviour of KevoTxn: every read = storage state at grant + own writes, final state = result of the commits in '
                   'lock order. distinct_nontrivial = histories with more than 10 events')


def check_C17(ctx):
    ctx.assumptions += ['a client holding two transactions at once is excluded (documented limitation, as the property says)',
                        'the lifetime limit is exercised only in the thorough tier (it is 60 s for read-write transactions)',
                        'gRPC-level variants (over-long key in TxGet, unknown handles) are covered by the service check C19',
                        'liveness is model-checked; on the implementation it is the finite PROBE: a fresh read-write transaction is granted within 5 s']
    tlc_mc(ctx, 'KevoTxn', 'MC_Txn.cfg', timeout=900)
    tlc_mc(ctx, 'KevoTxn', 'MC_TxnLive.cfg', timeout=900)
    # (1) registry scenarios; the begin time-out path is a coin flip per occurrence on defective code: several instances in parallel
    scen = ['idle', 'conn', 'shutdown', 'idle-ro', 'conn-ro', 'shutdown-ro'] + ['timeout-rw'] * 4 + ['timeout-ro'] * 4 + ['deadline-rw', 'deadline-ro', 'cancel-rw', 'cancel-ro'] * 2
    if not ctx.quick():
        scen += ['ttl'] + ['timeout-rw'] * 8 + ['timeout-ro'] * 8
    jobs = [(['txn-registry', '-scenario', s], {}, f'reg-{s}-{i}') for i, s in enumerate(scen)]
    runs = run_jobs(ctx, jobs, workers=len(jobs))
    judge(ctx, 'C17', runs, jobs, 'registry', rerun_plain(ctx))
    ctx.samples = [runs[0], runs[3]]
    # (1b) a commit that FAILS (log rotation parked past the retry budget) must release the lock as well
    fj = [(['txn-failcommit', '-site', s_], {}, f'c17fail-{s_}') for s_ in ('sm.rotate.marked', 'sm.rotate.oldsafe')]
    fruns = run_jobs(ctx, fj)
    judge(ctx, 'C17', fruns, fj, 'failcommit', rerun_plain(ctx))
    # (2) double finish / use after finish / lock released when Commit and Rollback return: free-running histories
    n = 16 if ctx.quick() else 1000
    fr, fj = free_runs(ctx, n, [3, 4, 6], 6, tagp='c17free')
    judge(ctx, 'C17', fr, fj, 'free', rerun_plain(ctx))
    selftest(ctx, fr)
    if not any(e.get('e') == 'again' for r in fr for e in r):
        raise Infra('no use-after-finish event recorded')
    write_evidence(ctx, 'model_checking',
                   'KevoTxn with the registry actions (BeginTimeout, Abandon, Reap) model-checked: UnlockByHolder, QuiescentLockFree and, under '
                   'fairness of grants/clients/reaper, EveryTxEnds. Bound by recorded histories validated by TLC against TRACE_Txn: registry '
                   'scenarios (abandoned transaction reaped by idle limit / connection cleanup / shutdown / lifetime limit; a begin that times '
                   'out after 10 s while the lock is held, its late grant must be rolled back) each followed by the probe "a fresh read-write '
                   'transaction is granted", and free-running client histories with double finish and use after finish (closed error, lock '
                   'released exactly once, released when Commit/Rollback returns). distinct_nontrivial = histories with more than 10 events')


def replay_saved(ctx, payload):
    if 'prog' in payload or 'site' in payload:
        return crash.replay_saved(ctx, payload)
    r = run_cmd(ctx, payload['args'], 'replay', payload.get('env'))[0]
    if validate_batch(ctx, 'TRACE_Txn', 'TRACE_Txn.cfg', [r], 'replay'):
        return {'what': 'recorded history is not a behaviour of KevoTxn', 'trace_len': len(r)}
    if validate_batch(ctx, 'TRACE_Txn', 'TRACE_Txn.cfg', [payload['trace']], 'replay-saved'):
        return {'what': 'the saved history is not a behaviour of KevoTxn (a fresh run with the same arguments conformed)'}
    return None
