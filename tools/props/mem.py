"""C18: the memtable is a correct ordered multi-version map under concurrent readers.

KevoMem (skiplist at pointer grain, one writer, stepping readers) is model-checked exhaustively; GEN_Mem draws
sequential and two-process (gated) behaviours with the observation the specification predicts after every call, and the
harness (`kvh mem-replay`) executes them on the real pkg/memtable: the writer goroutine is parked inside
SkipList.Insert at sl.insert.node_next(l) / sl.insert.pred_next(l), a reader can be parked between the descent and the
landing of Seek/Find.  EXTRA, apart from that: a free-running stress on a `-race` build whose recorded observations are
judged by TLC with KevoMem's own predicate (OBS_Mem)."""
import concurrent.futures as cf
import json
import os
import re
import threading

import vlib
from vlib import Infra, read_ndjson, save_replay, tlc_mc, tlc_sim, tlc_trace, write_ndjson, write_evidence, open_findings, ROOT, log

QUICK_MC = ['MC_Mem_quick.cfg', 'MC_Mem_quick4.cfg', 'MC_Mem_quick_r2.cfg']
THOROUGH_MC = ['MC_Mem_quick.cfg', 'MC_Mem_quick_r2.cfg', 'MC_Mem_t4_first.cfg', 'MC_Mem_t4_seek.cfg', 'MC_Mem_t4_find.cfg', 'MC_Mem_t_r2.cfg']
# the specification's own sensitivity: configurations that differ from the checked ones in ONE design decision and must
# violate the named invariant (otherwise the invariants are too weak to mean anything)
SPEC_MUTANTS = [('MC_Mem_mut_publishfirst.cfg', 'pred.next stored before node.next'),
                ('MC_Mem_mut_topdown.cfg', 'levels linked from the top down'),
                ('MC_Mem_mut_reload.cfg', 'Seek/Find take whatever a second load of pred.next[0] returns')]
CLASSES = ['ascii', 'binary', 'big']
READER_HOOKS = ('sl.seek.descended', 'sl.find.descended')


def has_reader_hooks():
    try:
        with open(os.path.join(vlib.REPO, 'pkg', 'memtable', 'skiplist.go')) as f:
            src = f.read()
    except OSError:
        return False
    return all(h in src for h in READER_HOOKS)


def corpus(name):
    p = os.path.join(ROOT, 'corpus', name)
    return read_ndjson(p) if os.path.exists(p) else []


def replay(ctx, behs, cls, tag, grace=25, hang=5000):
    """Execute behaviours on the real memtable; returns the list of result records (one per behaviour)."""
    d = ctx.sub('mem-' + tag)
    inp, out = os.path.join(d, 'in.ndjson'), os.path.join(d, 'out.ndjson')
    write_ndjson(inp, behs)
    ctx.run_kvh(['mem-replay', '-in', inp, '-out', out, '-class', cls, '-seed', str(ctx.seed), '-grace', str(grace),
                 '-retries', '400', '-hang', str(hang)], timeout=900)
    res = read_ndjson(out)
    if len(res) != len(behs):
        raise Infra(f'mem-replay {tag}: {len(res)} results for {len(behs)} behaviours')
    return res


def replay_sharded(ctx, behs, cls, tag, shards):
    shards = max(1, min(shards, len(behs)))
    parts = [behs[i::shards] for i in range(shards)]
    with cf.ThreadPoolExecutor(max_workers=shards) as ex:
        rs = list(ex.map(lambda i: replay(ctx, parts[i], cls, f'{tag}-{i}'), range(shards)))
    out = []
    for i, part in enumerate(rs):
        for j, r in enumerate(part):
            out.append((parts[i][j], r))
    return out


def describe(beh, r):
    st = beh[r['step']] if r.get('step', 0) < len(beh) else {}
    return (f"step {r.get('step')} {r.get('a')}"
            + (f" {st.get('op')}" if st.get('op') else '')
            + f": {r.get('kind')}: expected {r.get('exp')} got {r.get('got')} {r.get('msg', '')}").strip()


def matches_known(r, beh):
    for k in open_findings('C18'):
        pat = k.get('pattern', {})
        if pat.get('kind') and pat['kind'] != r.get('kind'):
            continue
        if pat.get('action') and pat['action'] != r.get('a'):
            continue
        if pat.get('msg_re') and not re.search(pat['msg_re'], r.get('msg', '')):
            continue
        return k
    return None


def judge(ctx, pairs, cls, tag):
    """pairs: (behaviour, result).  Reproduce every disagreement twice; classify."""
    n_bad = 0
    for beh, r in pairs:
        ctx.notes['soft_deviations'] = ctx.notes.get('soft_deviations', 0) + r.get('soft', 0)
        if r.get('ok'):
            continue
        if r.get('infra'):
            raise Infra(f"mem-replay could not execute a behaviour ({cls}): {r['infra']} at step {r.get('step')} of {json.dumps(beh)[:400]}")
        n_bad += 1
        if n_bad > 6:
            continue
        # node heights are random in the code, so a disagreement that depends on them does not recur on every execution:
        # up to 12 re-executions, two of which must fail at the same step in the same way
        again = 0
        for i in range(12):
            r2 = replay(ctx, [beh], cls, f'{tag}-repro{i}')[0]
            if not r2.get('ok') and not r2.get('infra') and r2.get('step') == r.get('step') and r2.get('kind') == r.get('kind'):
                again += 1
                if again == 2:
                    break
        what = f'{cls}: ' + describe(beh, r)
        if again < 2:
            ctx.unreproduced.append({'what': what})
            continue
        k = matches_known(r, beh)
        if k:
            if k['id'] not in ctx.known_seen:
                ctx.known_seen.append(k['id'])
            continue
        path = save_replay(ctx, 'mem', {'behaviour': beh, 'class': cls, 'mismatch': r})
        ctx.violations.append({'what': what, 'replay': path})
    return n_bad


def selftest(ctx, seq_behs, gated_behs):
    """The replay must notice a wrong expectation (sequential) and a wrong blocked/lock-free prediction (gated)."""
    notes = []
    # 1. a predicted Get value / iteration order changed
    done = False
    for beh in seq_behs:
        idx = [i for i, s in enumerate(beh) if s['a'] == 'scan' and len(s['exp']) >= 2]
        if not idx:
            continue
        if not replay(ctx, [beh], 'ascii', 'selftest-seq0')[0].get('ok'):
            continue            # this behaviour disagrees by itself (reported by the main run): not usable as a control
        b2 = json.loads(json.dumps(beh))
        i = idx[-1]
        b2[i]['exp'][0], b2[i]['exp'][1] = b2[i]['exp'][1], b2[i]['exp'][0]
        r = replay(ctx, [b2], 'ascii', 'selftest-seq')[0]
        if r.get('ok') or r.get('step') != i:
            raise Infra('binding self-test failed: a swapped pair in a predicted iteration order was not noticed')
        notes.append(f'swapped iteration order at step {i} noticed')
        done = True
        break
    if not done:
        return False
    # 2. gated: a call predicted BLOCKED is declared lock-free with the pre-state value, and a lock-free iterator step
    #    while the writer is parked gets the post-state prediction
    done = False
    for beh in gated_behs:
        idx = [i for i, s in enumerate(beh) if s['a'] == 'tget' and s.get('exp') == 'BLOCKED']
        if not idx:
            continue
        i = idx[0]
        if not replay(ctx, [beh], 'ascii', 'selftest-gated0')[0].get('ok'):
            continue
        b2 = json.loads(json.dumps(beh))
        p = b2[i]['p']
        b2[i]['exp'] = 'NONE-OR-ANY'
        del b2[i]['p']
        for s in b2:
            if s['a'] == 'release':
                s['rets'] = [x for x in s['rets'] if x['p'] != p]
        r = replay(ctx, [b2], 'ascii', 'selftest-gated', hang=700)[0]
        if r.get('infra'):
            continue
        if r.get('ok') or r.get('step') != i or r.get('kind') != 'hang':
            raise Infra('binding self-test failed: a lock-taking call declared lock-free was not noticed: ' + json.dumps(r))
        notes.append(f'BLOCKED prediction removed at step {i} noticed ({r.get("kind")})')
        done = True
        break
    if not done:
        return False
    done = False
    for beh in gated_behs:
        parked = False
        for i, s in enumerate(beh):
            if s['a'] == 'park':
                parked = True
            elif s['a'] == 'release':
                parked = False
            elif parked and s['a'] == 'first' and s['exp']['v'] != 'END' and 'req' in s:
                # the iterator is older than the parked insert, so it is judged by what C18 demands (nothing of `req` skipped):
                # claim that an entry sorting before everything had been inserted before the iterator was created
                if not replay(ctx, [beh], 'ascii', 'selftest-gated1')[0].get('ok'):
                    break
                b2 = json.loads(json.dumps(beh))
                fake = {'k': 1, 's': 9, 'v': 'v1'}
                b2[i]['exp'] = fake
                b2[i]['req'] = [fake] + b2[i]['req']
                r = replay(ctx, [b2], 'ascii', 'selftest-gated2')[0]
                if r.get('infra'):
                    break
                if r.get('ok') or r.get('step') != i:
                    raise Infra('binding self-test failed: a corrupted lock-free iterator observation was not noticed')
                notes.append(f'corrupted iterator observation under a parked writer at step {i} noticed')
                done = True
                break
        if done:
            break
    if not done:
        return False
    ctx.notes['binding_selftest'] = '; '.join(notes)
    return True


def gated_stats(ctx, pairs):
    sites = {}
    for beh, r in pairs:
        parked = None
        for s in beh:
            if s['a'] == 'park':
                parked = f"{s['site']}({s['lvl']})"
            elif s['a'] == 'release':
                parked = None
            elif s['a'] == 'rpark':
                sites[f"reader@{s['op']}.descended" + (f" x writer@{parked}" if parked else '')] = \
                    sites.get(f"reader@{s['op']}.descended" + (f" x writer@{parked}" if parked else ''), 0) + 1
            elif parked and s['a'] in ('tget', 'newiter', 'first', 'seek', 'next', 'scan', 'seekscan'):
                blocked = s.get('exp') == 'BLOCKED'
                key = f"writer@{parked} x {s['a']}" + (':blocked' if blocked else ':lockfree')
                sites[key] = sites.get(key, 0) + 1
                ctx.nontrivial.add((parked, s['a'], blocked, json.dumps(s.get('exp'), sort_keys=True)[:80]))
    ctx.notes['gated_pairs_exercised'] = dict(sorted(sites.items()))
    need = [f'{st}({l})' for st in ('node_next', 'pred_next') for l in (0, 1)]
    missing = [n for n in need if not any(k.startswith('writer@' + n) for k in sites)]
    if missing:
        raise Infra('vacuous gated run: no reader call ran while the writer was parked at ' + ', '.join(missing))


def stress(ctx, rounds):
    """EXTRA (not the oracle-bearing part): free-running writer + lock-free iterators on a -race build."""
    bad = []
    for i in range(rounds):
        d = ctx.sub('mem-stress')
        out = os.path.join(d, f'stress-{i}.ndjson')
        p = ctx.run_kvh(['mem-stress', '-out', out, '-seed', str(ctx.seed * 131 + i), '-n', '60'], race=True, timeout=300, check=False)
        if 'DATA RACE' in p.stderr:
            bad.append(('race', p.stderr[-1500:], None))
            continue
        if p.returncode != 0:
            raise Infra('mem-stress failed: ' + p.stderr[-1500:])
        with open(out) as f:
            data = json.load(f)
        with open(out, 'w') as f:
            f.write(json.dumps(data) + '\n')
        ok, hw, st, tout = tlc_trace(ctx, 'OBS_Mem', 'OBS_Mem.cfg', out, timeout=300, tag=f'obs-{i}', trace_name='stress.ndjson')
        ctx.traces += 1
        ctx.evaluations += len(data['obs'])
        if not ok:
            bad.append(('obs', 'an iterator running against the live writer yielded a sequence KevoMem!ObsOK rejects', data))
    return bad


def check_C18(ctx):
    ctx.assumptions += [
        'bounded model: <= 4 inserts over 2 keys, sequence numbers from a 2-element set in any order (repeats allowed), heights <= 2, '
        'one writer, 1-2 readers stepping pointer by pointer (constants in the cfg files named under mc_runs)',
        'interleavings on the real code are explored at hook granularity: the writer is held after each pointer store of an insert, '
        'a reader between descent and landing of Seek/Find; finer reader/writer interleavings are covered by the model only',
        'node heights are random in the code and cannot be set: a park point that needs a taller node is retried until it is hit',
        'SetImmutable may hit while an insert is in flight (MemTable API level); the pool excludes that with its own lock',
        'GetMemTables: C18 checks active-first and each immutable once; the ORDER of the immutables is recorded, not judged (C05)',
    ]
    quick = ctx.quick()
    mc_err = []

    def mc_thread():
        try:
            for cfg in (QUICK_MC if quick else THOROUGH_MC):
                tlc_mc(ctx, 'MC_Mem', cfg, timeout=900 if quick else 1500)
            sens = []
            for cfg, what in SPEC_MUTANTS:
                bad, st, out = tlc_mc(ctx, 'MC_Mem', cfg, timeout=200, expect_violation=True)
                m = re.search(r'Invariant (\w+) is violated', out)
                if not bad or not m:
                    raise Infra(f'the specification is too weak: {cfg} ({what}) violates no invariant')
                sens.append(f'{what} -> {m.group(1)}')
            ctx.notes['spec_sensitivity'] = sens
        except Exception as e:      # noqa: BLE001
            mc_err.append(e)

    th = threading.Thread(target=mc_thread)
    th.start()
    try:
        ctx.kvh()
        n_seq, n_gated = (300, 260) if quick else (3000, 2500)
        seq = tlc_sim(ctx, 'GEN_Mem', 'GEN_Mem_seq.cfg', n_seq, 600, ctx.seed * 13 + 5, timeout=600, tag='gen-seq')
        # dense: ONE key, seven sequence numbers - many versions side by side, so that iterators created earlier find several
        # entries they must not show right at their seek target
        seq += tlc_sim(ctx, 'GEN_Mem', 'GEN_Mem_seq_dense.cfg', n_seq // 2, 600, ctx.seed * 13 + 6, timeout=600, tag='gen-seq-dense')
        gated = tlc_sim(ctx, 'GEN_Mem', 'GEN_Mem_gated.cfg', n_gated, 600, ctx.seed * 17 + 3, timeout=600, tag='gen-gated')
        hooks = has_reader_hooks()
        cg = corpus('mem.ndjson')
        if not hooks:
            gated = [b for b in gated if not any(s['a'] == 'rpark' for s in b)]
            cg = [b for b in cg if not any(s['a'] == 'rpark' for s in b)]
            ctx.notes['reader_hooks'] = 'absent in this tree: behaviours that hold a reader between descent and landing were dropped'
        else:
            ctx.notes['reader_hooks'] = 'present'
        gated = cg + gated
        tested = selftest(ctx, seq, gated)
        # sequential behaviours under every byte-shape class
        orders = set()
        with cf.ThreadPoolExecutor(max_workers=len(CLASSES)) as ex:
            rs = list(ex.map(lambda c: (c, replay(ctx, seq, c, 'seq-' + c)), CLASSES))
        for cls, res in rs:
            pairs = list(zip(seq, res))
            ctx.traces += len(pairs)
            orders |= {r.get('order') for r in res if r.get('order')}
            judge(ctx, pairs, cls, 'seq-' + cls)
        for b in seq:
            if any(s['a'] == 'put' and not s['ign'] for s in b):
                ctx.nontrivial.add(json.dumps([[s['a'], s.get('k'), s.get('s'), s.get('v'), s.get('t')] for s in b if s['a'] in ('put', 'switch', 'setactive', 'setimm')]))
        # gated behaviours
        for cls, part in (('ascii', gated[0::2]), ('binary', gated[1::2])):
            pairs = replay_sharded(ctx, part, cls, 'gated-' + cls, 8)
            ctx.traces += len(pairs)
            orders |= {r.get('order') for b, r in pairs if r.get('order')}
            judge(ctx, pairs, cls, 'gated-' + cls)
            if cls == 'ascii':
                gated_stats(ctx, pairs)
                ctx.notes['park_points_hit'] = sum(r.get('parked', 0) for b, r in pairs)
        ctx.evaluations += sum(len(b) for b in seq) * len(CLASSES) + sum(len(b) for b in gated)
        ctx.notes['getmemtables_order_of_immutables'] = sorted(orders) or ['never more than one immutable']
        ctx.samples = [[{k: v for k, v in s.items() if k != 'chain'} for s in next((b for b in gated if any(s['a'] == 'park' for s in b)), gated[0])[:14]]]
    finally:
        th.join()
    if mc_err:
        raise mc_err[0]
    if not tested and not ctx.violations and not ctx.known_seen:
        raise Infra('binding self-test: no generated behaviour was usable as a control')
    if ctx.notes.get('soft_deviations') and not ctx.violations:
        # iterators that outlived inserts showed something else than predicted, yet nothing C18 forbids: the specification's
        # snapshot model (snapSeq = nextSeqNum at creation, 0 = no filtering) no longer describes the code
        raise Infra(f"{ctx.notes['soft_deviations']} iterator observation(s) deviate from KevoMem's snapshot model without breaking C18: "
                    'update the model (Iterator.isVisible / MemTable.NewIterator changed?)')
    # EXTRA: stress with the race detector
    if not ctx.violations:
        bad = stress(ctx, 2 if quick else 12)
        if bad:
            again = stress(ctx, 3)
            kind, what, data = bad[0]
            if again and again[0][0] == kind:
                path = save_replay(ctx, 'memstress', {'kind': kind, 'what': what, 'data': data})
                ctx.violations.append({'what': 'EXTRA stress (-race): ' + what, 'replay': path})
            else:
                ctx.unreproduced.append({'what': 'EXTRA stress (-race): ' + what})
        ctx.notes['extra_stress'] = 'free-running writer + 3 lock-free iterators on a -race build; observations judged by TLC (OBS_Mem, KevoMem!ObsOK)'
    write_evidence(ctx, 'model_checking',
                   'KevoMem model-checked exhaustively (mc_runs); behaviours = call sequences drawn by TLC simulation of GEN_Mem with the '
                   'predicted observation after every call: sequential ones replayed under 3 byte-shape classes, gated ones (writer parked after a '
                   'pointer store of SkipList.Insert and/or reader parked between descent and landing) replayed with blocked / lock-free '
                   'predictions; distinct_nontrivial = distinct write/switch sequences plus distinct (park point, reader call, blocked?, predicted '
                   'observation) combinations; traces = behaviours executed on the real memtable (+ stress runs judged by TLC)',
                   exhaustive=False)


def replay_saved(ctx, payload):
    if 'behaviour' not in payload:
        bad = stress(ctx, 3)
        return {'what': bad[0][1]} if bad else None
    r = replay(ctx, [payload['behaviour']], payload['class'], 'replay')[0]
    if r.get('infra'):
        raise Infra('cannot re-execute the saved behaviour: ' + r['infra'])
    return None if r.get('ok') else r
