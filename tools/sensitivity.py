#!/usr/bin/env python3
"""Sensitivity runner (never part of a registered command): applies one patch (a reverted fix: commit, a hand-made mutant or a
seeded change) to a scratch worktree of /repo outside /repo and /verif, runs the quick checks of the properties expected to
notice it with VERIF_REPO pointing there, records exit codes in mutants/RESULTS.json, removes the worktree.
usage: sensitivity.py <patch> <Cxx>[,<Cyy>...]  |  sensitivity.py --table <file with lines 'patch props'> [--jobs N]"""
import concurrent.futures as cf
import json
import os
import subprocess
import sys
import threading

ROOT = os.path.dirname(os.path.dirname(os.path.abspath(__file__)))
RES = os.path.join(ROOT, 'mutants', 'RESULTS.json')
lock = threading.Lock()


def one(patch, props, idx):
    wt = f'/var/tmp/kevo-sens-{os.getpid()}-{idx}'
    subprocess.run(['git', '-C', '/repo', 'worktree', 'add', '-q', '--detach', wt, 'HEAD'], check=True)
    out = {}
    try:
        p = subprocess.run(['git', 'apply', patch], cwd=wt, capture_output=True, text=True)
        if p.returncode != 0:
            return {'error': 'patch does not apply: ' + p.stderr[-200:]}
        env = dict(os.environ, GOFLAGS='-mod=mod', GOPROXY='off')
        p = subprocess.run(['go', 'build', './...'], cwd=wt, env=env, capture_output=True, text=True)
        if p.returncode != 0:
            return {'error': 'does not compile'}
        for pr in props:
            e = dict(os.environ, VERIF_REPO=wt)
            p = subprocess.run(['./check', pr, '--tier', 'quick'], cwd=ROOT, env=e, capture_output=True, text=True)
            first = [l for l in p.stdout.splitlines() if l.startswith('disagreement')][:1] or \
                    [l for l in (p.stdout + p.stderr).splitlines() if l.startswith('INFRA')][:1]
            out[pr] = {'exit': p.returncode, 'first': first[0][:300] if first else ''}
    finally:
        subprocess.run(['git', '-C', '/repo', 'worktree', 'remove', '--force', wt], capture_output=True)
        subprocess.run(['rm', '-rf', wt])
    return out


def record(patch, res):
    with lock:
        allr = json.load(open(RES)) if os.path.exists(RES) else {}
        allr[os.path.relpath(patch, ROOT)] = res
        with open(RES, 'w') as f:
            json.dump(allr, f, indent=1, sort_keys=True)
            f.write('\n')


def main():
    if sys.argv[1] == '--table':
        jobs = int(sys.argv[sys.argv.index('--jobs') + 1]) if '--jobs' in sys.argv else 2
        rows = [l.split() for l in open(sys.argv[2]) if l.strip() and not l.startswith('#')]
        with cf.ThreadPoolExecutor(max_workers=jobs) as ex:
            futs = {ex.submit(one, os.path.join(ROOT, r[0]), r[1].split(','), i): r for i, r in enumerate(rows)}
            for f in cf.as_completed(futs):
                r = futs[f]
                res = f.result()
                record(os.path.join(ROOT, r[0]), res)
                print(r[0], res, flush=True)
    else:
        res = one(os.path.abspath(sys.argv[1]), sys.argv[2].split(','), 0)
        record(os.path.abspath(sys.argv[1]), res)
        print(json.dumps(res, indent=1))


if __name__ == '__main__':
    main()
