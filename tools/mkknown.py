#!/usr/bin/env python3
"""Maintains the 'fixed' entries of known_findings.json from the fix: commits in /repo (open findings are edited by hand
and kept as they are).  Never run by a check."""
import json
import os
import subprocess

ROOT = os.path.dirname(os.path.dirname(os.path.abspath(__file__)))
# subject prefix of the fix: commit -> (properties, what failed before the repair, how the checks showed it)
FIXED = {
    'fix: apply the merge entries of a batch (and of a recovered ': (['C16', 'C13'], 'a merge entry (type 3, accepted by the log; a single one is applied as a put by the replication applier) inside ApplyBatch / ApplyBatchInternal and at log replay was logged and acknowledged but never became visible', 'C16 walks with every entry type through EngineApplier and ApplyBatchInternal: apply_batch with a merge entry - store differs from the prediction (witness findings/W_C16_merge_entry_in_batch_not_applied.json)'),
    'fix: GetNodeInfo reports the engine\'s read-only status withou': (['C16'], 'a service without a replication manager answered GetNodeInfo with read_only=false while its engine (switched to read-only by the embedding program) refused every write', 'C16 generated walks over role x manager x mode states: node information after SetReadOnly on a standalone node (witness in findings/)'),
    'fix: refuse the commit of a read-write transaction once the': (['C16'], 'a read-write transaction begun before the engine was switched to read-only mode committed afterwards: Commit applies to the storage directly and never asked the flag - a client write landed on a read-only node', 'C16 script 22 / random walks with SetRO while transactions are open: commit accepted and data changed under read-only (witness in findings/)'),
    'fix: do not hold the primary\'s sessions lock while reading t': (['C15'], 'lock-order cycle on the primary: the catch-up read held the sessions lock (read) while taking the WAL lock, a writer holds the WAL lock while taking the sessions lock (read), and any pending registration/removal/acknowledgement (write lock) in between blocks the writer for ever', 'C15 churn scenario (full-rate writers while clients attach and reset): "primary put did not return within 5000 ms"; MC_ReplLocks negative configuration deadlocks in the same state; also hit by the C02 retention walks (1 hang in 13)'),
    'fix: WAL retention keeps the log files whose entries are in': (['C02', 'C08'], 'the primary\'s log retention (run on every Acknowledge of a replication client) deleted log files holding entries that were in no table file yet: a crash afterwards lost acknowledged, synced writes, and with all files gone the numbering restarted from 1', 'C02 retention walks generated from KevoRetention (put, flush, acknowledge, die, recover on a real primary): log files / readable entries differ from the specification; MC_Retention_neg violates Recoverable'),
    'fix: serve the entries in front of a damaged record when re': (['C10', 'C14', 'C09'], 'WAL.GetEntriesFrom dropped every entry of an older log file ending in a record cut short by a crash and read on behind corrupt records: a primary restarted after a crash during an append could not serve what it had recovered, a joining replica saw a gap for ever', 'C10 fault enumeration: GetEntriesFrom(1) on the live log compared with what a replay of the directory yields ("from1", 70 outcomes)'),
    'fix: push a WAL batch to replicas as one message carrying t': (['C13', 'C14'], 'the push path split a WAL batch into one message per entry (and at 256 KB) and numbered them with the caller-supplied SequenceNumber field: Engine.ApplyBatch with numbered entries got its first entry through, the send cursor moved past the batch and the replica kept a strict subset of the batch for ever while reporting its sequence as applied', 'C13/C14 system scenarios pushed-applybatch-numbered-entries and pushed-batches-over-256KB: no convergence / TRACE_Repl rejects (entry count at convergence)'),
    'fix: do not hold the replica\'s lock while Stop waits for the': (['C14', 'C15'], 'Replica.Stop held r.mu across wg.Wait() while the replication loop takes r.mu after every applied message: Stop (Manager.Stop, server shutdown) could hang for ever', 'C13 system scenario restart0 under load: "replica stop did not return within 20 s"'),
    'fix: TxGet with an invalid key must not drop the transactio': (['C19', 'C17'], 'TxGet with an empty or over-long key removed the handle from the registry without rolling the transaction back: the database lock stayed held for good (no read-write transaction could begin again)', 'C19 generated behaviours: final probe "a fresh read-write transaction is granted" failed after an invalid TxGet (witness findings/W_C19_txget_invalid_key_drops_handle.json)'),
    'fix: a put of a nil value stores an empty value instead of ': (['C19', 'C01'], 'Put(k, nil) / every empty value sent over gRPC was logged as a put of an empty value but read back as absent until the next restart', 'C19 value class "empty": acknowledged Put then Get absent; present after reopen (witness findings/W_C19_empty_value_unreadable.json)'),
    'fix: Scan and TxScan apply start/end keys together with pre': (['C19'], 'Scan/TxScan ignored start_key/end_key whenever a prefix or suffix was given', 'C19 sweep over the whole scan-option product against ScanOK (witness findings/W_C19_scan_ignores_range_with_prefix.json)'),
    'fix: apply replicated merge entries without leaving read-on': (['C16'], 'the replica applier handled a merge entry by switching read-only off, calling Put and switching it on again: client Put/Delete/ApplyBatch arriving in between were accepted by the replica', 'C16 gated overlap: applier parked at sm.put.logged while a client mutation is sent (witness findings/W_C16_merge_apply_opens_write_window.json)'),
    'fix: let the gRPC server receive the 10MB values the servic': (['C19'], 'the server kept gRPC\'s default 4 MB receive limit: values between 4 MB and the documented 10 MB limit failed with ResourceExhausted', 'C19 value class 10 MiB against the real kevo -server binary (witness findings/W_C19_server_refuses_values_over_4MB.json)'),
    'fix: close the database on SIGTERM/SIGINT instead of exitin': (['C19', 'C01'], 'the signal handler ended in os.Exit(0), skipping the deferred engine Close: acknowledged writes still buffered by the WAL were lost on graceful shutdown', 'C19 real-binary scripts: state after SIGTERM + reopen differs from the prediction (witness findings/W_C19_graceful_shutdown_loses_buffered_writes.json)'),
    'fix: an empty first fragment in the WAL is damage': (['C10'], 'a zero-length FIRST record with a valid checksum made Reader.ReadEntry panic (index out of range) while opening', 'harness process died inside kevo code while C09 replayed a seeded writer bug (c09-large-batch-drops-buffered); treated as an observation (KevoPanic)'),
    'fix: let the replica applier accept the entries of a batch, ': (['C13', 'C14'], 'entries of a transaction share one sequence number; the applier applied the first one, raised "gap within batch" and stayed stuck with half a transaction visible', 'C13 component replay: "message must be accepted: gap within batch 2 -> 2 applied=2"'),
    'fix: keep replication attached to the WAL across rotations': (['C14'], 'the primary observed and polled the WAL object alive at start; after the first flush nothing reached the replicas', 'C14 system scenario flush-between: noconv after 20 s'),
    'fix: agree on the meaning of start_sequence between replica ': (['C14'], 'replica and primary disagreed on start_sequence (inclusive vs exclusive): the entry numbered start_sequence was neither pushed nor polled; a single write after the replica had caught up never arrived', 'C14 system scenario single-after-idle: noconv'),
    'fix: do not flag pushed WAL batches as compressed when they ': (['C14'], 'pushed batches were flagged ZSTD although nothing compressed them: the replica failed to decompress every pushed batch and reconnected after a back-off', 'C14 system scenarios (replica log: invalid compressed data -> ERROR)'),
    'fix: keep one Recv outstanding per replication stream and ne': (['C13', 'C14'], 'abandoned Recv goroutines read the stream concurrently and dropped messages; received messages were discarded through illegal state transitions (one reconnect + 1 s back-off per message)', 'C14 system scenarios: convergence time / lost pushes'),
    'fix: end a chunk of WAL entries sent to a replica at a batch': (['C13', 'C14'], 'a 100-entry chunk could end inside a transaction: the rest of the transaction was never applied while its sequence was reported as applied', 'C13/C14 system scenario chunk-cuts-batch-join-after: noconv, half a transaction visible'),
    'fix: send every WAL entry to a replica once and in order, an': (['C14', 'C15'], 'the poll re-sent the same chunk every 100 ms (duplicates -> NACK -> resend storm); with 64 KB values a HEALTHY replica dead-locked the primary (poll blocked in Send under the session lock, replica waiting for its NACK answer, writer waiting for the session lock); the poll read the WAL under the session lock (lock order inversion with writers)', 'C15 fault scenario no-fault healthy=1: Put never returned (goroutine dump)'),
    'fix: bound catch-up messages by size and let the replica acc': (['C14'], "catch-up messages of 100 x 64 KB exceeded the replica's 4 MB gRPC receive limit: ResourceExhausted for ever, replica never caught up", 'C15 scenario no-fault healthy=1: hconv false after 60 s'),
    'fix: a WAL file that ends right behind a record header': (['C10', 'C02'], 'a file cut exactly behind a 7-byte record header read as cleanly ended: ReuseWAL appended behind the orphaned header and acknowledged writes were lost at the next open', 'C10 fault enumeration: cut at record offset + 7, post-recovery writes missing at the second open (findings/C10_eof_behind_header.json)'),
    'fix: drop the fragments of a WAL entry that can no longer be completed': (['C10'], 'stale fragments stayed pending after a read error or when FULL/FIRST followed an unfinished entry: an old entry was delivered late in place of a later fragmented one', 'C10: type byte LAST->FIRST/MIDDLE (findings/C10_stale_fragments_reordered.json)'),
    'fix: end the replay of a WAL file at its first damaged record': (['C10'], 'after a damaged record the reader skipped 32 KB blindly and parsed key/value bytes as records: forged or altered entries were delivered and appeared in the engine', 'C10 (findings/C10_blind_skip_forged_entry.json, C10_blind_skip_altered_value.json)'),
    'fix: reject a WAL entry whose encoding does not fill its record exactly': (['C10'], 'parseEntryData ignored trailing bytes: a fragment retyped to FULL whose chunk begins like an entry was delivered as that entry', 'C10 (findings/C10_retyped_fragment_parsed_as_entry.json)'),
    'fix: land Seek and Find on the node the skiplist descent saw': (['C18', 'C05'], 'lock-free Seek/Find loaded the level-0 successor a second time after the descent: a concurrent Insert of a smaller key made Seek land BEFORE its target and Find report an existing key as absent', 'TLC on KevoMem (ReaderSeesAtLeastPrefix violated, 3 inserts), then reproduced on the real code by parking the reader at sl.seek.descended / sl.find.descended'),
    'fix: SSTable iterator Next on a fresh iterator deadlocked': (['C11', 'C07'], 'the first Next() on an iterator from Reader.NewIterator() never returned (re-locks its own mutex)', 'C11 replay: 294 generated cursor programs that start with Next hang'),
    'fix: validate the stored bloom filter header': (['C11'], 'one altered byte in a bloom filter size field made OpenReader die with an out-of-memory fatal error / makeslice panic instead of an error', 'C11 corruption sweep'),
    'fix: an entry with the empty key made a whole SSTable unreadable': (['C11', 'C01'], 'block.Iterator.Valid() demanded a non-empty key: a table holding the empty key iterated 0 entries and found nothing', 'C11 replay, byte shape empty-first-key'),
    'fix: reject a NaN or infinite compaction ratio': (['C20'], 'Validate accepted NaN/+Inf CompactionRatio, SaveManifest then failed in json.Marshal after creating the directory', 'C20 field product: validate mismatch (nan), save mismatch (pinf)'),
    'fix: hand the WAL sequence counter over': (['C01', 'C08'], 'a put after flush re-used sequence numbers from 1: stale read of the pre-flush value, storage_last_sequence fell', 'C01/C08 replay: get/seq mismatch at the first write after a flush'),
    'fix: give every memtable entry of a batch': (['C01', 'C08', 'C03'], 'memtable numbered batch entries start+i while the log consumed one number: a put right after an n-key commit read stale until restart', 'C01/C08 replay: seq mismatch after commit, get mismatch on the following put'),
    'fix: merge compaction inputs newest-first': (['C12', 'C01'], 'oldest level-0 input won the merge: overwritten values and deleted keys came back after compaction + reopen without logs', 'C01/C12 replay with retire+reopen'),
    'fix: load SSTables oldest-to-newest': (['C12', 'C01'], 'after reopen level-1 files were searched before level-0 files, file numbers restarted at 1', 'C01 replay: get mismatch at reopen after compactrange+retire'),
    'fix: do not abort WAL recovery when the log exceeds': (['C02', 'C01'], 'log larger than MaxMemTables x MemTableSize made recovery move every log file aside: acknowledged writes gone at reopen', 'C01 replay, class tinymem: get mismatch at reopen, log read-back short'),
    'fix: make every recovered memtable readable': (['C01', 'C02'], 'only the last recovered memtable was visible to reads until the next flush', 'C01 replay, class tinymem: get mismatch at reopen'),
    'fix: keep tombstones in a compaction while older tables': (['C12'], 'tombstones unknown to the in-memory tracker (transactional deletes, any restart) were dropped while older versions remained in tables outside the compaction', 'C01/C12 replay: deleted key read back after compact + retire + reopen'),
    'fix: keep empty values distinct from tombstones': (['C01', 'C11'], 'an empty value became a tombstone when written to an SSTable', 'C01 replay, class binary: get mismatch (NONE for the empty value) at reopen after retire'),
    'fix: fragment batch entries that exceed one WAL record': (['C01', 'C03', 'C09'], 'commit with a value above 32 KB failed after part of the batch was already in the log buffer', 'C01 replay, class big: commit error'),
    'fix: block iterator returned the first entry': (['C11', 'C05'], 'first entry of every block yielded twice', 'dumpdir of replay directories; C11'),
    'fix: block iterator Seek started in the restart interval': (['C11', 'C01', 'C05'], 'seek inside a block landed in the restart interval after the target', 'C01 replay with filler keys: get mismatch when served from tables'),
    'fix: SSTable iterator Seek chose the block after': (['C11', 'C01', 'C05'], 'table seek used the block after the one holding the target', 'C01 replay, class big with filler keys'),
    'fix: Reader.Get looked for the key in every block except': (['C11'], 'point lookups on multi-block tables missed', 'C11'),
    "fix: label each block's bloom filter": (['C11'], 'bloom filters labelled with the previous block offset', 'C11'),
    'fix: do not drop memtables queued for flushing': (['C01', 'C12', 'C07'], 'memtables switched in while a flush ran were dropped from the flush list (unsynchronised list): their data never reached a table', 'C01 replay, class tinymem with filler keys: filler key missing after flush + retire + reopen'),
}


def main():
    p = os.path.join(ROOT, 'known_findings.json')
    cur = json.load(open(p)) if os.path.exists(p) else {'findings': []}
    keep = [f for f in cur['findings'] if f.get('status') != 'fixed']
    out = subprocess.run(['git', '-C', '/repo', 'log', '--reverse', '--format=%h\t%s'], capture_output=True, text=True).stdout
    fixed = []
    for line in out.splitlines():
        h, subj = line.split('\t', 1)
        if not subj.startswith('fix:'):
            continue
        m = [v for k, v in FIXED.items() if subj.startswith(k)]
        props, what, how = m[0] if m else (['?'], subj, '')
        for pr in props:
            fixed.append({'status': 'fixed', 'property': pr, 'commit': h, 'subject': subj, 'what': what, 'shown_by': how,
                          'line': f'fixed: property={pr} {h} {what}'})
    cur = {'comment': 'open entries suppress exactly the disagreements their pattern describes (see tools/props/*.py matches_known); '
                      'fixed entries suppress nothing. Never written at check time.',
           'findings': keep + fixed}
    with open(p, 'w') as f:
        json.dump(cur, f, indent=1)
        f.write('\n')
    print(len(keep), 'open,', len(fixed), 'fixed entries')


if __name__ == '__main__':
    main()
