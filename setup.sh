#!/bin/sh
# Offline set-up: everything is built from files on disk.  Checks rebuild the harness from /repo's working tree
# themselves; this only verifies the tool chain and warms the Go build cache.
set -e
cd "$(dirname "$0")"
command -v java >/dev/null
test -f /opt/veriftools/tla/tla2tools.jar
mkdir -p .work/setup && cd .work/setup
rm -rf cmd && mkdir -p cmd/kvh && for f in $(cat ../../harness/INTEGRATED); do cp ../../harness/cmd/kvh/$f cmd/kvh/; done && sed "s#@REPO@#${VERIF_REPO:-/repo}#" ../../harness/go.mod.tmpl > go.mod && cp "${VERIF_REPO:-/repo}/go.sum" .
GOFLAGS=-mod=mod GOPROXY=off go build -tags verif -o /dev/null ./cmd/kvh
cd ../.. && rm -rf .work/setup
echo setup ok
